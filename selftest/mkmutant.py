#!/usr/bin/env python3
"""mkmutant.py <name> <file> <old> <new> [<file> <old> <new> ...]: writes selftest/mutants/hand_<name>.patch (a unified diff against /repo HEAD)."""
import sys, subprocess, tempfile, os, shutil
name=sys.argv[1]; args=sys.argv[2:]
tmp=tempfile.mkdtemp(prefix='mkmut_', dir='/tmp')
try:
    subprocess.check_call(['git','-C','/repo','worktree','add','-q','--detach',tmp+'/wt','HEAD'])
    wt=tmp+'/wt'
    for i in range(0,len(args),3):
        f,old,new=args[i:i+3]
        p=os.path.join(wt,f); s=open(p).read()
        if s.count(old)!=1: sys.exit(f"{f}: pattern occurs {s.count(old)} times")
        open(p,'w').write(s.replace(old,new))
    if any(a.endswith('switchthread.go') for a in args[0::3]) and os.environ.get('NOREGEN') is None:
        env=dict(os.environ,GOFLAGS='-mod=mod',GOPROXY='off',GOSUMDB='off',GOTOOLCHAIN='local')
        subprocess.call(['go','test','./vm','-run','TestGenCallThreadingBySwitch','-count=1'],cwd=wt,env=env,stdout=subprocess.DEVNULL)
    d=subprocess.check_output(['git','-C',wt,'diff']).decode()
    open(f'/verif/selftest/mutants/hand_{name}.patch','w').write(d)
    print(name, len(d.splitlines()),'lines')
finally:
    subprocess.call(['git','-C','/repo','worktree','remove','--force',tmp+'/wt'])
    shutil.rmtree(tmp,ignore_errors=True)
