#!/bin/bash
# usage: run_seeds.sh <seed root> [ids...]   -- runs each seeded change against its own property's check
root="${1:-/verif/seeded}"; shift
here="$(cd "$(dirname "$0")" && pwd)"
for d in "$root"/*/; do
  id=$(basename "$d")
  [ -f "$d/patch.diff" ] || continue
  if [ $# -gt 0 ]; then case " $* " in *" $id "*) ;; *) continue;; esac; fi
  prop=$(python3 -c "import json;print(json.load(open('$d/meta.json'))['property'])" 2>/dev/null)
  [ -z "$prop" ] && prop=$(echo "$id" | cut -c1-3)
  echo "== $id ($prop)"
  "$here/run_mutant.sh" "$d/patch.diff" $prop ${EXTRA_PROPS:-} 2>&1 | sed 's/^/   /'
done
