#!/usr/bin/env python3
"""Checker validation (not a registered check): applies every mutant to a scratch copy of /repo, runs the checks,
and records which obligations fire. Also asserts silence on the unmodified tree.
usage: run_all.py [--jobs N] [--only substr]   -> writes selftest/RESULTS.md and selftest/results.json
"""
import json, os, re, shutil, subprocess, sys, tempfile, glob
from concurrent.futures import ThreadPoolExecutor

HERE = os.path.dirname(os.path.abspath(__file__))
VERIF = os.path.dirname(HERE)
ENV = dict(os.environ, GOFLAGS="-mod=mod", GOPROXY="off", GOSUMDB="off", GOTOOLCHAIN="local")
ENV.pop("GOWORK", None)
ALL = ["C%02d" % i for i in range(1, 21)]

# which properties each reverse-fix / hand mutant is expected to trip (first = primary)
EXPECT = {
 "revert_be32b1e": ["C12", "C07"], "revert_e45394f": ["C12", "C15"], "revert_9722706": ["C02"], "revert_e5665c2": ["C03"],
 "revert_c3a409e": ["C13"], "revert_0dfc046": ["C13", "C18"], "revert_8f38476": ["C13", "C18", "C05"], "revert_818371c": ["C18", "C13"],
 "revert_e3d9253": ["C18", "C04", "C20"], "revert_19f7e97": ["C09"], "revert_6c0bda8": ["C08"], "revert_772eebd": ["C13"],
 "revert_df3bb8a": ["C14"], "revert_7f9c607": ["C08"], "revert_908f3cd": ["C08"], "revert_d07c926": ["C01", "C07"],
 "hand_objload_pop_twice": ["C11", "C02"], "hand_emitcond_no_jump": ["C11"], "hand_emitcond_else_before_jump": ["C11", "C06"],
 "hand_emitcond_patch_swapped": ["C11"], "hand_newlist_size_u8": ["C11", "C03"], "hand_thunk_own_pool": ["C11"],
 "hand_callbyvalue_args_not_reversed": ["C03", "C06"], "hand_sub_operands_swapped": ["C03", "C04"], "hand_callthread_only_edit": ["C03"],
 "hand_reset_drops_stack": ["C03", "C06"], "hand_interp_missing_case": ["C03", "C02"], "hand_isset_returns_num": ["C01", "C02"],
 "hand_interp_member_obj_twice": ["C06", "C12"], "hand_check_member_obj_twice": ["C12", "C06"],
 "hand_listget_returns_index": ["C01", "C16"], "hand_maxlist_no_empty_test": ["C02"], "hand_lenlist_wrong_accessor": ["C02", "C01"],
}


def sh(cmd, cwd=None, timeout=900):
    p = subprocess.run(cmd, cwd=cwd, shell=True, env=ENV, stdout=subprocess.PIPE, stderr=subprocess.STDOUT, text=True, timeout=timeout)
    return p.returncode, p.stdout


def run_one(name, patch, props):
    scratch = tempfile.mkdtemp(prefix="yaemut_", dir="/tmp")
    res = {"mutant": name, "props": {}, "error": None}
    try:
        sh(f"cp -r /repo/. {scratch}/ && rm -rf {scratch}/.git")
        if patch:
            rc, out = sh(f"patch -p1 -s < {patch}", cwd=scratch)
            if rc:
                res["error"] = "patch failed: " + out[-200:]
                return res
            rc, out = sh("go build ./...", cwd=scratch)
            if rc:
                res["error"] = "build failed: " + out[-200:]
                return res
        for p in props:
            ev = os.path.join(scratch, f"ev_{p}.json")
            rc, out = sh(f"YAE_REPO={scratch} YAE_EVIDENCE={ev} {VERIF}/check.sh {p} quick")
            fired = [re.sub(r"\s+at .*", "", l.strip().split(": ", 1)[1]) for l in out.splitlines() if re.match(r"\s+(VIOLATED|UNDECIDED): ", l)]
            res["props"][p] = {"caught": "VIOLATION property=" in out, "keys": fired[:6]}
    finally:
        shutil.rmtree(scratch, ignore_errors=True)
    return res


def main():
    jobs, only = 8, None
    a = sys.argv[1:]
    while a:
        if a[0] == "--jobs":
            jobs = int(a[1]); a = a[2:]
        elif a[0] == "--only":
            only = a[1]; a = a[2:]
        else:
            a = a[1:]
    sh(f"{VERIF}/check.sh C01 quick >/dev/null")  # make sure the checker binary is built once
    tasks = [("BASELINE (unmodified tree)", None, ALL)]
    for p in sorted(glob.glob(os.path.join(HERE, "mutants", "*.patch"))):
        base = os.path.basename(p)[:-6]
        key = next((k for k in EXPECT if base.startswith(k)), None)
        tasks.append((base, p, EXPECT.get(key, ALL)))
    for p in sorted(glob.glob(os.path.join(HERE, "benign", "*.patch"))):
        tasks.append(("BENIGN " + os.path.basename(p)[:-6], p, ALL))
    for d in sorted(glob.glob(os.path.join(VERIF, "seeded", "*", "patch.diff"))):
        sid = os.path.basename(os.path.dirname(d))
        prop = sid[:3]
        tasks.append(("seeded/" + sid, d, ALL if os.environ.get("SEEDS_ALL") else [prop] + [q for q in ALL if q != prop]))
    if only:
        tasks = [t for t in tasks if only in t[0]]
    with ThreadPoolExecutor(max_workers=jobs) as ex:
        results = list(ex.map(lambda t: run_one(*t), tasks))
    json.dump(results, open(os.path.join(HERE, "results.json"), "w"), indent=1)
    lines = ["# Checker validation run (selftest/run_all.py)", "",
             "Each change is applied to a scratch copy of /repo (removed afterwards), the project must still build, and the quick checks are run against the copy.",
             "`own` = the change's own property check fires; `others` = further property checks that fire.", "",
             "| change | own property | caught by own check | first obligation | also caught by |", "|---|---|---|---|---|"]
    ok_all = True
    for r in results:
        if r["error"]:
            lines.append(f"| {r['mutant']} | - | ERROR {r['error']} | | |")
            ok_all = False
            continue
        if r["mutant"].startswith("BENIGN"):
            bad = [p for p, v in r["props"].items() if v["caught"]]
            lines.append(f"| {r['mutant']} (behaviour-preserving) | all 20 | {'SILENT (as required)' if not bad else 'FALSE ALARM on ' + ','.join(bad)} | {'' if not bad else r['props'][bad[0]]['keys'][0].replace('|','¦')[:150]} | |")
            ok_all = ok_all and not bad
            continue
        if r["mutant"].startswith("BASELINE"):
            bad = [p for p, v in r["props"].items() if v["caught"]]
            lines.append(f"| {r['mutant']} | all 20 | {'SILENT (as required)' if not bad else 'ALARM on ' + ','.join(bad)} | | |")
            ok_all = ok_all and not bad
            continue
        props = list(r["props"].items())
        own, ov = props[0]
        others = [p for p, v in props[1:] if v["caught"]]
        first = ov["keys"][0] if ov["keys"] else ""
        if not ov["caught"] and others:
            first = "(" + r["props"][others[0]]["keys"][0] + ")" if r["props"][others[0]]["keys"] else ""
        lines.append(f"| {r['mutant']} | {own} | {'yes' if ov['caught'] else 'NO'} | {first.replace('|', '¦')[:150]} | {' '.join(others)} |")
    open(os.path.join(HERE, "RESULTS.md"), "w").write("\n".join(lines) + "\n")
    print("\n".join(lines))
    sys.exit(0 if ok_all else 1)


if __name__ == "__main__":
    main()
