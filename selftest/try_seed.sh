#!/bin/bash
# usage: try_seed.sh <seed dir> [props...]  -- validate the seeded change (5 facts), then run its own property's check (and any others named, or ALL)
d="$(readlink -f "$1")"; shift
here="$(cd "$(dirname "$0")" && pwd)"
id=$(basename "$d"); prop=$(echo "$id" | cut -c1-3)
echo "== $id"
python3 "$here/validate_seed.py" "$d" | python3 -c "
import json,sys
r=json.loads(sys.stdin.read().strip().splitlines()[-1])
print('   valid=%s'%r.get('ok'), {k:r.get(k) for k in ('applies','builds','suite_passes_with_change','demo_fails_with_change','demo_passes_without_change')}, r.get('error',''))
if not r.get('ok'): print('   ', r.get('suite_out','')[-300:], r.get('demo_without_tail','')[-300:])
"
props="$prop"
if [ "${1:-}" = ALL ]; then props="$prop"; for i in $(seq -w 1 20); do [ "C$i" != "$prop" ] && props="$props C$i"; done; elif [ $# -gt 0 ]; then props="$prop $*"; fi
MAXLINES=3 "$here/run_mutant.sh" "$d/patch.diff" $props 2>&1 | sed 's/^/   /'
