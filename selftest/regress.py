#!/usr/bin/env python3
"""Checker validation (not a registered check). One scratch copy of /repo per change, one load of the checker per change
(`yaecheck -multi all`), all 20 property verdicts.
usage: regress.py [--jobs N] [--only substr[,substr..]] [--kinds seeds,mutants,benign,baseline] [--out file.json]
Prints one line per change: seeds/mutants: own-property verdict + other properties that fire; benign: alarms (must be none).
"""
import json, os, re, shutil, subprocess, sys, tempfile, glob
from concurrent.futures import ThreadPoolExecutor

HERE = os.path.dirname(os.path.abspath(__file__))
VERIF = os.path.dirname(HERE)
ENV = dict(os.environ, GOFLAGS="-mod=mod", GOPROXY="off", GOSUMDB="off", GOTOOLCHAIN="local", CGO_ENABLED="1")
ENV.pop("GOWORK", None)
BIN = os.path.join(VERIF, "bin", "yaecheck")

sys.path.insert(0, HERE)
try:
    from run_all import EXPECT
except Exception:
    EXPECT = {}


def sh(cmd, cwd=None, timeout=900):
    p = subprocess.run(cmd, cwd=cwd, shell=True, env=ENV, stdout=subprocess.PIPE, stderr=subprocess.STDOUT, text=True, timeout=timeout)
    return p.returncode, p.stdout


def run_one(task):
    name, patch, kind, own = task
    scratch = tempfile.mkdtemp(prefix="yaereg_", dir="/tmp")
    res = {"name": name, "kind": kind, "own": own, "fired": {}, "error": None}
    try:
        sh(f"cp -r /repo/. {scratch}/ && rm -rf {scratch}/.git")
        if patch:
            rc, out = sh(f"patch -p1 -s < {patch}", cwd=scratch)
            if rc:
                res["error"] = "patch failed: " + out[-200:]
                return res
            rc, out = sh("go build ./...", cwd=scratch)
            if rc:
                res["error"] = "build failed: " + out[-300:]
                return res
        rc, out = sh(f"{BIN} -repo {scratch} -multi all -known {VERIF}/known_findings.json")
        cur = []
        for l in out.splitlines():
            m = re.match(r"\s+(VIOLATED|UNDECIDED): (.*?)\s+at (\S+) — (.*)", l)
            if m:
                cur.append({"v": m.group(1), "key": m.group(2), "at": m.group(3), "why": m.group(4)[:200]})
                continue
            m = re.match(r"RESULT (C\d+) exit=(\d+)", l)
            if m:
                if m.group(2) != "0":
                    res["fired"][m.group(1)] = cur
                cur = []
        if "RESULT C20" not in out:
            res["error"] = "checker did not finish: " + out[-300:]
    finally:
        shutil.rmtree(scratch, ignore_errors=True)
    return res


def main():
    jobs, only, kinds, outp = 8, None, {"seeds", "mutants", "benign", "baseline"}, os.path.join(HERE, "regress.json")
    a = sys.argv[1:]
    while a:
        if a[0] == "--jobs":
            jobs = int(a[1]); a = a[2:]
        elif a[0] == "--only":
            only = a[1].split(","); a = a[2:]
        elif a[0] == "--kinds":
            kinds = set(a[1].split(",")); a = a[2:]
        elif a[0] == "--out":
            outp = a[1]; a = a[2:]
        else:
            a = a[1:]
    rc, out = sh(f"cd {VERIF}/checker && go build -o {BIN} .")
    if rc:
        print("checker build failed\n" + out); sys.exit(2)
    tasks = []
    if "baseline" in kinds:
        tasks.append(("BASELINE", None, "baseline", []))
    if "mutants" in kinds:
        for p in sorted(glob.glob(os.path.join(HERE, "mutants", "*.patch"))):
            base = os.path.basename(p)[:-6]
            key = next((k for k in EXPECT if base.startswith(k)), None)
            tasks.append((base, p, "mutant", EXPECT.get(key, [])[:1]))
    if "benign" in kinds:
        for p in sorted(glob.glob(os.path.join(HERE, "benign*", "*.patch"))):
            tasks.append(("benign/" + os.path.basename(p)[:-6], p, "benign", []))
    if "seeds" in kinds:
        for d in sorted(glob.glob(os.path.join(VERIF, "seeded", "*", "patch.diff"))):
            sid = os.path.basename(os.path.dirname(d))
            tasks.append(("seeded/" + sid, d, "seed", [sid[:3]]))
    if only:
        tasks = [t for t in tasks if any(o in t[0] for o in only)]
    with ThreadPoolExecutor(max_workers=jobs) as ex:
        results = list(ex.map(run_one, tasks))
    miss, alarms, errs = [], [], []
    for r in results:
        fired = sorted(r["fired"])
        if r["error"]:
            errs.append(r["name"]); print(f"ERROR  {r['name']}: {r['error']}"); continue
        if r["kind"] in ("benign", "baseline"):
            if fired:
                alarms.append(r["name"])
                print(f"ALARM  {r['name']}: " + " ".join(fired))
                seen = set()
                for p in fired:
                    for o in r["fired"][p]:
                        if o["key"] not in seen:
                            seen.add(o["key"]); print(f"         {o['v']} {o['key']} @{o['at']} — {o['why'][:150]}")
            else:
                print(f"silent {r['name']}")
        else:
            own = r["own"][0] if r["own"] else None
            ok = own in r["fired"] if own else bool(fired)
            first = r["fired"][own][0]["key"] if ok and own and r["fired"][own] else ""
            print(f"{'caught' if ok else 'MISSED'} {r['name']} own={own} first={first} others={' '.join(p for p in fired if p != own)}")
            if not ok:
                miss.append(r["name"])
    print(f"\nSUMMARY changes={len(results)} missed={len(miss)} false_alarms={len(alarms)} errors={len(errs)}")
    if miss:
        print("missed: " + " ".join(miss))
    if alarms:
        print("alarms: " + " ".join(alarms))
    json.dump(results, open(outp, "w"), indent=1)


if __name__ == "__main__":
    main()
