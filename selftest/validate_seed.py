#!/usr/bin/env python3
"""Validate a seeded change: patch applies, project builds, pinned suite passes with it,
demonstration fails with it and passes without it. Uses a scratch worktree under /tmp that is removed afterwards.
usage: validate_seed.py <dir with patch.diff + demo_test.go [+ meta.json]> ...
"""
import json, os, re, subprocess, sys, shutil, tempfile

ENV = dict(os.environ, GOFLAGS="-mod=mod", GOPROXY="off", GOSUMDB="off", GOTOOLCHAIN="local")
ENV.pop("GOWORK", None)


def sh(cmd, cwd, timeout=600):
    p = subprocess.run(cmd, cwd=cwd, shell=True, env=ENV, stdout=subprocess.PIPE, stderr=subprocess.STDOUT, text=True, timeout=timeout)
    return p.returncode, p.stdout


def placement(demo_path, meta):
    head = open(demo_path).read(1500)
    m = re.search(r'(?i)place(?:d)?\s+at:?\s*(\S+)', head)
    rel = None
    if m:
        rel = m.group(1)
        rel = re.sub(r'^/tmp/wt\d*/C\d+/', '', rel)
        rel = re.sub(r'^<worktree>/', '', rel)
        rel = rel.rstrip(';,.')
    if (not rel or not rel.endswith('.go')) and meta:
        m2 = re.search(r'cp\s+\S+\s+(?:/tmp/wt\d*/C\d+/)?(\S+\.go)', meta.get('demo_cmd', ''))
        if m2:
            rel = m2.group(1)
    return rel


def validate(d):
    res = {"dir": d}
    patch = os.path.join(d, "patch.diff")
    demo = os.path.join(d, "demo_test.go")
    meta = None
    if os.path.exists(os.path.join(d, "meta.json")):
        meta = json.load(open(os.path.join(d, "meta.json")))
    if not (os.path.exists(patch) and os.path.exists(demo)):
        res["error"] = "missing patch.diff or demo_test.go"
        return res
    rel = placement(demo, meta)
    if not rel:
        res["error"] = "cannot determine demo placement"
        return res
    run = "."
    if meta:
        m = re.search(r'-run\s+(\S+)', meta.get("demo_cmd", ""))
        if m:
            run = m.group(1).strip("'\"")
    wt = tempfile.mkdtemp(prefix="seedval_", dir="/tmp")
    os.rmdir(wt)
    try:
        rc, out = sh(f"git -C /repo worktree add -q --detach {wt} HEAD", "/")
        if rc:
            res["error"] = "worktree: " + out
            return res
        rc, out = sh(f"git apply {patch}", wt)
        res["applies"] = rc == 0
        if rc:
            res["error"] = out[-500:]
            return res
        rc, out = sh("go build ./... && go vet ./... >/dev/null 2>&1; go build ./...", wt)
        res["builds"] = rc == 0
        rc, out = sh("go test -mod=mod -vet=off -count=1 ./...", wt)
        res["suite_passes_with_change"] = rc == 0
        if rc:
            res["suite_out"] = out[-800:]
        # the suite regenerates files; make sure nothing but the patch is different
        dst = os.path.join(wt, rel)
        os.makedirs(os.path.dirname(dst), exist_ok=True)
        shutil.copy(demo, dst)
        pkg = "./" + os.path.dirname(rel)
        cmd = f"go test -mod=mod -vet=off -count=1 {pkg} -run '{run}'"
        rc, out = sh(cmd, wt, timeout=900)
        res["demo_fails_with_change"] = rc != 0
        res["demo_with_tail"] = out[-400:]
        rc2, out2 = sh(f"git apply -R {patch}", wt)
        if rc2:
            res["error"] = "reverse apply failed: " + out2[-300:]
            return res
        rc, out = sh(cmd, wt, timeout=900)
        res["demo_passes_without_change"] = rc == 0
        if rc:
            res["demo_without_tail"] = out[-600:]
        res["demo_rel"] = rel
        res["demo_cmd"] = cmd
    finally:
        sh(f"git -C /repo worktree remove --force {wt}", "/")
        shutil.rmtree(wt, ignore_errors=True)
    res["ok"] = all(res.get(k) for k in ("applies", "builds", "suite_passes_with_change", "demo_fails_with_change", "demo_passes_without_change"))
    return res


if __name__ == "__main__":
    for d in sys.argv[1:]:
        r = validate(d.rstrip("/"))
        print(json.dumps(r))
        sys.stdout.flush()
