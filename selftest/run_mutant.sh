#!/bin/bash
# usage: run_mutant.sh <patch file> <property>...   -- applies the patch to a scratch copy of /repo and runs the checks against it
set -u
patch="$(readlink -f "$1")"; shift
here="$(cd "$(dirname "$0")/.." && pwd)"
scratch="$(mktemp -d /tmp/yaemut.XXXXXX)"
trap 'rm -rf "$scratch"' EXIT
cp -r /repo/. "$scratch/" && rm -rf "$scratch/.git"
(cd "$scratch" && patch -p1 -s < "$patch") || { echo "PATCH-FAILED $patch"; exit 2; }
export GOFLAGS=-mod=mod GOPROXY=off GOSUMDB=off GOTOOLCHAIN=local; unset GOWORK
(cd "$scratch" && go build ./... ) || { echo "BUILD-FAILED $patch"; exit 2; }
rc=0
for p in "$@"; do
  out=$(YAE_REPO="$scratch" YAE_EVIDENCE="$scratch/ev.json" "$here/check.sh" "$p" "${TIER:-quick}" 2>&1)
  if echo "$out" | grep -q '^VIOLATION'; then
    echo "CAUGHT $p: $(echo "$out" | grep -E '^\s+(VIOLATED|UNDECIDED)' | sed 's/^ *//' | cut -c1-220 | head -${MAXLINES:-4} | tr '\n' '~' | sed 's/~/\n         /g')"
    rc=1
  else
    echo "silent $p"
  fi
done
exit $rc
