package main

import (
	"go/ast"
	"go/token"
	"go/types"
)

// Canonicalisation of the loaded syntax trees (done once, after type checking and after the SSA form has been built from
// the untouched trees). Every rule then sees ONE spelling of two idioms that maintainers use interchangeably, so that a
// behaviour-preserving rewrite of one into the other cannot change a verdict:
//
//	A. `if <cond> { panic(x) }` / `{ util.Unreachable() }` (no init, no else, single statement)
//	       ==> util.Assert(<not cond>, x)               (the repository's own assertion helper: `if !c { panic(fmt.Errorf(..)) }`)
//	B. `if c { ...; return|panic } else { rest }`        ==> `if c { ...; return|panic }; rest`   (else after a terminating branch)
//
// Synthetic nodes get entries in the package's types.Info (Uses / Types) so that callee resolution, constant evaluation
// and the CFG builder treat them like parsed code; they carry the position of the statement they replace.

type canon struct {
	p         *Prog
	assertFn  types.Object
	utilPkg   *types.Package
	rewritesA int
	rewritesB int
}

func (p *Prog) canonicalise() {
	cn := &canon{p: p}
	if up := p.Mod["util"]; up != nil {
		cn.assertFn = up.Types.Scope().Lookup("Assert")
		cn.utilPkg = up.Types
	}
	if cn.assertFn == nil {
		return
	}
	for _, pk := range p.sortedMod() {
		for _, f := range pk.Syntax {
			info := pk.TypesInfo
			ast.Inspect(f, func(x ast.Node) bool {
				switch n := x.(type) {
				case *ast.BlockStmt:
					n.List = cn.stmts(info, pk.Types, n.List)
				case *ast.CaseClause:
					n.Body = cn.stmts(info, pk.Types, n.Body)
				case *ast.CommClause:
					n.Body = cn.stmts(info, pk.Types, n.Body)
				}
				return true
			})
		}
	}
	p.CanonA, p.CanonB = cn.rewritesA, cn.rewritesB
}

func terminates(p *Prog, list []ast.Stmt) bool {
	if len(list) == 0 {
		return false
	}
	switch s := list[len(list)-1].(type) {
	case *ast.ReturnStmt:
		return true
	case *ast.ExprStmt:
		if ce, ok := s.X.(*ast.CallExpr); ok {
			return p.noReturn(ce)
		}
	case *ast.BranchStmt:
		return s.Tok == token.CONTINUE || s.Tok == token.BREAK || s.Tok == token.GOTO
	case *ast.BlockStmt:
		return terminates(p, s.List)
	case *ast.IfStmt:
		if s.Else == nil {
			return false
		}
		var els []ast.Stmt
		switch e := s.Else.(type) {
		case *ast.BlockStmt:
			els = e.List
		case *ast.IfStmt:
			els = []ast.Stmt{e}
		}
		return terminates(p, s.Body.List) && terminates(p, els)
	}
	return false
}

func (cn *canon) stmts(info *types.Info, pkg *types.Package, list []ast.Stmt) []ast.Stmt {
	var out []ast.Stmt
	for _, s := range list {
		is, ok := s.(*ast.IfStmt)
		if !ok {
			out = append(out, s)
			continue
		}
		// A: if-panic
		if is.Init == nil && is.Else == nil && len(is.Body.List) == 1 {
			if es, ok := is.Body.List[0].(*ast.ExprStmt); ok {
				if ce, ok := es.X.(*ast.CallExpr); ok && cn.p.noReturn(ce) {
					nm := cn.p.calleeName(ce)
					if nm == "builtin.panic" || nm == "util.Unreachable" {
						out = append(out, cn.assertStmt(info, pkg, is, ce))
						cn.rewritesA++
						continue
					}
				}
			}
		}
		// B: else after a terminating then-branch
		if is.Else != nil && is.Init == nil && terminates(cn.p, is.Body.List) {
			els := is.Else
			is.Else = nil
			out = append(out, is)
			switch e := els.(type) {
			case *ast.BlockStmt:
				// the statements of the else block have not been visited yet as a list of their own parent: recurse
				out = append(out, cn.stmts(info, pkg, e.List)...)
			case *ast.IfStmt:
				out = append(out, cn.stmts(info, pkg, []ast.Stmt{e})...)
			}
			cn.rewritesB++
			continue
		}
		out = append(out, s)
	}
	return out
}

// negate builds the negation of cond reusing its operand nodes.
func (cn *canon) negate(info *types.Info, cond ast.Expr) ast.Expr {
	boolT := types.Typ[types.Bool]
	switch c := unparen(cond).(type) {
	case *ast.UnaryExpr:
		if c.Op == token.NOT {
			return c.X
		}
	case *ast.BinaryExpr:
		if f, ok := flipOp[c.Op]; ok {
			n := &ast.BinaryExpr{X: c.X, OpPos: c.OpPos, Op: f, Y: c.Y}
			info.Types[n] = types.TypeAndValue{Type: boolT}
			return n
		}
		if c.Op == token.LOR || c.Op == token.LAND { // De Morgan
			op := token.LAND
			if c.Op == token.LAND {
				op = token.LOR
			}
			n := &ast.BinaryExpr{X: cn.negate(info, c.X), OpPos: c.OpPos, Op: op, Y: cn.negate(info, c.Y)}
			info.Types[n] = types.TypeAndValue{Type: boolT}
			return n
		}
	}
	n := &ast.UnaryExpr{OpPos: cond.Pos(), Op: token.NOT, X: cond}
	info.Types[n] = types.TypeAndValue{Type: boolT}
	return n
}

func (cn *canon) assertStmt(info *types.Info, pkg *types.Package, is *ast.IfStmt, panicCall *ast.CallExpr) ast.Stmt {
	pos := is.Pos()
	var fun ast.Expr
	sel := &ast.Ident{NamePos: pos, Name: "Assert"}
	info.Uses[sel] = cn.assertFn
	if pkg == cn.utilPkg {
		fun = sel
	} else {
		x := &ast.Ident{NamePos: pos, Name: "util"}
		info.Uses[x] = types.NewPkgName(pos, pkg, "util", cn.utilPkg)
		se := &ast.SelectorExpr{X: x, Sel: sel}
		info.Types[se] = types.TypeAndValue{Type: cn.assertFn.Type()}
		fun = se
	}
	args := []ast.Expr{cn.negate(info, is.Cond)}
	args = append(args, panicCall.Args...)
	call := &ast.CallExpr{Fun: fun, Lparen: pos, Args: args, Rparen: is.End() - 1}
	info.Types[call] = types.TypeAndValue{Type: types.NewTuple()}
	return &ast.ExprStmt{X: call}
}
