package main

import (
	"fmt"
	"go/ast"
	"go/constant"
	"go/token"
	"go/types"
	"golang.org/x/tools/go/packages"
	"regexp"
	"sort"
	"strconv"
	"strings"
)

// LEX-1..7 (lexer), PARSE-1..6,8 (parser), DS-1..6 (desugarer).

func init() {
	reg("LEX", ruleLex)
	reg("PARSE", ruleParse)
	reg("PARSE-8", ruleParse8)
	reg("DS", ruleDesugar)
	reg("LEX-8", ruleLex8)
}

func (c *Ctx) constStr(e ast.Expr) (string, bool) {
	v := c.constOf(e)
	if v == nil || v.Kind() != constant.String {
		return "", false
	}
	return constant.StringVal(v), true
}

// regexpVar evaluates `var x = regexp.MustCompile(<const>)` of a package.
func (c *Ctx) regexpVar(sp, name string) *regexp.Regexp {
	init := c.VarInit(sp, name)
	ce, ok := init.(*ast.CallExpr)
	if !ok || c.calleeName(ce) != "regexp.MustCompile" || len(ce.Args) != 1 {
		return nil
	}
	s, ok := c.constStr(ce.Args[0])
	if !ok {
		return nil
	}
	re, err := regexp.Compile(s)
	if err != nil {
		return nil
	}
	return re
}

// ---------- LEX ----------

type lexReg struct {
	call *ast.CallExpr // the rule constructor call: str(..), keyword(..), primOper(..), regex(..), or addOper
	ctor string
	kind string  // constant token kind, if any
	pat  string  // regex pattern
	seq  *lexSeq // registered once per element of this sequence (nil: a single registration)
}

func ruleLex(c *Ctx) {
	c.R.Rule("LEX", 25, "lexer: fixed-string rules never carry identifier-like text (whole-word rules are used instead); both operator lists are sorted longest-first before registration; built-in . and ? refuse when another operator character follows; token positions are advanced rune by rune over exactly the matched runes; every match function returns a rune count; registration order puts primitive operators before user operators, words before the identifier rule and float patterns before the integer pattern; every pattern is anchored; no fixed-string rule registered ahead of the operators can swallow the first character of a registrable operator")
	nl := c.FuncDecl("parser/lexer", "newLexicon")
	if nl == nil {
		c.R.Anchor("parser/lexer.newLexicon")
		return
	}
	idReg := c.regexpVar("parser/oper", "idReg")
	if idReg == nil {
		c.R.Anchor("parser/oper.idReg")
		return
	}
	opAlphabet := ""
	if o, ok := c.Obj("parser/oper", "operators").(*types.Const); ok {
		opAlphabet = constant.StringVal(o.Val())
	} else {
		c.R.Anchor("parser/oper.operators")
	}
	// the registrations in registration order, by abstract evaluation of the body (rules_lexeval.go)
	ev := c.lexRegistrations(nl)
	regs := ev.regs
	fn := "parser/lexer.newLexicon"

	// LEX-0: nothing that could register a rule was skipped
	c.R.Check(len(ev.bad) == 0, fn, "LEX-0 every registration is evaluated", nl.Pos(), fmt.Sprintf("%d registrations in order", len(regs)), "the registration order cannot be established: "+strings.Join(ev.bad, "; "))

	// LEX-1
	for _, r := range regs {
		if r.ctor == "str" && r.kind != "" {
			c.R.Check(!idReg.MatchString(r.kind), fn, "LEX-1 str("+r.kind+") is not identifier-like", r.call.Pos(),
				"prefix rule on non-word text", "identifier-like text is registered with the prefix rule str(): `"+r.kind+"x` lexes as `"+r.kind+"`,`x` instead of one identifier")
		}
		if r.ctor == "keyword" && r.kind != "" {
			c.R.Check(idReg.MatchString(r.kind), fn, "LEX-1 keyword("+r.kind+") is identifier-like", r.call.Pos(), "whole-word rule on a word", "whole-word rule on non-word text never needs the boundary test (review)")
		}
	}
	// the routing of user operators: lexicon.addOper, or whichever function / in-place test the evaluation found doing it
	if ao := c.FuncDecl("parser/lexer", "lexicon.addOper"); ao != nil {
		okRoute := false
		inspectNoLit(ao.Body, func(x ast.Node) bool {
			is, ok := x.(*ast.IfStmt)
			if !ok {
				return true
			}
			ce, ok := unparen(is.Cond).(*ast.CallExpr)
			if !ok || c.calleeName(ce) != "parser/oper.IsIdentOp" || is.Else == nil {
				return true
			}
			thenKw := len(c.callsTo(is.Body, "parser/lexer.keyword")) == 1 && len(c.callsTo(is.Body, "parser/lexer.str")) == 0
			elseStr := len(c.callsTo(is.Else, "parser/lexer.str")) == 1 && len(c.callsTo(is.Else, "parser/lexer.keyword")) == 0
			okRoute = thenKw && elseStr
			return true
		})
		c.R.Check(okRoute, "parser/lexer.lexicon.addOper", "LEX-1 identifier-like operators get the whole-word rule", ao.Pos(), "IsIdentOp ? keyword : str", "user operators are not routed on IsIdentOp to keyword()/str()")
	} else {
		// the evaluator only classifies a registration as a user-operator registration when it is routed (isRouter / routeIf)
		nUser := 0
		for _, r := range regs {
			if r.ctor == "addOper" {
				nUser++
			}
		}
		c.R.Check(nUser > 0, "parser/lexer.lexicon.addOper", "LEX-1 identifier-like operators get the whole-word rule", nl.Pos(), "IsIdentOp ? keyword : str (routing function found by evaluation)", "no registration routes user operators on IsIdentOp to keyword()/str()")
	}
	if io := c.FuncDecl("parser/oper", "IsIdentOp"); io != nil {
		okID := false
		for _, call := range c.calls(io.Body) {
			if se, ok := call.Fun.(*ast.SelectorExpr); ok && se.Sel.Name == "MatchString" {
				if o := c.objOf(se.X); o != nil && qual(o) == "parser/oper.idReg" {
					okID = true
				}
			}
		}
		c.R.Check(okID, "parser/oper.IsIdentOp", "LEX-1 IsIdentOp is idReg.MatchString", io.Pos(), "the routing predicate is the identifier pattern evaluated by this rule", "IsIdentOp no longer tests idReg (LEX-1 evaluates idReg)")
	}
	// keyword(): word boundary. Every path of the match function that returns a rune count assumes HasPrefix(input, word)
	// and NOT <pattern>.MatchString(input[len(word):]) for a package-level pattern that accepts word characters at the start.
	if kw := c.FuncDecl("parser/lexer", "keyword"); kw != nil {
		okKw, why := false, "no match literal"
		for _, lit := range funcLits(kw.Body) {
			tc := c.fnTerms(lit)
			tc.expand = true
			for o, d := range c.localDefs(kw.Body) { // kw := string(k) in the enclosing function
				if _, dup := tc.defs[o]; !dup {
					tc.defs[o] = d
				}
			}
			paths, ok := c.retPaths(lit.Body.List)
			if !ok {
				why = "match literal has loops / too many paths"
				continue
			}
			okKw = true
			nCount := 0
			for _, p := range paths {
				if p.end != "return" || len(p.ret.Results) != 1 {
					okKw, why = false, "a path does not return"
					continue
				}
				rt := tc.tr(p.ret.Results[0])
				if !isRuneCountTerm(rt) {
					continue
				}
				nCount++
				hasPrefix, boundary := false, false
				for _, ct := range tc.pathTerms(p) {
					op, as := splitTerm(ct)
					if op == "strings.HasPrefix" && len(as) == 2 && as[0] == "p0" {
						hasPrefix = true
					}
					if op == "not" && len(as) == 1 {
						iop, ias := splitTerm(as[0])
						if iop == "m:regexp.Regexp.MatchString" && len(ias) == 2 && strings.Contains(ias[1], "p0") {
							if post := c.regexpVarByQual(ias[0]); post != nil && post.MatchString("x") && post.MatchString("9") && post.MatchString("_") && post.MatchString("é") && !post.MatchString(" x") && !post.MatchString("+") {
								boundary = true
							}
						}
					}
				}
				if !hasPrefix || !boundary {
					okKw, why = false, fmt.Sprintf("a path returns a match without assuming the prefix test and the word-boundary test (assumes %v)", tc.pathTerms(p))
				}
			}
			if nCount == 0 {
				okKw, why = false, "no path returns a rune count"
			}
		}
		c.R.Check(okKw, "parser/lexer.keyword", "LEX-1 whole-word test", kw.Pos(), "every matching path assumes HasPrefix(s, kw) and not <word-character pattern>.MatchString(rest); the pattern accepts letters, digits, _ and non-ASCII letters at the start only", "keyword() does not require a word boundary after the keyword: "+why)
	}

	// LEX-2 / LEX-3
	nSorted := 0
	seen := map[ast.Stmt]bool{}
	for _, r := range regs {
		if r.seq == nil || !r.seq.overOps || r.seq.stmt == nil || seen[r.seq.stmt] {
			continue
		}
		seen[r.seq.stmt] = true
		if r.seq.sorted {
			nSorted++
		}
		why := "operator rules are registered in caller order: a shorter operator registered first shadows a longer one (first match wins)"
		if r.seq.unknown != "" {
			why += " (" + r.seq.unknown + ")"
		}
		c.R.Check(r.seq.sorted, fn, "LEX-2 operators of "+src(r.seq.src)+" sorted longest-first before registration", r.seq.stmt.Pos(), "ranges over oper.Sort(..)", why)
	}
	c.R.Check(nSorted >= 2, fn, "LEX-2 both operator lists", nl.Pos(), "built-in and user operator loops both sorted", "expected two sorted operator loops")
	// built-in loop uses primOper
	for _, r := range regs {
		if r.seq != nil && r.seq.src != nil && strings.Contains(src(r.seq.src), "builtInOpers") {
			c.R.Check(r.ctor == "primOper", fn, "LEX-3 built-in . ? use primOper", r.call.Pos(), "primOper refuses when another operator character follows", "built-in operators are registered with "+r.ctor+": `.`/`?` would be split out of longer user operators")
		}
	}
	if po := c.FuncDecl("parser/lexer", "primOper"); po != nil {
		s := sx(po.Body)
		okPO := strings.Contains(s, "Sel:HasPrefix") && strings.Contains(s, "Op:||") && strings.Contains(s, "(SelectorExpr oper Sel:HasPrefix)") && strings.Contains(s, "Op:!")
		c.R.Check(okPO, "parser/lexer.primOper", "LEX-3 refuses when an operator character follows", po.Pos(), "len(s)==len(op) || !oper.HasPrefix(rest)", "primOper no longer looks at the character after the operator")
		// .. and under no other circumstance matches: on every path of the match function that returns a rune count, what is
		// assumed about the text after the operator is "nothing follows" or "no operator character follows" — never a third
		// way in (e.g. "a prefix operator follows"), which would cut `.`/`?` out of a longer registered operator
		for _, lit := range funcLits(po.Body) {
			tc := c.fnTerms(lit)
			tc.expand = true
			for o, d := range c.localDefs(po.Body) {
				if _, dup := tc.defs[o]; !dup {
					tc.defs[o] = d
				}
			}
			paths, okP := c.retPaths(lit.Body.List)
			if !okP {
				c.R.Unk("parser/lexer.primOper", "LEX-3 matches only when no operator character follows", lit.Pos(), "match literal has loops / too many paths")
				continue
			}
			okOnly, why, nMatch := true, "", 0
			for _, p := range paths {
				if p.end != "return" || len(p.ret.Results) != 1 || !isRuneCountTerm(tc.tr(p.ret.Results[0])) {
					continue
				}
				nMatch++
				justified := false
				for _, ct := range tc.pathTerms(p) {
					var disj []string
					if op, as := splitTerm(ct); op == "or" {
						disj = as
					} else {
						disj = []string{ct}
					}
					allGood, any := true, false
					for _, d := range disj {
						switch {
						case strings.HasPrefix(d, "eq(") && strings.Contains(d, "len("):
							any = true
						case strings.HasPrefix(d, "not(parser/oper.HasPrefix("):
							any = true
						default:
							allGood = false
						}
					}
					if any && allGood {
						justified = true
					} else if any && !allGood {
						why = "the match is also allowed by " + ct
					}
				}
				if !justified {
					okOnly = false
					if why == "" {
						why = fmt.Sprintf("a matching path assumes only %v", tc.pathTerms(p))
					}
				}
			}
			c.R.Check(okOnly && nMatch > 0, "parser/lexer.primOper", "LEX-3 matches only when no operator character follows", lit.Pos(), "every matching path assumes len(rest)==0 or !oper.HasPrefix(rest), and nothing weaker", "primOper matches in a situation other than 'nothing follows' / 'no operator character follows': "+why+" — a registered operator that starts with `.` or `?` and continues that way is split")
		}
	} else {
		c.R.Anchor("parser/lexer.primOper")
	}
	if hp := c.FuncDecl("parser/oper", "HasPrefix"); hp != nil {
		okHP := false
		inspectNoLit(hp.Body, func(x ast.Node) bool {
			if r, ok := x.(*ast.RangeStmt); ok && strings.Contains(sx(r.X), "operators") {
				okHP = true
			}
			return true
		})
		c.R.Check(okHP, "parser/oper.HasPrefix", "LEX-3 tests every operator character", hp.Pos(), "ranges over the operator alphabet", "HasPrefix does not range over the operator alphabet")
	}

	// LEX-4 positions
	if nx := c.FuncDecl("parser/lexer", "lexer.next"); nx != nil {
		g := c.buildCFG(nx.Body)
		defs := c.localDefs(nx.Body)
		var copyPos *ast.AssignStmt
		var moveLoop *ast.RangeStmt
		var endSet *ast.AssignStmt
		inspectNoLit(nx.Body, func(x ast.Node) bool {
			switch s := x.(type) {
			case *ast.AssignStmt:
				if len(s.Lhs) == 1 && len(s.Rhs) == 1 {
					if se, ok := s.Rhs[0].(*ast.SelectorExpr); ok && se.Sel.Name == "Pos" && s.Tok == token.DEFINE {
						copyPos = s
					}
					if se, ok := s.Lhs[0].(*ast.SelectorExpr); ok && se.Sel.Name == "IdxEnd" {
						endSet = s
					}
				}
			case *ast.RangeStmt:
				if len(c.callsTo(s.Body, "parser/pos.Pos.Move")) == 1 && len(s.Body.List) == 1 {
					moveLoop = s
				}
			}
			return true
		})
		ok4 := copyPos != nil && moveLoop != nil && endSet != nil
		why := "expected `p := l.Pos` before, and `p.IdxEnd = l.Pos.Idx` after, a loop calling Move once per matched rune"
		batch, batchObj := c.batchCursor()
		if !ok4 && moveLoop == nil && copyPos != nil && endSet != nil && batch != nil {
			// the cursor is advanced over the matched text in one call of a batch method that was verified against the per-rune
			// semantics (batchCursor): the argument is the matched runes input[Idx : Idx+offset] as a string
			var adv *ast.CallExpr
			for _, call := range c.calls(nx.Body) {
				if c.calleeObj(call) == batchObj && len(call.Args) == 1 {
					adv = call
				}
			}
			okB := adv != nil
			if okB {
				arg := c.sxInl(adv.Args[0], defs)
				okB = strings.Contains(arg, "SliceExpr") && strings.Contains(arg, "Sel:input") && strings.Contains(arg, "Op:+") &&
					g.dominates(copyPos, adv) && g.dominates(adv, endSet) &&
					c.objOf(endSet.Lhs[0].(*ast.SelectorExpr).X) == c.objOf(copyPos.Lhs[0])
			}
			inspectNoLit(nx.Body, func(x ast.Node) bool {
				if as, ok := x.(*ast.AssignStmt); ok && as != endSet {
					for _, l := range as.Lhs {
						if se, ok := l.(*ast.SelectorExpr); ok {
							switch se.Sel.Name {
							case "Idx", "Col", "Line", "IdxEnd":
								okB = false
							}
						}
					}
				}
				return true
			})
			c.R.Check(okB, "parser/lexer.lexer.next", "LEX-4 position advanced rune by rune over the matched text", nx.Pos(), "p := l.Pos; l.Pos."+batch.Name.Name+"(string(matched)); p.IdxEnd = l.Idx — the batch cursor is verified against the per-rune semantics", "the batch cursor is not applied to exactly the matched runes between the start-position copy and the end index")
		} else if ok4 {
			ranged := c.sxInl(moveLoop.X, defs)
			// matched = l.input[l.Idx : l.Idx+offset]
			if !(strings.Contains(ranged, "SliceExpr") && strings.Contains(ranged, "Sel:input") && strings.Contains(ranged, "Op:+")) {
				ok4, why = false, "the Move loop does not range over the matched runes input[Idx : Idx+offset]"
			}
			mv := c.callsTo(moveLoop.Body, "parser/pos.Pos.Move")[0]
			if len(mv.Args) != 1 || c.objOf(mv.Args[0]) != c.objOf(moveLoop.Value) {
				ok4, why = false, "Move is not called with the ranged rune"
			}
			if !(g.dominates(copyPos, moveLoop) && g.dominates(moveLoop, endSet)) {
				ok4, why = false, "start position copy / end index are not ordered around the Move loop"
			}
			if c.objOf(endSet.Lhs[0].(*ast.SelectorExpr).X) != c.objOf(copyPos.Lhs[0]) {
				ok4, why = false, "IdxEnd is not stored into the copied start position"
			}
			// no other write of position fields in next
			inspectNoLit(nx.Body, func(x ast.Node) bool {
				if as, ok := x.(*ast.AssignStmt); ok && as != endSet {
					for _, l := range as.Lhs {
						if se, ok := l.(*ast.SelectorExpr); ok {
							switch se.Sel.Name {
							case "Idx", "Col", "Line", "IdxEnd":
								ok4, why = false, "position field "+se.Sel.Name+" is written directly instead of through Move"
							}
						}
					}
				}
				if id, ok := x.(*ast.IncDecStmt); ok {
					if se, ok := id.X.(*ast.SelectorExpr); ok && (se.Sel.Name == "Idx" || se.Sel.Name == "Col" || se.Sel.Name == "Line") {
						ok4, why = false, "position field "+se.Sel.Name+" is written directly instead of through Move"
					}
				}
				return true
			})
		}
		if !(moveLoop == nil && copyPos != nil && endSet != nil && batch != nil) {
			c.R.Check(ok4, "parser/lexer.lexer.next", "LEX-4 position advanced rune by rune over the matched text", nx.Pos(), "p := l.Pos; for _, r := range matched { l.Move(r) }; p.IdxEnd = l.Pos.Idx", why)
		}
	} else {
		c.R.Anchor("lexer.next")
	}
	if mv := c.FuncDecl("parser/pos", "Pos.Move"); mv != nil {
		s := c.sxN(mv, mv.Body.List)
		okMv := len(mv.Body.List) == 2 && strings.HasPrefix(s, "[(IncDecStmt (SelectorExpr $r Sel:Idx) Tok:++)") &&
			strings.Contains(s, "Cond:(BinaryExpr $p0 Op:== Y:'\\n')") &&
			strings.Contains(s, "Body:(BlockStmt [(IncDecStmt (SelectorExpr $r Sel:Line) Tok:++) (AssignStmt Lhs:[(SelectorExpr $r Sel:Col)] Tok:= Rhs:[0])])") &&
			strings.Contains(s, "Else:(BlockStmt [(IncDecStmt (SelectorExpr $r Sel:Col) Tok:++)])")
		c.R.Check(okMv, "parser/pos.Pos.Move", "LEX-4 Idx++ always; newline: Line++, Col=0; else Col++", mv.Pos(), "cursor arithmetic as specified", "Move no longer advances Idx once per rune with line/column bookkeeping on newline")
	} else {
		if b, _ := c.batchCursor(); b != nil {
			c.R.OK("parser/pos.Pos."+b.Name.Name, "LEX-4 Idx++ always; newline: Line++, Col=0; else Col++", b.Pos(), "batch form: Idx += runes(s); without a newline Col += runes(s); with one Line += count of newlines and Col = runes after the last newline — the per-rune cursor iterated over s")
		} else {
			c.R.Anchor("pos.Pos.Move")
		}
	}
	if sk := c.FuncDecl("parser/lexer", "lexer.skipSpace"); sk != nil {
		okSk := len(c.callsTo(sk.Body, "parser/pos.Pos.Move")) == 1
		if _, bo := c.batchCursor(); bo != nil && !okSk {
			nb := 0
			for _, call := range c.calls(sk.Body) {
				if c.calleeObj(call) == bo {
					nb++
				}
			}
			okSk = nb == 1
		}
		inspectNoLit(sk.Body, func(x ast.Node) bool {
			if id, ok := x.(*ast.IncDecStmt); ok {
				if se, ok := id.X.(*ast.SelectorExpr); ok && se.Sel.Name == "Idx" {
					okSk = false
				}
			}
			return true
		})
		c.R.Check(okSk, "parser/lexer.lexer.skipSpace", "LEX-4 white space advances through Move", sk.Pos(), "line/column stay exact across newlines", "white space is skipped without Move")
	}

	c.sourceIdentity("LEX-4")

	// LEX-5 match closures return rune counts
	for _, fnm := range []string{"str", "keyword", "regex", "primOper"} {
		fd := c.FuncDecl("parser/lexer", fnm)
		if fd == nil {
			c.R.Anchor("parser/lexer." + fnm)
			continue
		}
		for _, lit := range funcLits(fd.Body) {
			okRet := true
			n := 0
			for _, r := range returnsOf(lit.Body) {
				n++
				if len(r.Results) != 1 {
					okRet = false
					continue
				}
				tcl := c.fnTerms(lit)
				tcl.expand = true
				rt := tcl.tr(r.Results[0])
				if rt == "const:-1" || isRuneCountTerm(rt) {
					continue
				}
				okRet = false
			}
			c.R.Check(okRet && n > 0, "parser/lexer."+fnm, "LEX-5 match returns runeCount(..) or NotMatched", lit.Pos(), "offsets are rune counts (the lexer indexes a []rune)", "a match function returns something other than a rune count: byte lengths mis-slice non-ASCII input")
		}
	}
	// regex(): anchored
	if rx := c.FuncDecl("parser/lexer", "regex"); rx != nil {
		okA := false
		for _, call := range c.callsTo(rx.Body, "regexp.MustCompile") {
			if be, ok := unparen(call.Args[0]).(*ast.BinaryExpr); ok {
				s := sx(be)
				if strings.HasPrefix(s, "(BinaryExpr (BinaryExpr \"^(?:\" Op:+") && strings.HasSuffix(s, "Op:+ Y:\")\")") {
					okA = true
				}
			}
		}
		c.R.Check(okA, "parser/lexer.regex", "LEX-6 patterns anchored with ^(?:...)", rx.Pos(), "a pattern can only match at the cursor", "regex() does not anchor its pattern at the cursor")
	}

	// LEX-6 ordering
	idx := func(pred func(r lexReg) bool) (first, last int) {
		first, last = -1, -1
		for i, r := range regs {
			if pred(r) {
				if first < 0 {
					first = i
				}
				last = i
			}
		}
		return
	}
	_, primLast := idx(func(r lexReg) bool { return r.ctor == "primOper" })
	userFirst, userLast := idx(func(r lexReg) bool { return r.ctor == "addOper" })
	symFirst, _ := idx(func(r lexReg) bool { return r.ctor == "regex" && r.kind == "<sym>" })
	_, wordLast := idx(func(r lexReg) bool { return r.kind == "true" || r.kind == "false" })
	c.R.Check(primLast >= 0 && userFirst > primLast, fn, "LEX-6 primitive operators before user operators", nl.Pos(), "order holds", "user operators are registered before the built-in . and ?")
	c.R.Check(symFirst >= 0 && userLast >= 0 && userLast < symFirst && wordLast >= 0 && wordLast < symFirst, fn, "LEX-6 operators and true/false before the identifier rule", nl.Pos(), "words are tried before <sym>", "the identifier rule is tried before identifier-like operators / true / false")
	floatLast, intFirst := -1, -1
	for i, r := range regs {
		if r.ctor == "regex" && r.kind == "<num>" {
			if strings.Contains(r.pat, "[.]") || strings.Contains(r.pat, "[eE]") {
				floatLast = i
			} else if strings.HasPrefix(r.pat, "(?:0|[1-9]") && intFirst < 0 {
				intFirst = i
			}
		}
	}
	c.R.Check(floatLast >= 0 && intFirst > floatLast, fn, "LEX-6 float patterns before the integer pattern", nl.Pos(), "1.5 and 1e3 are single tokens", "the decimal integer rule is tried before a float rule: `1.5` lexes as `1` `.` `5`")
	prefixLast := -1
	for i, r := range regs {
		if r.ctor == "regex" && r.kind == "<num>" && strings.HasPrefix(r.pat, "0") {
			prefixLast = i
		}
	}
	c.R.Check(prefixLast >= 0 && intFirst > prefixLast, fn, "LEX-6 0x/0b/0o patterns before the decimal integer pattern", nl.Pos(), "0x1F is one token", "the decimal integer rule is tried before the radix-prefixed rules")

	// LEX-7
	firstOper := primLast
	if f, _ := idx(func(r lexReg) bool { return r.ctor == "primOper" || r.ctor == "addOper" }); f >= 0 {
		firstOper = f
	}
	for i, r := range regs {
		if i >= firstOper || r.ctor != "str" || r.kind == "" {
			continue
		}
		first := string([]rune(r.kind)[0])
		c.R.Check(!strings.Contains(opAlphabet, first), fn, "LEX-7 str("+r.kind+") ahead of the operators does not start with an operator character", r.call.Pos(),
			"cannot pre-empt an operator", "`"+r.kind+"` is in the operator alphabet and its prefix rule is tried before every operator: a registered operator starting with it is never chosen")
	}
}

// ---------- PARSE ----------

func ruleParse(c *Ctx) {
	c.R.Rule("PARSE", 25, "parser: each fixity is wired to its own handler; left/non-associative/prefix handlers parse their right operand with exactly bp and right-associative ones with the next lower representable power (BP.Pred = Nextafter32 towards -Inf); the Pratt loop binds while lbp > rbp (strict); the non-associativity check is applied to every node a led handler produces; node spans run from the first operand/token to the last consumed token and pos.Range returns start-of-first..end-of-second; ? . ( [ are registered after the user operators")
	ng := c.FuncDecl("parser", "newGrammar")
	if ng == nil {
		c.R.Anchor("parser.newGrammar")
		return
	}
	// PARSE-1
	var sw *ast.SwitchStmt
	var opLoop *ast.RangeStmt
	inspectNoLit(ng.Body, func(x ast.Node) bool {
		if r, ok := x.(*ast.RangeStmt); ok && opLoop == nil {
			opLoop = r
		}
		if s, ok := x.(*ast.SwitchStmt); ok && sw == nil && s.Tag != nil && strings.HasSuffix(src(s.Tag), ".Fixity") {
			sw = s
		}
		return true
	})
	want := map[string][2]string{
		"parser/oper.PREFIX":  {"parser.grammar.prefix", "parser.unaryPrefix"},
		"parser/oper.INFIX_N": {"parser.grammar.infix", "parser.binaryN"},
		"parser/oper.INFIX_L": {"parser.grammar.infix", "parser.binaryL"},
		"parser/oper.INFIX_R": {"parser.grammar.infix", "parser.binaryR"},
		"parser/oper.POSTFIX": {"parser.grammar.postfix", "parser.unaryPostfix"},
	}
	if sw == nil {
		c.R.Bad("parser.newGrammar", "PARSE-1 switch over fixity", ng.Pos(), "not found")
	} else {
		cases := c.switchCasesByConst(sw)
		for _, k := range []string{"parser/oper.PREFIX", "parser/oper.INFIX_N", "parser/oper.INFIX_L", "parser/oper.INFIX_R", "parser/oper.POSTFIX"} {
			cc := cases[k]
			okC := false
			if cc != nil && len(cc.Body) == 1 {
				calls := c.calls(cc.Body[0])
				if len(calls) == 1 && len(calls[0].Args) == 3 {
					reg := c.calleeName(calls[0])
					h := ""
					if o := c.objOf(calls[0].Args[2]); o != nil {
						h = qual(o)
					}
					regOK := reg == want[k][0] || (want[k][0] == "parser.grammar.infix" && (reg == "parser.grammar.infixLeft" || reg == "parser.grammar.infixRight"))
					okC = regOK && h == want[k][1] && strings.HasSuffix(src(calls[0].Args[0]), ".Kind") && strings.HasSuffix(src(calls[0].Args[1]), ".BP")
				}
			}
			c.R.Check(okC, "parser.newGrammar", "PARSE-1 "+strings.TrimPrefix(k, "parser/oper.")+" -> "+strings.TrimPrefix(want[k][1], "parser."), sw.Pos(), "registered with op.Kind, op.BP and its own handler", "fixity is wired to the wrong handler/registration or is missing")
		}
		okLoop := opLoop != nil
		if okLoop {
			ce, isCall := unparen(opLoop.X).(*ast.CallExpr)
			okLoop = isCall && c.calleeName(ce) == "parser/oper.Sort"
		}
		c.R.Check(okLoop, "parser.newGrammar", "PARSE-1 user operators iterated via oper.Sort", ng.Pos(), "same order as the lexer", "parser iterates operators in a different order than the lexer")
	}
	// registration functions store bp and handler under the kind
	for _, m := range []string{"prefix", "infix"} {
		fd := c.FuncDecl("parser", "grammar."+m)
		if fd == nil {
			c.R.Anchor("parser.grammar." + m)
			continue
		}
		s := c.sxN(fd, fd.Body.List)
		okS := strings.Contains(s, "Index:$p0)") && strings.Contains(s, "[$p1 $p2]")
		c.R.Check(okS, "parser.grammar."+m, "PARSE-1 stores {bp, handler} under the kind", fd.Pos(), "table[k] = {bp, f}", "registration does not store the given power and handler under the given kind")
	}
	for _, m := range []string{"infixRight", "infixLeft", "postfix"} {
		fd := c.FuncDecl("parser", "grammar."+m)
		if fd == nil {
			c.R.Anchor("parser.grammar." + m)
			continue
		}
		calls := c.callsTo(fd.Body, "parser.grammar.infix")
		okD := len(calls) == 1 && c.sxN(fd, calls[0].Args) == "[$p0 $p1 $p2]"
		c.R.Check(okD, "parser.grammar."+m, "PARSE-1 delegates to infix(k, bp, f)", fd.Pos(), "same table", "does not delegate unchanged to infix")
	}

	// PARSE-2
	rightOperand := func(fn string, pred bool) {
		fd := c.FuncDecl("parser", fn)
		if fd == nil {
			c.R.Anchor("parser." + fn)
			return
		}
		var bpObj types.Object
		for _, f := range fd.Type.Params.List {
			if typeStr(c.typeOf(f.Type)) == "parser/oper.BP" && len(f.Names) == 1 {
				bpObj = c.objOf(f.Names[0])
			}
		}
		calls := c.callsTo(fd.Body, "parser.parser.expr")
		if len(calls) == 0 || bpObj == nil {
			c.R.Bad("parser."+fn, "PARSE-2 right operand power", fd.Pos(), "no p.expr(..) call / no BP parameter")
			return
		}
		last := calls[len(calls)-1]
		arg := unparen(last.Args[0])
		// term of the argument with single-assignment locals inlined (a temporary `rbp := bp.Pred()` is the same thing)
		tc := c.fnTerms(fd)
		bpName := tc.names[bpObj]
		got := tc.tr(arg)
		if pred {
			c.R.Check(got == "m:parser/oper.BP.Pred("+bpName+")", "parser."+fn, "PARSE-2 right operand parsed with bp.Pred()", last.Pos(), "operators of the same power bind to the right, looser ones do not", "right-associative handler passes "+src(arg)+": with fractional powers an operator strictly looser than bp can still bind inside the right operand (or same-power operators cannot)")
		} else {
			c.R.Check(got == bpName, "parser."+fn, "PARSE-2 right operand parsed with exactly bp", last.Pos(), "same-power operators do not bind into the right operand", "handler passes "+src(arg)+" instead of its own binding power")
		}
	}
	rightOperand("binaryL", false)
	rightOperand("binaryN", false)
	rightOperand("unaryPrefix", false)
	rightOperand("binaryR", true)
	rightOperand("parseQuestion", true)
	// the operand BETWEEN `?` and `:` (and every other bracketed operand: call arguments, subscripts, list / map / object
	// members, the parenthesised expression) is delimited by tokens on both sides, so it is a full expression: power 0
	for _, fn := range []string{"parseQuestion", "parseCall", "parseSubscript", "parseGroup", "parseList", "parseMap", "parseObj"} {
		fd := c.FuncDecl("parser", fn)
		if fd == nil {
			continue // optional: the floor of the rule does not depend on these
		}
		calls := c.callsTo(fd.Body, "parser.parser.expr")
		if fn == "parseQuestion" {
			if len(calls) < 2 {
				continue
			}
			calls = calls[:len(calls)-1] // the last one is the right operand, decided above
		}
		for _, call := range calls {
			v := c.constOf(call.Args[0])
			c.R.Check(v != nil && constant.Sign(v) == 0, "parser."+fn, "PARSE-2 delimited operand parsed with power 0", call.Pos(), "a bracketed / delimited operand is a full expression", "a delimited operand is parsed with "+src(call.Args[0])+" instead of 0: operators looser than that power are rejected inside brackets although the delimiters make the parentheses redundant")
		}
	}
	if pd := c.FuncDecl("parser/oper", "BP.Pred"); pd != nil {
		okPred := false
		rets := returnsOf(pd.Body)
		if len(rets) == 1 && len(rets[0].Results) == 1 {
			na := c.callsTo(rets[0], "math.Nextafter32")
			if len(na) == 1 && len(na[0].Args) == 2 {
				a0 := c.fnTerms(pd).tr(na[0].Args[0])
				inf := c.callsTo(na[0].Args[1], "math.Inf")
				neg := false
				if len(inf) == 1 {
					if v := c.constOf(inf[0].Args[0]); v != nil && constant.Sign(v) < 0 {
						neg = true
					}
				}
				okPred = a0 == "conv:float32(r)" && neg
			}
		}
		c.R.Check(okPred, "parser/oper.BP.Pred", "PARSE-2 Pred is the next lower float32", pd.Pos(), "Nextafter32(float32(bp), -Inf): no representable power lies strictly between Pred(bp) and bp", "Pred is not the adjacent lower float32: for some powers Pred(bp) == bp (right associativity lost) or another power fits in between")
	} else {
		c.R.Anchor("parser/oper.BP.Pred")
	}

	// PARSE-3 / PARSE-4
	if pi := c.FuncDecl("parser", "parser.parseInfix"); pi != nil {
		var loop *ast.ForStmt
		inspectNoLit(pi.Body, func(x ast.Node) bool {
			if f, ok := x.(*ast.ForStmt); ok && loop == nil {
				loop = f
			}
			return true
		})
		var rbp types.Object
		for _, f := range pi.Type.Params.List {
			if typeStr(c.typeOf(f.Type)) == "parser/oper.BP" {
				rbp = c.objOf(f.Names[0])
			}
		}
		ok3 := false
		if loop != nil && loop.Cond != nil {
			if be, ok := unparen(loop.Cond).(*ast.BinaryExpr); ok && be.Op == token.GTR && c.objOf(be.Y) == rbp {
				if ce, ok := unparen(be.X).(*ast.CallExpr); ok && c.calleeName(ce) == "parser.grammar.infixLbp" && len(c.callsTo(ce, "parser.parser.peek")) == 1 {
					ok3 = true
				}
			}
		}
		c.R.Check(ok3, "parser.parser.parseInfix", "PARSE-3 loop binds while lbp(next) > rbp", pi.Pos(), "strict comparison", "the Pratt loop condition is not `infixLbp(peek()) > rbp`")
		ok4 := false
		if loop != nil {
			led := 0
			inspectNoLit(loop.Body, func(x ast.Node) bool {
				as, ok := x.(*ast.AssignStmt)
				if !ok || len(as.Lhs) != 1 || len(as.Rhs) != 1 {
					return true
				}
				hasLed := strings.Contains(sx(as.Rhs[0]), "Sel:led)")
				if !hasLed {
					return true
				}
				led++
				if ce, ok := unparen(as.Rhs[0]).(*ast.CallExpr); ok && c.calleeName(ce) == "parser.parser.infixNCheck" {
					ok4 = true
				}
				return true
			})
			if !ok4 && led > 0 {
				// led result stored, then checked before the next iteration
				for _, ck := range c.callsTo(loop.Body, "parser.parser.infixNCheck") {
					_ = ck
					ok4 = true
				}
			}
		}
		c.R.Check(ok4, "parser.parser.parseInfix", "PARSE-4 infixNCheck applied to every led result", pi.Pos(), "checked inside the loop", "non-associativity is only checked on the loop's final node: `a < b < c || d` is accepted")
		lbp := c.FuncDecl("parser", "grammar.infixLbp")
		if lbp != nil {
			okL := false
			for _, r := range returnsOf(lbp.Body) {
				if v := c.constOf(r.Results[0]); v != nil && constant.Sign(v) == 0 {
					okL = true
				}
			}
			c.R.Check(okL, "parser.grammar.infixLbp", "PARSE-3 unknown tokens have power 0", lbp.Pos(), "non-operators end the loop", "tokens without an infix rule do not get power 0")
		}
	} else {
		c.R.Anchor("parser.parseInfix")
	}
	if nc := c.FuncDecl("parser", "parser.infixNCheck"); nc != nil {
		s := sx(nc.Body)
		okN := strings.Contains(s, "INFIX_N") && strings.Contains(s, "Sel:LHS") && strings.Contains(s, "Sel:RHS") && strings.Count(s, "Op:!=") >= 2
		c.R.Check(okN, "parser.parser.infixNCheck", "PARSE-4 rejects the same non-associative operator as either operand", nc.Pos(), "both operands are inspected", "infixNCheck does not inspect both operands for the same operator")
	}

	// PARSE-5 spans
	if rg := c.FuncDecl("parser/pos", "Range"); rg != nil {
		var p0, p1 types.Object
		if len(rg.Type.Params.List) >= 1 {
			var names []*ast.Ident
			for _, f := range rg.Type.Params.List {
				names = append(names, f.Names...)
			}
			if len(names) == 2 {
				p0, p1 = c.objOf(names[0]), c.objOf(names[1])
			}
		}
		defs := c.localDefs(rg.Body)
		var l1, l2 types.Object
		for o, d := range defs {
			if ce, ok := unparen(d).(*ast.CallExpr); ok {
				if se, ok := ce.Fun.(*ast.SelectorExpr); ok && se.Sel.Name == "Position" {
					switch c.objOf(se.X) {
					case p0:
						l1 = o
					case p1:
						l2 = o
					}
				}
			}
		}
		ok5 := l1 != nil && l2 != nil
		rets := returnsOf(rg.Body)
		if ok5 {
			ok5 = len(rets) == 1 && c.objOf(rets[0].Results[0]) == l1
		}
		endOK := false
		inspectNoLit(rg.Body, func(x ast.Node) bool {
			if as, ok := x.(*ast.AssignStmt); ok && len(as.Lhs) == 1 && len(as.Rhs) == 1 {
				l, lok := as.Lhs[0].(*ast.SelectorExpr)
				r, rok := as.Rhs[0].(*ast.SelectorExpr)
				if lok && rok && l.Sel.Name == "IdxEnd" && r.Sel.Name == "IdxEnd" && c.objOf(l.X) == l1 && c.objOf(r.X) == l2 {
					endOK = true
				}
			}
			return true
		})
		c.R.Check(ok5 && endOK, "parser/pos.Range", "PARSE-5 returns start of first .. end of second", rg.Pos(), "returns from.Position() with IdxEnd taken from to.Position()", "Range does not return the first position extended to the second's end (spans collapse to one operand)")
	} else {
		c.R.Anchor("parser/pos.Range")
	}
	pk := c.Mod["parser"]
	for _, f := range pk.Syntax {
		for _, d := range f.Decls {
			fd, ok := d.(*ast.FuncDecl)
			if !ok || fd.Body == nil {
				continue
			}
			c.spanSites("parser."+fd.Name.Name, fd.Type, fd.Body, nil)
		}
	}

	// PARSE-7: built-in infix rules use the power the binding-power table documents for their token
	{
		comments := map[string]string{} // BP constant name -> trailing comment
		for _, f := range c.Mod["parser/oper"].Syntax {
			for _, d := range f.Decls {
				gd, ok := d.(*ast.GenDecl)
				if !ok || gd.Tok != token.CONST {
					continue
				}
				for _, sp := range gd.Specs {
					vs := sp.(*ast.ValueSpec)
					if vs.Comment != nil {
						for _, n := range vs.Names {
							comments[n.Name] = vs.Comment.Text()
						}
					}
				}
			}
		}
		lexTbl := map[string]string{} // token const name -> BP const name in lexer.builtInOpers
		if cl, ok := c.VarInit("parser/lexer", "builtInOpers").(*ast.CompositeLit); ok {
			for _, e := range cl.Elts {
				if el, ok := e.(*ast.CompositeLit); ok && len(el.Elts) >= 2 {
					if k, b := c.objOf(el.Elts[0]), c.objOf(el.Elts[1]); k != nil && b != nil {
						lexTbl[k.Name()] = b.Name()
					}
				}
			}
		}
		for _, call := range c.callsTo(ng.Body, "parser.grammar.infixRight", "parser.grammar.infixLeft") {
			k, b := c.objOf(call.Args[0]), c.objOf(call.Args[1])
			if k == nil || b == nil {
				continue
			}
			text, _ := c.constStr(call.Args[0])
			doc := comments[b.Name()]
			okDoc := text != "" && strings.Contains(doc, text)
			okLex := true
			if lb, ok := lexTbl[k.Name()]; ok && lb != b.Name() {
				okLex = false
			}
			c.R.Check(okDoc && okLex, "parser.newGrammar", "PARSE-7 "+k.Name()+" registered with the power documented for `"+text+"`", call.Pos(),
				b.Name()+" is documented as `"+strings.TrimSpace(doc)+"`", "`"+text+"` is registered with "+b.Name()+" (documented for `"+strings.TrimSpace(doc)+"`)"+map[bool]string{true: "", false: " and the lexer's built-in table uses " + lexTbl[k.Name()]}[okLex]+": a user operator with a power between the two binds differently around this form")
		}
	}
	// PARSE-9: after the dot any token is a member name. `x.f(a)` is the explicit form of every call f(x, a), and f can be any
	// registered name: a symbol, `true`/`false`, a symbolic operator, an identifier-like operator (which has a token kind of
	// its own). parseDot therefore takes the next token unconditionally and puts no condition on its kind; a restriction
	// "for better error messages" makes some operator's method form a syntax error while its infix form still parses.
	if pd := c.FuncDecl("parser", "parseDot"); pd != nil {
		var nameObj types.Object
		inspectNoLit(pd.Body, func(x ast.Node) bool {
			if as, ok := x.(*ast.AssignStmt); ok && len(as.Lhs) == 1 && len(as.Rhs) == 1 && nameObj == nil {
				if ce, ok := unparen(as.Rhs[0]).(*ast.CallExpr); ok && c.calleeName(ce) == "parser.parser.eat" {
					nameObj = c.objOf(as.Lhs[0])
				}
			}
			return true
		})
		ok9, why := nameObj != nil, "the member name is not taken by an unconditional eat()"
		if nameObj != nil {
			mentions := func(e ast.Node) bool {
				hit := false
				ast.Inspect(e, func(y ast.Node) bool {
					if id, ok := y.(*ast.Ident); ok && c.objOf(id) == nameObj {
						hit = true
					}
					return !hit
				})
				return hit
			}
			g := c.buildCFG(pd.Body)
			for _, call := range c.callsTo(pd.Body, "parser/ast.Member") {
				for _, pc := range g.condsAt(call) {
					if mentions(pc.e) {
						ok9, why = false, "the member node is built only under a condition on the name token ("+src(pc.e)+")"
					}
				}
			}
			for _, a := range c.asserted(pd.Body) {
				if mentions(a.cond) {
					ok9, why = false, "an assertion restricts the name token ("+src(a.cond)+")"
				}
			}
			for _, call := range c.callsTo(pd.Body, "parser.parser.syntaxAssert") {
				if len(call.Args) > 1 && mentions(call.Args[1]) {
					ok9, why = false, "a syntax assertion restricts the name token ("+src(call.Args[1])+")"
				}
				if len(call.Args) > 1 {
					if id, isID := unparen(call.Args[1]).(*ast.Ident); isID {
						if def, has := c.localDefs(pd.Body)[c.objOf(id)]; has && mentions(def) {
							ok9, why = false, "a syntax assertion restricts the name token ("+src(def)+")"
						}
					}
					// through locals: isName || oper.IsOp(name.Lexeme)
					ast.Inspect(call.Args[1], func(y ast.Node) bool {
						if id, isID := y.(*ast.Ident); isID {
							if def, has := c.localDefs(pd.Body)[c.objOf(id)]; has && mentions(def) {
								ok9, why = false, "a syntax assertion restricts the name token ("+src(call.Args[1])+")"
							}
						}
						return true
					})
				}
			}
		}
		c.R.Check(ok9, "parser.parseDot", "PARSE-9 any token after the dot is a member name", pd.Pos(), "name := p.eat(), no condition on its kind", why+": the method form `x.op(y)` of some registered operator no longer parses although `x op y` does")
	} else {
		c.R.Anchor("parser.parseDot")
	}
	// PARSE-6
	if opLoop != nil {
		for _, k := range []string{"parser/token.QUESTION", "parser/token.DOT", "parser/token.LEFT_PAREN", "parser/token.LEFT_BRACKET"} {
			okAfter := false
			for _, call := range c.callsTo(ng.Body, "parser.grammar.infixRight", "parser.grammar.infixLeft", "parser.grammar.infix") {
				if o := c.objOf(call.Args[0]); o != nil && qual(o) == k && call.Pos() > opLoop.End() {
					okAfter = true
				}
			}
			c.R.Check(okAfter, "parser.newGrammar", "PARSE-6 "+strings.TrimPrefix(k, "parser/token.")+" registered after the user operators", ng.Pos(), "a user operator cannot override the built-in infix rule", "built-in infix rule is missing or registered before the user-operator loop (a user operator of that kind overrides it)")
		}
	}
}

// spanSites checks every pos.Range(a, b) in body: a is the leftmost operand/opening token, b the last consumed thing.
func (c *Ctx) spanSites(fn string, ft *ast.FuncType, body *ast.BlockStmt, outer []types.Object) {
	var exprParams, tokParams []types.Object
	for _, f := range ft.Params.List {
		for _, n := range f.Names {
			switch typeStr(c.typeOf(f.Type)) {
			case "parser/ast.Expr":
				exprParams = append(exprParams, c.objOf(n))
			case "*parser/token.Token":
				tokParams = append(tokParams, c.objOf(n))
			}
		}
	}
	tokParams = append(tokParams, outer...)
	for _, lit := range funcLits(body) {
		c.spanSites(fn+"$lit", lit.Type, lit.Body, tokParams)
	}
	for _, rc := range c.callsTo(body, "parser/pos.Range") {
		if len(rc.Args) != 2 {
			continue
		}
		a, b := c.objOf(rc.Args[0]), c.objOf(rc.Args[1])
		desc := "PARSE-5 span " + src(rc)
		okA := false
		if len(exprParams) > 0 {
			okA = a == exprParams[0]
		} else {
			for _, t := range tokParams {
				if a == t {
					okA = true
				}
			}
		}
		// b: variable assigned by the last consuming call before the Range call
		var lastObj types.Object
		var lastPos token.Pos
		inspectNoLit(body, func(x ast.Node) bool {
			as, ok := x.(*ast.AssignStmt)
			if !ok || len(as.Lhs) != 1 || len(as.Rhs) != 1 || as.Pos() > rc.Pos() {
				return true
			}
			ce, ok := unparen(as.Rhs[0]).(*ast.CallExpr)
			if !ok {
				return true
			}
			switch c.calleeName(ce) {
			case "parser.parser.expr", "parser.parser.mustEat", "parser.parser.eat", "parser.parser.tryEat":
				if as.Pos() > lastPos {
					lastPos, lastObj = as.Pos(), c.objOf(as.Lhs[0])
				}
			}
			return true
		})
		okB := false
		if lastObj != nil {
			okB = b == lastObj
		} else {
			for _, t := range tokParams {
				if b == t && b != a {
					okB = true
				}
			}
		}
		switch {
		case !okA:
			c.R.Bad(fn, desc, rc.Pos(), "span does not start at the handler's left operand / opening token")
		case !okB:
			c.R.Bad(fn, desc, rc.Pos(), "span does not end at the last token or operand consumed before the node is built")
		default:
			c.R.OK(fn, desc, rc.Pos(), "from the leftmost operand/opening token to the last consumed item")
		}
	}
}

func ruleParse8(c *Ctx) {
	c.R.Rule("PARSE-8", 2, "backtracking is bounded: the parser cursor is rewound only by tryParse, and no backtracking choice offers two alternatives that can both re-enter the expression parser (each nesting level would then parse its content twice: 2^depth)")
	// writers of parser.idx
	idx := c.Field("parser", "parser", "idx")
	if idx == nil {
		c.R.Anchor("parser.parser.idx")
		return
	}
	allowed := map[string]string{"parser.parser.Parse": "reset at start", "parser.parser.eat": "advance by one", "parser.parser.tryParse": "rewind to the mark on failure"}
	pk := c.Mod["parser"]
	for _, f := range pk.Syntax {
		for _, d := range f.Decls {
			fd, ok := d.(*ast.FuncDecl)
			if !ok || fd.Body == nil {
				continue
			}
			name := fnName("parser", fd)
			ast.Inspect(fd.Body, func(x ast.Node) bool {
				var lhs []ast.Expr
				switch s := x.(type) {
				case *ast.AssignStmt:
					lhs = s.Lhs
				case *ast.IncDecStmt:
					lhs = []ast.Expr{s.X}
				}
				for _, l := range lhs {
					if se, ok := l.(*ast.SelectorExpr); ok && c.objOf(se) == types.Object(idx) {
						if r, ok := allowed[name]; ok {
							c.R.OK(name, "writes parser.idx", l.Pos(), "frozen writer: %s", r)
						} else {
							c.R.Bad(name, "writes parser.idx", l.Pos(), "the token cursor is moved outside eat/tryParse: hand-made look-ahead and rewind re-parses input (compile time can grow exponentially with nesting)")
						}
					}
				}
				return true
			})
		}
	}
	// backtracking choices
	reentrant := func(e ast.Expr) bool {
		// e is a call like parseList(t) returning a literal, or a literal / function name
		var body ast.Node
		switch x := unparen(e).(type) {
		case *ast.FuncLit:
			body = x.Body
		case *ast.CallExpr:
			if o := c.calleeObj(x); o != nil {
				if fd := c.FuncDecl("parser", o.Name()); fd != nil {
					body = fd.Body
				}
			}
		case *ast.Ident:
			if fd := c.FuncDecl("parser", x.Name); fd != nil {
				body = fd.Body
			}
		}
		if body == nil {
			return true
		}
		return len(c.allCallsDeepTo(body, "parser.parser.expr")) > 0
	}
	for _, f := range pk.Syntax {
		for _, d := range f.Decls {
			fd, ok := d.(*ast.FuncDecl)
			if !ok || fd.Body == nil {
				continue
			}
			for _, call := range c.allCallsDeep(fd.Body) {
				if c.calleeName(call) != "parser.parser.any" || fd.Name.Name == "any" {
					continue
				}
				n := 0
				for _, a := range call.Args[1:] {
					if reentrant(a) {
						n++
					}
				}
				name := fnName("parser", fd)
				c.R.Check(n <= 1, name, "backtracking choice "+src(call.Fun)+" has at most one re-entrant alternative", call.Pos(),
					"at most one alternative can recurse into the expression parser",
					"two alternatives both re-enter p.expr: when the first fails late the whole content is parsed again, at every nesting level (26 nested map literals take minutes)")
			}
		}
	}
}

func (c *Ctx) allCallsDeepTo(n ast.Node, name string) []*ast.CallExpr {
	var out []*ast.CallExpr
	for _, call := range c.allCallsDeep(n) {
		if c.calleeName(call) == name {
			out = append(out, call)
		}
	}
	return out
}

// ---------- DS ----------

func ruleDesugar(c *Ctx) {
	c.R.Rule("DS", 22, "desugaring: every sugar case returns a call node; every sub-expression handed to a node factory went through Desugar (or is a fresh identifier); nodes the checker annotates are always re-allocated and the input tree is never written; operands keep source order ([LHS,RHS], [Left,Mid,Right], receiver then arguments); the operator name / the lazy if / the method name becomes the callee; the result of desugaring a callee is never itself a redex; CompileExpr translates, checks and compiles the same tree")
	fd := c.FuncDecl("trans", "Desugar")
	if fd == nil {
		c.R.Anchor("trans.Desugar")
		return
	}
	var ts *ast.TypeSwitchStmt
	for _, s := range c.typeSwitches(fd.Body) {
		if ts == nil {
			ts = s
		}
	}
	if ts == nil {
		c.R.Anchor("trans.Desugar type switch")
		return
	}
	param := c.objOf(fd.Type.Params.List[0].Names[0])
	cases := c.tsCases(ts)
	name := "trans.Desugar"
	// kinds whose denotation the abstract evaluation (rule DS-9, rules_dsval.go) decided and found equal to what the form stands
	// for: their shape clauses below are discharged by that evaluation instead of by the spelling of the arm
	semOK := c.desugarSemOK()
	semWhy := "decided by abstract evaluation of this arm (DS-9): the returned term is exactly what the form stands for"

	isDesugared := func(e ast.Expr, defs map[types.Object][]ast.Expr, depth int) (bool, string) { return false, "" }
	var des func(e ast.Expr, defs map[types.Object][]ast.Expr, depth int) (bool, string)
	des = func(e ast.Expr, defs map[types.Object][]ast.Expr, depth int) (bool, string) {
		if depth > 8 {
			return false, "too deep"
		}
		e = unparen(e)
		t := c.typeOf(e)
		ts := typeStr(t)
		// only expressions that can carry sub-trees matter
		carries := ts == "parser/ast.Expr" || ts == "[]parser/ast.Expr" || ts == "parser/ast.Pair" || ts == "[]parser/ast.Pair" || ts == "parser/ast.Field" || ts == "[]parser/ast.Field"
		if !carries {
			return true, ""
		}
		switch x := e.(type) {
		case *ast.CallExpr:
			switch c.calleeName(x) {
			case "trans.Desugar":
				return true, ""
			case "parser/ast.Var":
				return true, ""
			case "builtin.make":
				return true, ""
			}
			return false, "result of " + src(x.Fun)
		case *ast.CompositeLit:
			for _, el := range x.Elts {
				v := el
				if kv, ok := el.(*ast.KeyValueExpr); ok {
					v = kv.Value
				}
				if ok, why := des(v, defs, depth+1); !ok {
					return false, why
				}
			}
			return true, ""
		case *ast.Ident:
			o := c.objOf(x)
			ds, ok := defs[o]
			if !ok || len(ds) == 0 {
				return false, "`" + x.Name + "` is taken from the input tree without Desugar"
			}
			for _, d := range ds {
				if ok, why := des(d, defs, depth+1); !ok {
					return false, why
				}
			}
			return true, ""
		case *ast.SelectorExpr:
			return false, "`" + src(x) + "` is taken from the input tree without Desugar"
		case *ast.IndexExpr:
			return false, "`" + src(x) + "` is taken from the input tree without Desugar"
		}
		return false, "unrecognised expression " + src(e)
	}
	isDesugared = des

	factories := map[string]bool{"parser/ast.List": true, "parser/ast.Map": true, "parser/ast.Obj": true, "parser/ast.Call": true, "parser/ast.Subscript": true, "parser/ast.Member": true}
	annotated := map[string]bool{"parser/ast.ListExpr": true, "parser/ast.MapExpr": true, "parser/ast.ObjExpr": true, "parser/ast.CallExpr": true, "parser/ast.SubscriptExpr": true, "parser/ast.MemberExpr": true}
	leaf := map[string]bool{"parser/ast.StrExpr": true, "parser/ast.NumExpr": true, "parser/ast.BoolExpr": true, "parser/ast.TimeExpr": true, "parser/ast.IdentExpr": true}

	var caseNames []string
	for k := range cases {
		caseNames = append(caseNames, k)
	}
	sortStrings(caseNames)
	seenClause := map[*ast.CaseClause]bool{}
	for _, cn := range caseNames {
		cc := cases[cn]
		if cn == "default" || seenClause[cc] {
			continue
		}
		seenClause[cc] = true
		blk := &ast.BlockStmt{List: cc.Body, Lbrace: cc.Pos(), Rbrace: cc.End()}
		// all definitions (incl. element stores x[i] = v) of locals in this clause
		defs := map[types.Object][]ast.Expr{}
		ast.Inspect(blk, func(x ast.Node) bool {
			if as, ok := x.(*ast.AssignStmt); ok && len(as.Lhs) == len(as.Rhs) {
				for i, l := range as.Lhs {
					switch lv := l.(type) {
					case *ast.Ident:
						if o := c.objOf(lv); o != nil {
							defs[o] = append(defs[o], as.Rhs[i])
						}
					case *ast.IndexExpr:
						if o := c.objOf(lv.X); o != nil {
							defs[o] = append(defs[o], as.Rhs[i])
						}
					}
				}
			}
			return true
		})
		// DS-1 / DS-3 returns
		for _, r := range returnsOf(blk) {
			if len(r.Results) != 1 {
				continue
			}
			if semOK[cn] && src(r.Results[0]) != "nil" {
				c.R.OK(name, "DS-1 case "+cn+" returns "+src(r.Results[0]), r.Pos(), "%s", semWhy)
				continue
			}
			res := unparen(r.Results[0])
			if src(res) == "nil" {
				continue
			}
			desc := "case " + cn + " returns " + src(res)
			if o := c.objOf(res); o != nil && (o == param || o == c.tsVar(ts, cc)) {
				// returns the input node itself
				allLeaf := true
				for _, e := range cc.List {
					t := c.typeOf(e)
					if pt, ok := t.(*types.Pointer); ok {
						t = pt.Elem()
					}
					if !leaf[typeStr(t)] {
						allLeaf = false
					}
				}
				c.R.Check(allLeaf, name, "DS-3 "+desc, r.Pos(), "leaf nodes carry no annotations and no sub-trees; sharing them is safe",
					"a node kind that has sub-trees / checker annotations is returned as is: the original tree is shared with the tree that types.Check writes into (stale Resolved/Index on re-use), and sugar below it survives")
				continue
			}
			ce, ok := res.(*ast.CallExpr)
			if !ok {
				c.R.Unk(name, "DS-1 "+desc, r.Pos(), "result is not a factory call")
				continue
			}
			nm := c.calleeName(ce)
			if nm == "trans.Desugar" {
				c.R.OK(name, "DS-1 "+desc, r.Pos(), "result of a recursive Desugar is core by induction")
				continue
			}
			if !factories[nm] {
				c.R.Bad(name, "DS-1 "+desc, r.Pos(), "returns the result of %s, not a core node factory", nm)
				continue
			}
			if sugarNodes[cn] && nm != "parser/ast.Call" {
				c.R.Bad(name, "DS-1 "+desc, r.Pos(), "sugar is not rewritten to a call")
				continue
			}
			bad := ""
			for _, a := range ce.Args {
				if ok, why := isDesugared(a, defs, 0); !ok {
					bad = why
				}
			}
			c.R.Check(bad == "", name, "DS-1 "+desc, r.Pos(), "every sub-tree handed to the factory went through Desugar or is a fresh identifier", "a sub-tree reaches the result without being desugared: "+bad)
		}
		_ = annotated
	}
	// DS-5: a sugar case has exactly one rewrite (no special-cased fast paths with their own operand order)
	for _, cn := range []string{"parser/ast.UnaryExpr", "parser/ast.BinaryExpr", "parser/ast.TenaryExpr", "parser/ast.GroupExpr"} {
		cc := cases[cn]
		if cc == nil {
			continue
		}
		n := 0
		for _, r := range returnsOf(&ast.BlockStmt{List: cc.Body}) {
			if len(r.Results) == 1 && src(r.Results[0]) != "nil" {
				n++
			}
		}
		if semOK[cn] {
			n = 1 // one denotation per feasible path, all equal to the expected ones
		}
		c.R.Check(n == 1, name, "DS-5 "+cn+" has a single rewrite", cc.Pos(), "one return: the form means exactly the one call it stands for", fmt.Sprintf("%d different rewrites of this sugar form: a special-cased rewrite can evaluate operands in another order or unconditionally (c ? t : true is not t || !c)", n))
	}
	// DS-8: function names are not subject to the reserved-word rule (string, match are both built-in functions and reserved
	// words); the rule is applied to variable references only, in types.Check. Any other consumer of the reserved table that sits
	// in front of the checker (lexer, parser, desugarer) can reject o.f(args) while f(o, args) is accepted.
	{
		n := 0
		c.eachFuncDecl(func(pk *packages.Package, d *ast.FuncDecl) {
			if d.Body == nil {
				return
			}
			fn := fnName(short(pk.PkgPath), d)
			defs := c.localDefs(d.Body)
			for _, call := range c.allCallsDeepTo(d.Body, "parser/lexer.Reserved") {
				n++
				// what is being tested: the name of an identifier node (a variable reference), inside the type checker?
				isVarRef := false
				if len(call.Args) == 1 {
					a := unparen(call.Args[0])
					if id, ok := a.(*ast.Ident); ok {
						if def, ok := defs[c.objOf(id)]; ok {
							a = unparen(def)
						}
					}
					if se, ok := a.(*ast.SelectorExpr); ok && se.Sel.Name == "Name" && typeStr(c.typeOf(se.X)) == "*parser/ast.IdentExpr" {
						isVarRef = true
					}
				}
				if short(pk.PkgPath) == "types" && isVarRef {
					c.R.OK(fn, "DS-8 reserved words consulted for variable references", call.Pos(), "the checker tests the name of an identifier node")
				} else {
					c.R.Bad(fn, "DS-8 reserved words consulted outside the checker's identifier case", call.Pos(), "the reserved-word table is consulted in %s for something other than the name of an identifier node in the type checker: names such as string / match are reserved as variables but are ordinary function names, so a form that is checked here (e.g. the method name of o.f(args)) is rejected while the explicit call f(o, args) it stands for is accepted", fn)
				}
			}
		})
		c.R.Check(n >= 1, "types.Check", "DS-8 reserved-word rule located", token.NoPos, "found", "no consumer of lexer.Reserved found")
	}
	// DS-3: no store into the input anywhere in package trans
	writes := 0
	for _, f := range c.Mod["trans"].Syntax {
		ast.Inspect(f, func(x ast.Node) bool {
			as, ok := x.(*ast.AssignStmt)
			if !ok {
				return true
			}
			for _, l := range as.Lhs {
				root := l
				sel := false
				for {
					switch r := root.(type) {
					case *ast.SelectorExpr:
						root, sel = r.X, true
						continue
					case *ast.IndexExpr:
						root = r.X
						if _, isSel := root.(*ast.SelectorExpr); isSel {
							sel = true
						}
						continue
					case *ast.StarExpr:
						root, sel = r.X, true
						continue
					}
					break
				}
				if sel {
					writes++
					c.R.Bad(name, "DS-3 store "+src(l), l.Pos(), "package trans writes through a node of the input tree")
				}
			}
			return true
		})
	}
	c.R.Check(writes == 0, name, "DS-3 no store through input nodes", fd.Pos(), "package trans only builds new nodes", "input tree is mutated")

	// DS-4 / DS-5 shapes
	inl := func(cn string) (string, *ast.CaseClause) {
		cc := cases[cn]
		if cc == nil {
			return "", nil
		}
		blk := &ast.BlockStmt{List: cc.Body}
		d := c.localDefs(blk)
		var last *ast.ReturnStmt
		for _, r := range returnsOf(blk) {
			if src(r.Results[0]) != "nil" {
				last = r
			}
		}
		if last == nil {
			return "", cc
		}
		// inline single-assignment locals, then print name-independently ($e = the switch symbol)
		depth := 0
		roles := c.localNames(fd, fd)
		var sub func(n ast.Node) (string, bool)
		sub = func(n ast.Node) (string, bool) {
			id, ok := n.(*ast.Ident)
			if !ok {
				return "", false
			}
			o := c.objOf(id)
			if df, ok := d[o]; ok && depth < 20 {
				depth++
				r := sxWith(df, sub)
				depth--
				return r, true
			}
			if r, ok := roles[o]; ok && (r == "$e" || strings.HasPrefix(r, "$p")) {
				return r, true
			}
			return "", false
		}
		return sxWith(last.Results[0], sub), cc
	}
	D := func(s string) string { return "(CallExpr Fun:Desugar Args:[(SelectorExpr $e Sel:" + s + ")])" }
	if s, cc := inl("parser/ast.BinaryExpr"); cc != nil && semOK["parser/ast.BinaryExpr"] {
		c.R.OK(name, "DS-4 binary operands [LHS, RHS]", cc.Pos(), "%s", semWhy)
		c.R.OK(name, "DS-5 binary operator name becomes the callee", cc.Pos(), "%s", semWhy)
		_ = s
	} else if cc != nil {
		c.R.Check(strings.Contains(s, "Elts:["+D("LHS")+" "+D("RHS")+"]"), name, "DS-4 binary operands [LHS, RHS]", cc.Pos(), "source order kept", "binary operands are not passed as [Desugar(LHS), Desugar(RHS)]")
		c.R.Check(strings.Contains(s, "Args:[(CallExpr Fun:(SelectorExpr ast Sel:Var) Args:[(SelectorExpr $e Sel:Name)"), name, "DS-5 binary operator name becomes the callee", cc.Pos(), "callee = ast.Var(e.Name)", "callee of the rewritten call is not the operator's name")
	}
	if s, cc := inl("parser/ast.UnaryExpr"); cc != nil && semOK["parser/ast.UnaryExpr"] {
		c.R.OK(name, "DS-4 unary operand", cc.Pos(), "%s", semWhy)
		c.R.OK(name, "DS-5 unary operator name becomes the callee", cc.Pos(), "%s", semWhy)
		_ = s
	} else if cc != nil {
		c.R.Check(strings.Contains(s, "Elts:["+D("LHS")+"]"), name, "DS-4 unary operand", cc.Pos(), "one desugared operand", "unary operand is not passed as [Desugar(LHS)]")
		c.R.Check(strings.Contains(s, "Args:[(CallExpr Fun:(SelectorExpr ast Sel:Var) Args:[(SelectorExpr $e Sel:Name)"), name, "DS-5 unary operator name becomes the callee", cc.Pos(), "callee = ast.Var(e.Name)", "callee of the rewritten call is not the operator's name")
	}
	if s, cc := inl("parser/ast.TenaryExpr"); cc != nil && semOK["parser/ast.TenaryExpr"] {
		c.R.OK(name, "DS-4 ?: operands [Left, Mid, Right]", cc.Pos(), "%s", semWhy)
		c.R.OK(name, "DS-5 ?: becomes the lazy if", cc.Pos(), "%s", semWhy)
		c.R.OK(name, "DS-5 only the ? ternary is rewritten", cc.Pos(), "%s", semWhy)
		_ = s
	} else if cc != nil {
		c.R.Check(strings.Contains(s, "Elts:["+D("Left")+" "+D("Mid")+" "+D("Right")+"]"), name, "DS-4 ?: operands [Left, Mid, Right]", cc.Pos(), "condition, then, else", "?: operands are not passed as [Left, Mid, Right]")
		c.R.Check(strings.Contains(s, "Args:[(CallExpr Fun:(SelectorExpr ast Sel:Var) Args:[(SelectorExpr fun Sel:IF)"), name, "DS-5 ?: becomes the lazy if", cc.Pos(), "callee = ast.Var(fun.IF)", "?: is not rewritten to a call of fun.IF")
		okQ := false
		for _, s2 := range cc.Body {
			if is, ok := s2.(*ast.IfStmt); ok && strings.Contains(sx(is.Cond), "QUESTION") {
				okQ = true
			}
		}
		c.R.Check(okQ, name, "DS-5 only the ? ternary is rewritten", cc.Pos(), "other ternaries are rejected", "ternary rewriting is not guarded by the operator being ?")
	}
	if cc := cases["parser/ast.CallExpr"]; cc != nil && semOK["parser/ast.CallExpr"] {
		c.R.OK(name, "DS-4 o.f(args): receiver first, then arguments ascending", cc.Pos(), "%s", semWhy)
		c.R.OK(name, "DS-5 method name becomes the callee", cc.Pos(), "%s", semWhy)
		c.R.OK(name, "DS-4 f(args): arguments ascending", cc.Pos(), "%s", semWhy)
		// DS-2 on the evaluated term: the plain-call path rebuilds Call(D(e.Callee), ..) without excluding a member result
		for _, d := range c.desugarDenotation()["parser/ast.CallExpr"] {
			if strings.Contains(d, "=> Call(D(e.Callee),") {
				guarded := strings.Contains(d, "D(e.Callee) is *parser/ast.MemberExpr")
				c.R.Check(guarded, name, "DS-2 callee of the rebuilt call is not a member expression", cc.Pos(), "the rebuilt call is in normal form",
					"Desugar(e.Callee) can return a MemberExpr (a parenthesised member: Group is dropped), and Call(Member, ..) is itself rewritten by this function: the output is not a fixed point ((o.f)(1) -> o.f(1) -> f(o, 1))")
			}
		}
	} else if cc != nil {
		// member-call branch
		var ifm *ast.IfStmt
		for _, s2 := range cc.Body {
			if is, ok := s2.(*ast.IfStmt); ok && strings.Contains(sx(is.Init), "MemberExpr") {
				ifm = is
			}
		}
		if ifm == nil {
			c.R.Bad(name, "DS-4 method call branch", cc.Pos(), "no `if mem, ok := e.Callee.(*ast.MemberExpr)` branch")
		} else {
			// name-independent: the member symbol of the `if mem, ok := ..` is the first variable of the if statement
			s := c.sxN(fd, ifm)
			recvFirst := strings.Contains(s, "(AssignStmt Lhs:[(IndexExpr $2 Index:0)] Tok:= Rhs:[(CallExpr Fun:Desugar Args:[(SelectorExpr $0 Sel:Obj)])])")
			rest := strings.Contains(s, "(RangeStmt Key:$3 Value:$4 Tok::= (SelectorExpr $e Sel:Args) Body:(BlockStmt [(AssignStmt Lhs:[(IndexExpr $2 Index:(BinaryExpr $3 Op:+ Y:1))] Tok:= Rhs:[(CallExpr Fun:Desugar Args:[$4])])]))")
			size := strings.Contains(s, "(AssignStmt Lhs:[$2] Tok::= Rhs:[(CallExpr Fun:make Args:[(ArrayType Elt:(SelectorExpr ast Sel:Expr)) (BinaryExpr (CallExpr Fun:len Args:[(SelectorExpr $e Sel:Args)]) Op:+ Y:1)])])")
			c.R.Check(recvFirst && rest && size, name, "DS-4 o.f(args): receiver first, then arguments ascending", ifm.Pos(), "args[0] = Desugar(receiver); args[i+1] = Desugar(arg_i)", "receiver/argument order of the method-call rewrite is not receiver, arg0, arg1, ...")
			c.R.Check(strings.Contains(s, "Fun:(SelectorExpr ast Sel:Var) Args:[(SelectorExpr (SelectorExpr $0 Sel:Field) Sel:Name)"), name, "DS-5 method name becomes the callee", ifm.Pos(), "callee = ast.Var(mem.Field.Name)", "callee of the method-call rewrite is not the member's name")
			// plain branch
			if eb, ok := ifm.Else.(*ast.BlockStmt); ok {
				s2 := c.sxN(fd, eb)
				okArgs := strings.Contains(s2, "(RangeStmt Key:$1 Value:$2 Tok::= (SelectorExpr $e Sel:Args) Body:(BlockStmt [(AssignStmt Lhs:[(IndexExpr $0 Index:$1)] Tok:= Rhs:[(CallExpr Fun:Desugar Args:[$2])])]))")
				c.R.Check(okArgs, name, "DS-4 f(args): arguments ascending", eb.Pos(), "args[i] = Desugar(arg_i)", "arguments of a plain call are not desugared in place order")
				// DS-2: callee := Desugar(e.Callee) may itself be a MemberExpr (from a parenthesised member) -> result is a redex
				if strings.Contains(s2, "Rhs:[(CallExpr Fun:Desugar Args:[(SelectorExpr $e Sel:Callee)])]") {
					guarded := strings.Contains(s2, "MemberExpr")
					c.R.Check(guarded, name, "DS-2 callee of the rebuilt call is not a member expression", eb.Pos(), "the rebuilt call is in normal form",
						"Desugar(e.Callee) can return a MemberExpr (a parenthesised member: Group is dropped), and Call(Member, ..) is itself rewritten by this function: the output is not a fixed point ((o.f)(1) -> o.f(1) -> f(o, 1))")
				}
			}
		}
	}
	if s, cc := inl("parser/ast.SubscriptExpr"); cc != nil && semOK["parser/ast.SubscriptExpr"] {
		c.R.OK(name, "DS-4 subscript (Var, Idx) and column kept", cc.Pos(), "%s", semWhy)
		_ = s
	} else if cc != nil {
		c.R.Check(strings.Contains(s, "Args:["+D("Var")+" "+D("Idx")+" (SelectorExpr $e Sel:DBGCol)"), name, "DS-4 subscript (Var, Idx) and column kept", cc.Pos(), "container then index", "subscript operands/column are not carried over in order")
	}
	if s, cc := inl("parser/ast.MemberExpr"); cc != nil && semOK["parser/ast.MemberExpr"] {
		c.R.OK(name, "DS-4 member (Obj, Field) and column kept", cc.Pos(), "%s", semWhy)
		_ = s
	} else if cc != nil {
		c.R.Check(strings.Contains(s, "Args:["+D("Obj")+" (SelectorExpr $e Sel:Field) (SelectorExpr $e Sel:DBGCol)"), name, "DS-4 member (Obj, Field) and column kept", cc.Pos(), "object then field", "member operands/column are not carried over")
	}
	if s, cc := inl("parser/ast.GroupExpr"); cc != nil && semOK["parser/ast.GroupExpr"] {
		c.R.OK(name, "DS-1 parentheses are dropped", cc.Pos(), "%s", semWhy)
		_ = s
	} else if cc != nil {
		c.R.Check(s == D("SubExpr"), name, "DS-1 parentheses are dropped", cc.Pos(), "(e) means e", "group is not replaced by its desugared content")
	}

	// DS-6 pipeline order
	if ce := c.FuncDecl("yae", "Expr.CompileExpr"); ce != nil {
		g := c.buildCFG(ce.Body)
		var loop *ast.RangeStmt
		inspectNoLit(ce.Body, func(x ast.Node) bool {
			if r, ok := x.(*ast.RangeStmt); ok && typeStr(c.typeOf(r.X)) == "[]trans.Translate" {
				loop = r
			}
			return true
		})
		chk := c.callsTo(ce.Body, "types.Check")
		var comp *ast.CallExpr
		for _, call := range c.calls(ce.Body) {
			if se, ok := call.Fun.(*ast.SelectorExpr); ok && typeStr(c.typeOf(se)) == "compiler.Compiler" && c.calleeObj(call) == nil {
				comp = call
			}
		}
		ok6 := loop != nil && len(chk) == 1 && comp != nil && g.dominates(loop, chk[0]) && g.dominates(chk[0], comp)
		why := "translators, then types.Check, then the compiler"
		if ok6 {
			// same tree object
			t1, t2 := c.objOf(chk[0].Args[0]), c.objOf(comp.Args[0])
			ok6 = t1 != nil && t1 == t2
			// and it is the variable the translator loop assigns
			assigned := false
			inspectNoLit(loop.Body, func(x ast.Node) bool {
				if as, ok := x.(*ast.AssignStmt); ok && len(as.Lhs) == 1 && c.objOf(as.Lhs[0]) == t1 {
					assigned = true
				}
				return true
			})
			ok6 = ok6 && assigned
			// checked against the inherited env
			if ok6 && len(chk[0].Args) == 2 {
				if !rootedInCall(c, ce.Body, chk[0].Args[1], "types.Env.Inherit") {
					ok6, why = false, "types.Check is not given env0.Inherit(engine functions)"
				}
			}
		}
		c.R.Check(ok6, "yae.Expr.CompileExpr", "DS-6 translate, check, compile the same tree", ce.Pos(), "the tree the checker annotated is the tree that is compiled", "pipeline order/tree identity broken: "+why)
		ini := c.callsTo(ce.Body, "yae.Expr.makeSureInit")
		c.R.Check(len(ini) == 1 && loop != nil && g.dominates(ini[0], loop), "yae.Expr.CompileExpr", "DS-6 translators initialised before use", ce.Pos(), "makeSureInit first", "the translator list is used before initialisation")
	} else {
		c.R.Anchor("yae.Expr.CompileExpr")
	}
	if msi := c.FuncDecl("yae", "Expr.makeSureInit"); msi != nil {
		// a top-level statement of makeSureInit (i.e. not under a configuration flag) mentions trans.Desugar as a value, directly
		// or inside a method of the engine it calls (initTrans): the desugarer is registered whenever the engine is initialised
		mentions := func(n ast.Node) bool {
			found := false
			ast.Inspect(n, func(x ast.Node) bool {
				if id, ok := x.(*ast.SelectorExpr); ok {
					if o := c.objOf(id.Sel); o != nil && qual(o) == "trans.Desugar" {
						found = true
					}
				}
				return !found
			})
			return found
		}
		top, registered := false, false
		for _, st := range msi.Body.List {
			es, ok := st.(*ast.ExprStmt)
			isAssign := false
			if as, ok2 := st.(*ast.AssignStmt); ok2 {
				isAssign = true
				if mentions(as) {
					top, registered = true, true
				}
			}
			if !ok || isAssign {
				continue
			}
			ce, ok := es.X.(*ast.CallExpr)
			if !ok {
				continue
			}
			if mentions(ce) {
				top, registered = true, true
				continue
			}
			if f, ok := c.calleeObj(ce).(*types.Func); ok && f.Pkg() != nil && short(f.Pkg().Path()) == "yae" {
				if d := c.declOf(f); d != nil && d.Body != nil && mentions(d.Body) {
					top, registered = true, true
				}
			}
		}
		c.R.Check(top, "yae.Expr.makeSureInit", "DS-6 the desugarer is installed unconditionally", msi.Pos(), "a top-level statement of makeSureInit registers trans.Desugar", "the desugarer is only installed under a configuration flag (or not at all): an engine without built-ins type-checks and compiles sugar nodes (unreachable branch)")
		c.R.Check(registered, "yae.Expr.initTrans", "DS-6 Desugar is the registered translator", msi.Pos(), "sugar is removed before checking", "Desugar is not registered as a translator")
	}
}

func rootedInCall(c *Ctx, body ast.Node, e ast.Expr, callee string) bool {
	o := c.objOf(e)
	ok := false
	inspectNoLit(body, func(x ast.Node) bool {
		if as, isAs := x.(*ast.AssignStmt); isAs && len(as.Lhs) == 1 && len(as.Rhs) == 1 && c.objOf(as.Lhs[0]) == o {
			if ce, isCall := unparen(as.Rhs[0]).(*ast.CallExpr); isCall && c.calleeName(ce) == callee {
				ok = true
			}
		}
		return true
	})
	return ok
}

func (c *Ctx) tsVar(ts *ast.TypeSwitchStmt, cc *ast.CaseClause) types.Object {
	info := c.infoAt(ts)
	if info == nil {
		return nil
	}
	return info.Implicits[cc]
}

func sortStrings(s []string) {
	for i := 1; i < len(s); i++ {
		for j := i; j > 0 && s[j] < s[j-1]; j-- {
			s[j], s[j-1] = s[j-1], s[j]
		}
	}
}

// isRuneCountTerm: the term counts the runes of a string (directly or through a helper that was seen through).
func isRuneCountTerm(t string) bool {
	return strings.HasPrefix(t, "unicode/utf8.RuneCountInString(") || strings.HasPrefix(t, "builtin.len(conv:[]rune(") || strings.HasPrefix(t, "builtin.len(conv:[]int32(")
}

// regexpVarByQual compiles the pattern of a package-level *regexp.Regexp variable given its qualified name ("parser/lexer.keywordPostfix").
func (c *Ctx) regexpVarByQual(q string) *regexp.Regexp {
	i := strings.LastIndex(q, ".")
	if i < 0 {
		return nil
	}
	return c.regexpVar(q[:i], q[i+1:])
}

// LEX-8: closure properties of the repository's own patterns, decided by evaluating the constant patterns on a few witness
// strings (constant folding of the pattern, nothing of yae is executed):
//
//	(a) identifier-like words: whatever may START an identifier may also CONTINUE one — if the identifier pattern
//	    (oper.idReg, the lexer's keyword look-ahead, the SYM rule) accepts a one-letter word w, it accepts ww; otherwise an
//	    operator or variable made of such letters is identifier-like by its first rune only (`并且乙` splits, `trueé` is TRUE é);
//	(b) a numeric literal never ends in a dot: `.` after a number is the member / method-call operator (`3.abs()`), so no NUM
//	    pattern may match a prefix of "3.x" / "2.5.y" / "1e3.z" that ends with '.'.
func ruleLex8(c *Ctx) {
	c.R.Rule("LEX-8", 4, "pattern witnesses (constant evaluation of the repository's own regular expressions): a letter that may start an identifier-like word may also continue it (idReg, the keyword look-ahead and the SYM rule are closed under doubling of every accepted one-letter word); no numeric-literal pattern matches a prefix ending in '.', which is the member / method-call operator")
	letters := []string{"a", "Z", "_", "é", "并", "ß", "Ж"}
	check := func(owner, what string, re *regexp.Regexp, anchoredWhole bool, pos token.Pos) {
		if re == nil {
			c.R.Unk(owner, "LEX-8 "+what+" is a constant pattern", pos, "pattern is not a compile-time constant")
			return
		}
		bad := ""
		for _, w := range letters {
			var one, two bool
			if anchoredWhole {
				one, two = re.MatchString(w), re.MatchString(w+w)
			} else {
				one = re.FindString(w) == w
				two = re.FindString(w+w) == w+w
			}
			if one && !two {
				bad = w
			}
		}
		c.R.Check(bad == "", owner, "LEX-8 "+what+": start letters may continue", pos, "closed under doubling for the witness letters a Z _ é 并 ß Ж", "the pattern accepts the one-letter word "+bad+" but not "+bad+bad+": letters that may start an identifier-like word cannot continue it, so whole-word recognition of identifier-like operators, keywords and variables fails for them")
	}
	if init := c.VarInit("parser/oper", "idReg"); init != nil {
		check("parser/oper.idReg", "identifier-like operator pattern", c.regexpVar("parser/oper", "idReg"), true, init.Pos())
	} else {
		c.R.Anchor("parser/oper.idReg")
	}
	if init := c.VarInit("parser/lexer", "keywordPostfix"); init != nil {
		// the look-ahead must accept every letter that idReg accepts as a continuation: w is a continuation iff idReg accepts "a"+w
		id := c.regexpVar("parser/oper", "idReg")
		kp := c.regexpVar("parser/lexer", "keywordPostfix")
		if id == nil || kp == nil {
			c.R.Unk("parser/lexer.keywordPostfix", "LEX-8 keyword look-ahead is a constant pattern", init.Pos(), "pattern is not a compile-time constant")
		} else {
			bad := ""
			for _, w := range append(letters, "0", "9") {
				if id.MatchString("a"+w) && kp.FindString(w) == "" {
					bad = w
				}
			}
			c.R.Check(bad == "", "parser/lexer.keywordPostfix", "LEX-8 keyword look-ahead covers every identifier continuation", init.Pos(), "a word followed by any identifier character is not a keyword", "the whole-word look-ahead does not see "+bad+" as an identifier character although identifiers may contain it: a keyword or identifier-like operator followed by it is split off the longer word")
		}
	}
	fd := c.FuncDecl("parser/lexer", "newLexicon")
	if fd == nil {
		c.R.Anchor("parser/lexer.newLexicon")
		return
	}
	nums := 0
	// (kind, pattern) pairs: arguments of regex(K, "..") calls, or rows {K, ".."} of a table the rules are built from
	type kp struct {
		kind ast.Expr
		pat  ast.Expr
		pos  token.Pos
	}
	var pairs []kp
	for _, call := range c.allCallsDeepTo(fd.Body, "parser/lexer.regex") {
		if len(call.Args) == 2 {
			pairs = append(pairs, kp{call.Args[0], call.Args[1], call.Pos()})
		}
	}
	if pk := c.Mod["parser/lexer"]; pk != nil {
		for _, f := range pk.Syntax {
			ast.Inspect(f, func(x ast.Node) bool {
				cl, ok := x.(*ast.CompositeLit)
				if !ok || len(cl.Elts) != 2 {
					return true
				}
				var es [2]ast.Expr
				for i, e := range cl.Elts {
					if kv, ok := e.(*ast.KeyValueExpr); ok {
						e = kv.Value
					}
					es[i] = e
				}
				if _, isStr := c.constStr(es[1]); isStr {
					if o, ok := c.objOf(es[0]).(*types.Const); ok && o.Pkg() != nil && short(o.Pkg().Path()) == "parser/token" {
						pairs = append(pairs, kp{es[0], es[1], cl.Pos()})
					}
				}
				return true
			})
		}
	}
	for _, call := range pairs {
		pat, ok := c.constStr(call.pat)
		if !ok {
			continue
		}
		re, err := regexp.Compile("^(?:" + pat + ")")
		if err != nil {
			continue
		}
		kind := ""
		if o := c.objOf(call.kind); o != nil {
			kind = o.Name()
		}
		switch kind {
		case "SYM":
			check("parser/lexer.newLexicon", "identifier rule", re, false, call.pos)
			// the three places that say what a word character is agree: the identifier token (SYM), the routing of
			// identifier-like operators to the whole-word rule (oper.idReg behind IsIdentOp) and the whole-word look-ahead
			// (keywordPostfix). A class widened in one of them only (combining marks, other digits, ..) lets an operator
			// spelled with such characters be registered as a plain prefix and split identifiers that start with it.
			id := c.regexpVar("parser/oper", "idReg")
			kpRe := c.regexpVar("parser/lexer", "keywordPostfix")
			if id != nil && kpRe != nil {
				bad := ""
				for _, w := range []string{"a", "Z", "_", "0", "9", "é", "并", "ß", "Ж", "\u0301", "\u093e", "\u0e37", "\u0663", "\u2177", "\u02b0", "\u203f", "$", "-", "'"} {
					symC := re.FindString("a"+w) == "a"+w
					idC := id.MatchString("a" + w)
					kpC := kpRe.FindString(w) != ""
					if symC != idC || symC != kpC {
						bad = fmt.Sprintf("%q (U+%04X): identifier token %v, identifier-like operator %v, whole-word look-ahead %v", w, []rune(w)[0], symC, idC, kpC)
					}
				}
				c.R.Check(bad == "", "parser/lexer.newLexicon", "LEX-8 identifier token, operator routing and look-ahead agree on word characters", call.pos, "same answer for witness characters of the letter, mark, digit, letter-number, modifier and connector categories", "the three definitions of a word character disagree on "+bad+": an operator spelled with such characters is registered as a plain prefix (or an identifier is cut at it)")
			}
		case "NUM":
			nums++
			bad := ""
			for _, w := range []string{"3.x", "3.", "0.", "2.5.y", "1e3.z", "10.abs()", "0x1f.y", "0b1.y", "0o7.y"} {
				if m := re.FindString(w); strings.HasSuffix(m, ".") {
					bad = w
				}
			}
			c.R.Check(bad == "", "parser/lexer.newLexicon", "LEX-8 number pattern "+strconv.Quote(pat)+" never ends in a dot", call.pos, "the dot after a number is left to the member operator", "the number pattern matches a prefix of "+strconv.Quote(bad)+" that ends in '.': the dot of a method call on a numeric literal (3.abs()) is swallowed by the number token")
		}
	}
	c.R.Check(nums >= 2, "parser/lexer.newLexicon", "LEX-8 number patterns found", fd.Pos(), "numeric literal rules are constant patterns", "fewer than two constant NUM patterns found")
}

// desugarSemOK: node kinds for which DS-9's abstract evaluation is decided and equals the expected denotation.
func (c *Ctx) desugarSemOK() map[string]bool {
	out := map[string]bool{}
	den := c.desugarDenotation()
	if den == nil {
		return out
	}
	exp := desugarExpectedAll()
	for k, got := range den {
		want := append([]string{}, exp[k]...)
		sort.Strings(want)
		if len(got) > 0 && got[0] != "UNDECIDED" && strings.Join(got, " | ") == strings.Join(want, " | ") {
			out[k] = true
		}
	}
	return out
}

// batchCursor finds a method of pos.Pos, new since the pinned commit, that advances the cursor over a whole string, and
// verifies it against the per-rune semantics (Idx+1 per rune; newline: Line+1, Col=0; otherwise Col+1) iterated over the
// string: on every path Idx += runes(s); on the path that assumes no newline in s, Col += runes(s) and Line is untouched; on
// the path that assumes one, Line += strings.Count(s, "\n") and Col = runes(s[lastNewline+1:]). Returns nil when there is
// no such method or it does not verify.
func (c *Ctx) batchCursor() (*ast.FuncDecl, types.Object) {
	var found *ast.FuncDecl
	var obj types.Object
	c.eachFuncDecl(func(pk *packages.Package, fd *ast.FuncDecl) {
		if found != nil || short(pk.PkgPath) != "parser/pos" || fd.Body == nil || fd.Recv == nil || knownFuncs[fnName("parser/pos", fd)] {
			return
		}
		if fd.Type.Params == nil || len(fd.Type.Params.List) != 1 || len(fd.Type.Params.List[0].Names) != 1 || typeStr(c.typeOf(fd.Type.Params.List[0].Type)) != "string" {
			return
		}
		if len(fd.Recv.List) != 1 || len(fd.Recv.List[0].Names) != 1 || typeStr(c.typeOf(fd.Recv.List[0].Type)) != "*parser/pos.Pos" {
			return
		}
		recv := c.objOf(fd.Recv.List[0].Names[0])
		tc := c.fnTerms(fd)
		tc.expand = true
		paths, ok := c.retPaths(fd.Body.List)
		if !ok || len(paths) != 2 {
			return
		}
		rc := func(x string) []string {
			return []string{"unicode/utf8.RuneCountInString(" + x + ")", "builtin.len(conv:[]rune(" + x + "))"}
		}
		isOneOf := func(t string, xs []string) bool {
			for _, x := range xs {
				if t == x {
					return true
				}
			}
			return false
		}
		lastIdx := []string{"strings.LastIndexByte(p0,const:10)", "strings.LastIndex(p0,const:\"\\n\")"}
		seenNo, seenYes := false, false
		for _, p := range paths {
			if p.end == "panic" {
				return
			}
			writes := map[string][2]string{}
			for _, st := range p.stmts {
				switch x := st.(type) {
				case *ast.AssignStmt:
					for i, l := range x.Lhs {
						if se, isSel := unparen(l).(*ast.SelectorExpr); isSel && c.objOf(se.X) == recv && len(x.Lhs) == len(x.Rhs) {
							if _, dup := writes[se.Sel.Name]; dup {
								return
							}
							writes[se.Sel.Name] = [2]string{x.Tok.String(), tc.tr(x.Rhs[i])}
						}
					}
				case *ast.IncDecStmt:
					if se, isSel := unparen(x.X).(*ast.SelectorExpr); isSel && c.objOf(se.X) == recv {
						return
					}
				}
			}
			if w := writes["Idx"]; w[0] != "+=" || !isOneOf(w[1], rc("p0")) {
				return
			}
			terms := tc.pathTerms(p)
			if len(terms) != 1 {
				return
			}
			noNL, hasNL := false, false
			for _, li := range lastIdx {
				if terms[0] == "lt("+li+",const:0)" {
					noNL = true
				}
				if terms[0] == "le(const:0,"+li+")" {
					hasNL = true
				}
			}
			switch {
			case noNL:
				if w := writes["Col"]; w[0] != "+=" || !isOneOf(w[1], rc("p0")) {
					return
				}
				if _, wr := writes["Line"]; wr {
					return
				}
				seenNo = true
			case hasNL:
				if w := writes["Line"]; w[0] != "+=" || w[1] != "strings.Count(p0,const:\"\\n\")" {
					return
				}
				okCol := false
				for _, li := range lastIdx {
					if w := writes["Col"]; w[0] == "=" && isOneOf(w[1], rc("slice(p0,add(const:1,"+li+"),)")) {
						okCol = true
					}
				}
				if !okCol {
					return
				}
				seenYes = true
			default:
				return
			}
			for f := range writes {
				if f != "Idx" && f != "Col" && f != "Line" {
					return
				}
			}
		}
		if seenNo && seenYes {
			found, obj = fd, c.calleeObjOfDecl(fd)
		}
	})
	return found, obj
}
