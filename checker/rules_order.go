package main

import (
	"go/ast"
	"go/constant"
	"go/token"
	"go/types"
	"strings"

	"golang.org/x/tools/go/packages"
)

// EFFECT-1 (stdout), EFFECT-4 (host values), MAPORDER-1/2, PAIR-1, SORTLESS-1/2, INTGUARD-1/2.

func init() {
	reg("PAIR-2", rulePair2)
	reg("EFFECT-1", ruleEffect1)
	reg("EFFECT-4", ruleEffect4)
	reg("MAPORDER-1", ruleMapOrder1)
	reg("MAPORDER-2", ruleMapOrder2)
	reg("PAIR-1", rulePair1)
	reg("SORTLESS-1", ruleSortLess1)
	reg("SORTLESS-2", ruleSortLess2)
	reg("INTGUARD-1", ruleIntGuard1)
	reg("INTGUARD-2", ruleIntGuard2)
}

// enclosing function name for a position: "pkg.Func" or "pkg.VAR$init"
func (p *Prog) ownerOf(pk *packages.Package, file *ast.File, pos token.Pos) string {
	sp := short(pk.PkgPath)
	for _, d := range file.Decls {
		if d.Pos() <= pos && pos <= d.End() {
			switch x := d.(type) {
			case *ast.FuncDecl:
				return fnName(sp, x)
			case *ast.GenDecl:
				for _, s := range x.Specs {
					if vs, ok := s.(*ast.ValueSpec); ok && vs.Pos() <= pos && pos <= vs.End() && len(vs.Names) > 0 {
						return sp + "." + vs.Names[0].Name + "$init"
					}
				}
				return sp + ".$decl"
			}
		}
	}
	return sp + ".?"
}

func (p *Prog) eachFile(f func(pk *packages.Package, file *ast.File)) {
	for _, pk := range p.sortedMod() {
		for _, file := range pk.Syntax {
			f(pk, file)
		}
	}
}

// ---------- EFFECT-1: nothing but print writes to stdout/stderr ----------

func ruleEffect1(c *Ctx) {
	c.R.Rule("EFFECT-1", 1, "no function of the module writes to standard output/error (fmt.Print*, print/println, package log, os.Stdout/os.Stderr) except the implementation of the print built-in (whole-module scan of resolved callees; stronger than reachability)")
	found := false
	c.eachFile(func(pk *packages.Package, file *ast.File) {
		ast.Inspect(file, func(x ast.Node) bool {
			switch n := x.(type) {
			case *ast.CallExpr:
				name := c.calleeName(n)
				bad := false
				switch {
				case name == "fmt.Print" || name == "fmt.Println" || name == "fmt.Printf":
					bad = true
				case name == "builtin.print" || name == "builtin.println":
					bad = true
				case strings.HasPrefix(name, "log."):
					bad = true
				}
				if !bad {
					return true
				}
				owner := c.ownerOf(pk, file, n.Pos())
				if owner == "fun.PRINT_ANY$init" {
					found = true
					c.R.OK(owner, "call "+name, n.Pos(), "the print built-in is the one documented writer")
				} else {
					c.R.Bad(owner, "call "+name, n.Pos(), "writes to standard output outside the print built-in")
				}
			case *ast.SelectorExpr:
				if o := c.objOf(n); o != nil {
					if q := qual(o); q == "os.Stdout" || q == "os.Stderr" {
						owner := c.ownerOf(pk, file, n.Pos())
						c.R.Bad(owner, "use of "+q, n.Pos(), "references the process's standard stream")
					}
				}
			}
			return true
		})
	})
	if !found {
		c.R.Bad("fun.PRINT_ANY$init", "positive control", token.NoPos, "the fmt.Println in the print built-in was not found: the scanner no longer recognises stdout writers")
	}
}

// ---------- EFFECT-4: host values are never written through reflection ----------

func ruleEffect4(c *Ctx) {
	c.R.Rule("EFFECT-4", 1, "no reflect.Value.Set*/Addr/UnsafeAddr, reflect.Copy/Append in the module: host data handed to conv cannot be modified (expected count 0; the scan is validated against reflect read accessors which must be found)")
	reads := 0
	c.eachFile(func(pk *packages.Package, file *ast.File) {
		ast.Inspect(file, func(x ast.Node) bool {
			n, ok := x.(*ast.CallExpr)
			if !ok {
				return true
			}
			name := c.calleeName(n)
			if !strings.HasPrefix(name, "reflect.") {
				return true
			}
			m := name[strings.LastIndex(name, ".")+1:]
			switch {
			case strings.HasPrefix(name, "reflect.Value.Set"), m == "Addr" && strings.HasPrefix(name, "reflect.Value."), m == "UnsafeAddr", m == "UnsafePointer",
				name == "reflect.Copy", name == "reflect.Append", name == "reflect.AppendSlice", name == "reflect.NewAt",
				name == "reflect.Value.Clear", name == "reflect.Value.Grow":
				c.R.Bad(c.ownerOf(pk, file, n.Pos()), "call "+name, n.Pos(), "reflection write access to a host value")
			default:
				reads++
			}
			return true
		})
	})
	c.R.Check(reads >= 20, "conv", "positive control: reflect accessors recognised", token.NoPos,
		"reflect read accessors are resolved (scan is live), no write accessor present", "fewer than 20 reflect calls resolved: the scan is not seeing conv")
}

// ---------- MAPORDER-1 ----------

var insertCalls = map[string]bool{
	"types.Env.Put": true, "val.Env.Put": true, "val.MapVal.Put": true,
	"util.IntSet.Add": true, "util.StrSet.Add": true, "util.PtrSet.Add": true, "util.PtrPtrSet.Add": true,
	"builtin.delete": true,
}

// frozen: loops whose early exit picks *which* error is reported (never whether one is).
var mapOrderFrozen = map[string]string{
	"yae.Expr.envCheck":    "callback asserts each binding against one reference (the run-time env); iteration order selects only which mismatch is worded in the error",
	"ext.CompileToSql$lit": "same check as envCheck over the run-time env; order selects only the error wording",
	"conv.typeEnvOfMap":    "inserts into the env map; the first conversion error is returned, order selects only which one",
	"conv.valEnvOfMap":     "inserts into the env map; the first conversion error is returned, order selects only which one",
	"conv.valOfMap":        "every entry is compared with the first by types.Equals (an equivalence), entries go into a Go map; order selects the reference element and the error wording only",
}

// orderInsensitive reports whether executing stmts once per map entry in any order has the same effect.
func (c *Ctx) orderInsensitive(stmts []ast.Stmt, why *string) bool {
	for _, s := range stmts {
		switch x := s.(type) {
		case *ast.AssignStmt:
			for _, l := range x.Lhs {
				switch lv := unparen(l).(type) {
				case *ast.Ident:
					if x.Tok != token.DEFINE && lv.Name != "_" {
						// assignment to an outer variable: only constants
						for _, r := range x.Rhs {
							if c.constOf(r) == nil {
								*why = "assigns a per-entry value to an outer variable: " + src(l)
								return false
							}
						}
					}
				case *ast.IndexExpr:
					if _, isMap := c.typeOf(lv.X).Underlying().(*types.Map); !isMap {
						*why = "stores at a slice index"
						return false
					}
				default:
					*why = "assigns to " + src(l)
					return false
				}
			}
			for _, r := range x.Rhs {
				if ce, ok := unparen(r).(*ast.CallExpr); ok && c.calleeName(ce) == "builtin.append" {
					*why = "appends to a slice inside the loop"
					return false
				}
			}
		case *ast.IncDecStmt:
		case *ast.ExprStmt:
			ce, ok := x.X.(*ast.CallExpr)
			if !ok {
				*why = "expression statement"
				return false
			}
			name := c.calleeName(ce)
			if !insertCalls[name] && name != "util.Assert" && !c.noReturn(ce) {
				*why = "calls " + name
				return false
			}
		case *ast.IfStmt:
			if !c.orderInsensitive(x.Body.List, why) {
				return false
			}
			if x.Else != nil {
				switch e := x.Else.(type) {
				case *ast.BlockStmt:
					if !c.orderInsensitive(e.List, why) {
						return false
					}
				case *ast.IfStmt:
					if !c.orderInsensitive([]ast.Stmt{e}, why) {
						return false
					}
				}
			}
		case *ast.ReturnStmt:
			for _, r := range x.Results {
				if c.constOf(r) == nil && src(r) != "nil" && src(r) != "err" {
					*why = "returns a per-entry value " + src(r)
					return false
				}
			}
		case *ast.BranchStmt:
			if x.Tok != token.CONTINUE {
				*why = "break/goto in loop"
				return false
			}
		case *ast.DeclStmt:
		default:
			*why = "statement form not recognised"
			return false
		}
	}
	return true
}

// stmtListContaining finds the statement list (and index) that directly contains stmt inside root.
func stmtListContaining(root ast.Node, stmt ast.Stmt) ([]ast.Stmt, int) {
	var list []ast.Stmt
	idx := -1
	ast.Inspect(root, func(x ast.Node) bool {
		var l []ast.Stmt
		switch b := x.(type) {
		case *ast.BlockStmt:
			l = b.List
		case *ast.CaseClause:
			l = b.Body
		}
		for i, s := range l {
			if s == stmt {
				list, idx = l, i
			}
		}
		return true
	})
	return list, idx
}

func mentions(c *Ctx, n ast.Node, o types.Object) bool {
	found := false
	ast.Inspect(n, func(x ast.Node) bool {
		if id, ok := x.(*ast.Ident); ok && c.objOf(id) == o {
			found = true
		}
		return true
	})
	return found
}

func ruleMapOrder1(c *Ctx) {
	c.R.Rule("MAPORDER-1", 5, "every range over a Go map (and every reflect MapKeys/MapRange) is order-insensitive (set/map insertion, counting, constant early return), collect-then-sort, or a callback dispatch whose callbacks are classified instead; anything that lets iteration order reach a slice, a string or output is a violation")
	type forEach struct {
		method string
		pos    token.Pos
	}
	var dispatchers []forEach
	c.eachFile(func(pk *packages.Package, file *ast.File) {
		ast.Inspect(file, func(x ast.Node) bool {
			switch n := x.(type) {
			case *ast.RangeStmt:
				t := c.typeOf(n.X)
				if t == nil {
					return true
				}
				if _, isMap := t.Underlying().(*types.Map); !isMap {
					return true
				}
				owner := c.ownerOf(pk, file, n.Pos())
				desc := "range " + src(n.X)
				// (b) collect-then-sort
				if len(n.Body.List) == 1 {
					if as, ok := n.Body.List[0].(*ast.AssignStmt); ok && len(as.Lhs) == 1 && len(as.Rhs) == 1 {
						if ce, ok := as.Rhs[0].(*ast.CallExpr); ok && c.calleeName(ce) == "builtin.append" && len(ce.Args) == 2 && sx(ce.Args[0]) == sx(as.Lhs[0]) {
							so := c.objOf(as.Lhs[0])
							list, idx := stmtListContaining(file, n)
							sorted := false
							for _, s := range list[idx+1:] {
								if so == nil || !mentions(c, s, so) {
									continue
								}
								if es, ok := s.(*ast.ExprStmt); ok {
									if sc, ok := es.X.(*ast.CallExpr); ok {
										nm := c.calleeName(sc)
										if (nm == "sort.Slice" || nm == "sort.SliceStable" || nm == "sort.Strings" || nm == "sort.Sort" || nm == "sort.Stable") && len(sc.Args) > 0 && c.objOf(sc.Args[0]) == so {
											sorted = true
										}
									}
								}
								break
							}
							if sorted {
								c.R.OK(owner, desc, n.Pos(), "class (b): keys collected into %s, which is sorted before any other use", src(as.Lhs[0]))
							} else {
								c.R.Bad(owner, desc, n.Pos(), "entries are appended to %s in map order and the slice is used before being sorted", src(as.Lhs[0]))
							}
							return true
						}
					}
				}
				// (c) callback dispatch
				if len(n.Body.List) == 1 {
					if es, ok := n.Body.List[0].(*ast.ExprStmt); ok {
						if ce, ok := es.X.(*ast.CallExpr); ok && c.calleeObj(ce) == nil {
							if v, ok := c.objOf(ce.Fun).(*types.Var); ok && !v.IsField() {
								dispatchers = append(dispatchers, forEach{owner, n.Pos()})
								c.R.OK(owner, desc, n.Pos(), "class (c): dispatches each entry to the callback parameter %s; callbacks are classified at the call sites", src(ce.Fun))
								return true
							}
						}
					}
				}
				// (a)
				why := ""
				if c.orderInsensitive(n.Body.List, &why) {
					c.R.OK(owner, desc, n.Pos(), "class (a): body only inserts into maps/sets, counts, or returns constants under a condition")
				} else {
					c.R.Bad(owner, desc, n.Pos(), "iteration order can reach the result: %s", why)
				}
			case *ast.CallExpr:
				name := c.calleeName(n)
				if name != "reflect.Value.MapKeys" && name != "reflect.Value.MapRange" {
					return true
				}
				owner := c.ownerOf(pk, file, n.Pos())
				desc := "call " + name
				// the enclosing function must have no order-sensitive sink outside error construction
				var fd *ast.FuncDecl
				for _, d := range file.Decls {
					if f, ok := d.(*ast.FuncDecl); ok && f.Pos() <= n.Pos() && n.End() <= f.End() {
						fd = f
					}
				}
				if fd == nil {
					c.R.Unk(owner, desc, n.Pos(), "not inside a function declaration")
					return true
				}
				sink := ""
				var walk func(x ast.Node, inErr bool)
				walk = func(x ast.Node, inErr bool) {
					ast.Inspect(x, func(y ast.Node) bool {
						ce, ok := y.(*ast.CallExpr)
						if !ok || y == x {
							return true
						}
						nm := c.calleeName(ce)
						if nm == "builtin.panic" || nm == "fmt.Errorf" {
							return false // error text only
						}
						switch nm {
						case "builtin.append", "strings.Join", "util.JoinStr", "fmt.Sprintf", "fmt.Sprint", "strings.Builder.WriteString", "val.ListVal.Add":
							sink = nm
						}
						return true
					})
				}
				walk(fd.Body, false)
				if sink != "" {
					c.R.Bad(owner, desc, n.Pos(), "keys in reflection (hash) order reach the order-sensitive sink %s", sink)
					return true
				}
				if r, ok := mapOrderFrozen[owner]; ok {
					c.R.OK(owner, desc, n.Pos(), "no order-sensitive sink in the function; frozen: %s", r)
				} else {
					c.R.Unk(owner, desc, n.Pos(), "new reflect map iteration: not classified (no order-sensitive sink found, but early exits were not reviewed)")
				}
			}
			return true
		})
	})
	// classify the callbacks handed to the dispatching methods
	for _, d := range dispatchers {
		method := d.method // e.g. types.Env.ForEach
		c.eachFile(func(pk *packages.Package, file *ast.File) {
			ast.Inspect(file, func(x ast.Node) bool {
				ce, ok := x.(*ast.CallExpr)
				if !ok || c.calleeName(ce) != method || len(ce.Args) != 1 {
					return true
				}
				owner := c.ownerOf(pk, file, ce.Pos())
				// calls made from inside a returned literal: name the literal
				lit, isLit := ce.Args[0].(*ast.FuncLit)
				desc := "callback of " + method
				if !isLit {
					// a named function or method value as callback: classify its body
					if _, ft, body := c.funcOf(ce.Args[0]); body != nil && ft != nil {
						lit, isLit = &ast.FuncLit{Type: ft, Body: body}, true
					}
				}
				if !isLit {
					c.R.Unk(owner, desc, ce.Pos(), "callback is not a function literal; cannot classify")
					return true
				}
				key := owner
				if _, ok := mapOrderFrozen[key]; !ok {
					key = owner + "$lit"
				}
				why := ""
				ins := c.orderInsensitive(lit.Body.List, &why)
				hasAssert := len(c.asserted(lit.Body)) > 0
				switch {
				case ins && !hasAssert:
					c.R.OK(owner, desc, ce.Pos(), "callback body is order-insensitive")
				case ins && hasAssert:
					if r, ok := mapOrderFrozen[key]; ok {
						c.R.OK(owner, desc, ce.Pos(), "callback only looks up and asserts; frozen: %s", r)
					} else if c.assertOnly(lit.Body) {
						c.R.OK(owner, desc, ce.Pos(), "callback only defines locals from look-ups and asserts on them: every entry is checked against references the callback does not change, so whether the iteration fails does not depend on the order (only which failing entry is worded in the error)")
					} else {
						c.R.Unk(owner, desc, ce.Pos(), "callback asserts per entry (first failure depends on order) and is not in the frozen table")
					}
				default:
					c.R.Bad(owner, desc, ce.Pos(), "callback lets map order reach the result: %s", why)
				}
				return true
			})
		})
	}
}

// ---------- PAIR-1 ----------

// pairOK: in fd, every util.PtrSet.Add(x) on a PtrSet parameter is paired with a deferred (or exit-dominating) Remove(x).
func (c *Ctx) pairSites(report bool) map[string]bool {
	res := map[string]bool{}
	c.eachFuncDecl(func(pk *packages.Package, fd *ast.FuncDecl) {
		if fd.Body == nil {
			return
		}
		var setParams []types.Object
		for _, f := range fd.Type.Params.List {
			if typeStr(c.typeOf(f.Type)) == "util.PtrSet" {
				for _, n := range f.Names {
					setParams = append(setParams, c.objOf(n))
				}
			}
		}
		if len(setParams) == 0 {
			return
		}
		owner := fnName(short(pk.PkgPath), fd)
		for _, add := range c.callsTo(fd.Body, "util.PtrSet.Add") {
			se := add.Fun.(*ast.SelectorExpr)
			recv := c.objOf(se.X)
			isParam := false
			for _, sp := range setParams {
				if sp == recv {
					isParam = true
				}
			}
			if !isParam || len(add.Args) != 1 {
				continue
			}
			paired := false
			inspectNoLit(fd.Body, func(x ast.Node) bool {
				d, ok := x.(*ast.DeferStmt)
				if !ok {
					return true
				}
				nm := c.calleeName(d.Call)
				if nm == "util.PtrSet.Remove" && len(d.Call.Args) == 1 {
					ds := d.Call.Fun.(*ast.SelectorExpr)
					if c.objOf(ds.X) == recv && sx(d.Call.Args[0]) == sx(add.Args[0]) {
						paired = true
					}
				}
				if lit, ok := d.Call.Fun.(*ast.FuncLit); ok {
					for _, dc := range c.calls(lit.Body) {
						if c.calleeName(dc) == "builtin.delete" && len(dc.Args) == 2 && c.objOf(dc.Args[0]) == recv {
							paired = true
						}
						if c.calleeName(dc) == "util.PtrSet.Remove" && len(dc.Args) == 1 && sx(dc.Args[0]) == sx(add.Args[0]) {
							paired = true
						}
					}
				}
				return true
			})
			if !paired {
				// explicit release: every normal exit reachable after the Add passes a Remove of the same element first (exits by
				// panic are not counted: every in-process set of this module is created by the top-level call that owns the
				// traversal and is garbage once that call is abandoned)
				g := c.buildCFG(fd.Body)
				paired = g.everyExitAfter(add, func(n ast.Node) bool {
					hit := false
					ast.Inspect(n, func(x ast.Node) bool {
						if _, isLit := x.(*ast.FuncLit); isLit {
							return false
						}
						if ce, ok := x.(*ast.CallExpr); ok && c.calleeName(ce) == "util.PtrSet.Remove" && len(ce.Args) == 1 {
							if rs, ok := ce.Fun.(*ast.SelectorExpr); ok && c.objOf(rs.X) == recv && sx(ce.Args[0]) == sx(add.Args[0]) {
								hit = true
							}
						}
						return !hit
					})
					return hit
				})
			}
			res[owner] = paired
			if report {
				if paired {
					c.R.OK(owner, "Add("+src(add.Args[0])+") released on exit", add.Pos(), "%s.Remove(%s) deferred, or passed on every path to a return: the set is the current path, a value occurring twice is not a cycle", src(se.X), src(add.Args[0]))
				} else {
					c.R.Bad(owner, "Add("+src(add.Args[0])+") released on exit", add.Pos(), "element is added to the in-process set and never removed: a value that merely occurs twice (e.g. [xs, xs], or one *Type used for two parameters) is rendered as a cycle with a heap address")
				}
			}
		}
	})
	return res
}

func rulePair1(c *Ctx) {
	c.R.Rule("PAIR-1", 2, "a function that adds a node to a util.PtrSet parameter removes it again on every exit (deferred Remove of the same element): the in-process set is the current path, not everything visited")
	c.pairSites(true)
}

// ---------- MAPORDER-2: pointer formatting ----------

func ruleMapOrder2(c *Ctx) {
	c.R.Rule("MAPORDER-2", 2, "%p (heap address) formatting in rendering code occurs only in the cycle-marker branch guarded by PtrSet.Contains (unreachable for acyclic values once PAIR-1 holds) or in the frozen function-value rendering")
	pair := c.pairSites(false)
	valStringify := "val.stringify"
	if fd := c.FuncDecl("val", "stringify"); fd != nil {
		valStringify = fnName("val", fd) // the canonical renderer, under whatever name it has now
	}
	c.eachFile(func(pk *packages.Package, file *ast.File) {
		var stack []ast.Node
		ast.Inspect(file, func(x ast.Node) bool {
			if x == nil {
				stack = stack[:len(stack)-1]
				return false
			}
			stack = append(stack, x)
			ce, ok := x.(*ast.CallExpr)
			if !ok {
				return true
			}
			nm := c.calleeName(ce)
			if !strings.HasPrefix(nm, "fmt.") {
				return true
			}
			hasP := false
			for _, a := range ce.Args {
				if v := c.constOf(a); v != nil && v.Kind() == constant.String && strings.Contains(constant.StringVal(v), "%p") {
					hasP = true
				}
			}
			if !hasP {
				return true
			}
			owner := c.ownerOf(pk, file, ce.Pos())
			desc := "%p in " + nm
			// cycle marker: nearest enclosing if whose condition calls PtrSet.Contains
			marker := false
			kfun := false
			for i := len(stack) - 1; i >= 0; i-- {
				switch s := stack[i].(type) {
				case *ast.IfStmt:
					if len(c.callsTo(s.Cond, "util.PtrSet.Contains")) > 0 && s.Body.Pos() <= ce.Pos() && ce.End() <= s.Body.End() {
						marker = true
					}
				case *ast.CaseClause:
					for _, e := range s.List {
						if o := c.objOf(e); o != nil && qual(o) == "types.KFun" {
							kfun = true
						}
					}
				}
			}
			switch {
			case marker && pair[owner]:
				c.R.OK(owner, desc, ce.Pos(), "cycle-marker branch under PtrSet.Contains, and PAIR-1 holds for the function: unreachable for acyclic values")
			case marker:
				c.R.Bad(owner, desc, ce.Pos(), "cycle-marker branch prints a heap address and the function does not release its in-process set (PAIR-1): reachable for any value that occurs twice")
			case kfun && owner == valStringify:
				c.R.OK(owner, desc, ce.Pos(), "frozen: function values have no canonical text; rendering of KFun by identity is documented")
			default:
				c.R.Bad(owner, desc, ce.Pos(), "formats a heap address into text that can reach results")
			}
			return true
		})
	})
}

// ---------- SORTLESS ----------

func ruleSortLess1(c *Ctx) {
	c.R.Rule("SORTLESS-1", 3, "in every sort.Slice/SliceStable comparator the index parameters i, j are only used to index the slice being sorted (a comparator that indexes another slice with positions of the permuted one is not an ordering)")
	c.eachFile(func(pk *packages.Package, file *ast.File) {
		ast.Inspect(file, func(x ast.Node) bool {
			ce, ok := x.(*ast.CallExpr)
			if !ok {
				return true
			}
			nm := c.calleeName(ce)
			if nm != "sort.Slice" && nm != "sort.SliceStable" {
				return true
			}
			owner := c.ownerOf(pk, file, ce.Pos())
			desc := nm + "(" + src(ce.Args[0]) + ")"
			lit, ok := ce.Args[1].(*ast.FuncLit)
			if !ok || len(lit.Type.Params.List) == 0 {
				c.R.Unk(owner, desc, ce.Pos(), "comparator is not a function literal")
				return true
			}
			var ij []types.Object
			for _, f := range lit.Type.Params.List {
				for _, n := range f.Names {
					ij = append(ij, c.objOf(n))
				}
			}
			sorted := sx(ce.Args[0])
			bad := ""
			// parent map inside literal
			parent := map[ast.Node]ast.Node{}
			var st []ast.Node
			ast.Inspect(lit.Body, func(y ast.Node) bool {
				if y == nil {
					st = st[:len(st)-1]
					return false
				}
				if len(st) > 0 {
					parent[y] = st[len(st)-1]
				}
				st = append(st, y)
				return true
			})
			uses := 0
			ast.Inspect(lit.Body, func(y ast.Node) bool {
				id, ok := y.(*ast.Ident)
				if !ok {
					return true
				}
				o := c.objOf(id)
				if o != ij[0] && (len(ij) < 2 || o != ij[1]) {
					return true
				}
				uses++
				par := parent[id]
				for {
					if pe, ok := par.(*ast.ParenExpr); ok {
						par = parent[pe]
						continue
					}
					break
				}
				ix, ok := par.(*ast.IndexExpr)
				if !ok || unparen(ix.Index) != ast.Expr(id) {
					bad = "index parameter " + id.Name + " used outside an index expression"
					return true
				}
				if sx(ix.X) != sorted {
					bad = "index parameter " + id.Name + " indexes " + src(ix.X) + " but the slice being sorted is " + src(ce.Args[0])
				}
				return true
			})
			if bad != "" {
				c.R.Bad(owner, desc, ce.Pos(), "%s", bad)
			} else if uses < 2 {
				c.R.Unk(owner, desc, ce.Pos(), "comparator does not use both index parameters")
			} else {
				c.R.OK(owner, desc, ce.Pos(), "all %d uses of i/j index the sorted slice itself", uses)
			}
			// SORTLESS-3: canonical sorts in rendering code compare the element's own key, untransformed
			if strings.HasPrefix(owner, "val.") || strings.HasPrefix(owner, "fun.") {
				okKey := false
				whyKey := "comparator is not a single `key(i) < key(j)` return"
				if len(lit.Body.List) == 1 {
					if r, ok := lit.Body.List[0].(*ast.ReturnStmt); ok && len(r.Results) == 1 {
						if be, ok := unparen(r.Results[0]).(*ast.BinaryExpr); ok && (be.Op == token.LSS || be.Op == token.GTR) {
							swap := func(n ast.Node) (string, bool) {
								if id, ok := n.(*ast.Ident); ok {
									if o := c.objOf(id); o == ij[0] {
										return "#j", true
									} else if len(ij) > 1 && o == ij[1] {
										return "#i", true
									}
								}
								return "", false
							}
							same := func(n ast.Node) (string, bool) {
								if id, ok := n.(*ast.Ident); ok {
									if o := c.objOf(id); o == ij[0] {
										return "#i", true
									} else if len(ij) > 1 && o == ij[1] {
										return "#j", true
									}
								}
								return "", false
							}
							if sxWith(be.X, same) == sxWith(be.Y, swap) {
								okKey = true
								for _, call := range c.calls(be) {
									nm := c.calleeName(call)
									if len(call.Args) != 0 || !(strings.HasSuffix(nm, ".String")) {
										okKey = false
										whyKey = "sort key is passed through " + nm + ": a transformation that is not injective leaves ties in map-iteration order (rendering no longer canonical)"
									}
								}
							} else {
								whyKey = "the two sides of the comparison are not the same key of elements i and j"
							}
						}
					}
				}
				c.R.Check(okKey, owner, "SORTLESS-3 "+desc+" compares the untransformed key", ce.Pos(), "key(i) < key(j) on the element's own text: distinct keys are never tied", whyKey)
			}
			return true
		})
	})
}

// inlineLocals replaces identifiers that are single-assignment locals of body by their defining expression (bounded).
func (c *Ctx) localDefs(body ast.Node) map[types.Object]ast.Expr {
	defs := map[types.Object]ast.Expr{}
	count := map[types.Object]int{}
	ast.Inspect(body, func(x ast.Node) bool {
		switch s := x.(type) {
		case *ast.AssignStmt:
			if len(s.Lhs) == len(s.Rhs) {
				for i, l := range s.Lhs {
					if id, ok := l.(*ast.Ident); ok {
						if o := c.objOf(id); o != nil {
							count[o]++
							defs[o] = s.Rhs[i]
						}
					}
				}
			} else {
				for _, l := range s.Lhs {
					if id, ok := l.(*ast.Ident); ok {
						if o := c.objOf(id); o != nil {
							count[o] += 2
						}
					}
				}
			}
		case *ast.IncDecStmt:
			if o := c.objOf(s.X); o != nil {
				count[o] += 2
			}
		case *ast.RangeStmt:
			for _, e := range []ast.Expr{s.Key, s.Value} {
				if e != nil {
					if o := c.objOf(e); o != nil {
						count[o] += 2
					}
				}
			}
		}
		return true
	})
	for o, n := range count {
		if n != 1 {
			delete(defs, o)
		}
	}
	return defs
}

// sxInl prints e canonically with single-assignment locals inlined.
func (c *Ctx) sxInl(e ast.Node, defs map[types.Object]ast.Expr) string {
	depth := 0
	var sub func(n ast.Node) (string, bool)
	sub = func(n ast.Node) (string, bool) {
		id, ok := n.(*ast.Ident)
		if !ok {
			return "", false
		}
		if d, ok := defs[c.objOf(id)]; ok && depth < 20 {
			depth++
			s := sxWith(d, sub)
			depth--
			return s, true
		}
		return "", false
	}
	return sxWith(e, sub)
}

func ruleSortLess2(c *Ctx) {
	c.R.Rule("SORTLESS-2", 2, "oper.Sort orders operators by strictly decreasing length with a stable sort: the comparator returns len(ops[i].Kind) > len(ops[j].Kind) or the constant false")
	fd := c.FuncDecl("parser/oper", "Sort")
	if fd == nil {
		c.R.Anchor("parser/oper.Sort")
		return
	}
	calls := c.callsTo(fd.Body, "sort.SliceStable", "sort.Slice", "sort.Sort", "sort.Stable")
	if len(calls) != 1 {
		c.R.Bad("parser/oper.Sort", "one sort call", fd.Pos(), "expected exactly one sort call, found %d", len(calls))
		return
	}
	call := calls[0]
	{
		g := c.buildCFG(fd.Body)
		okDom := true
		for _, r := range returnsOf(fd.Body) {
			if !g.dominates(call, r) {
				okDom = false
			}
		}
		c.R.Check(okDom, "parser/oper.Sort", "every return is preceded by the sort", fd.Pos(), "no early return", "Sort can return without sorting (an 'already sorted' fast path must inspect every element, including the last)")
	}
	c.R.Check(c.calleeName(call) == "sort.SliceStable", "parser/oper.Sort", "stable sort", call.Pos(),
		"sort.SliceStable keeps registration order among operators of equal length", "sort is not stable: operators of equal length may be reordered between lexer and parser tables")
	lit, ok := call.Args[1].(*ast.FuncLit)
	if !ok {
		c.R.Unk("parser/oper.Sort", "comparator", call.Pos(), "not a literal")
		return
	}
	var i, j types.Object
	names := []types.Object{}
	for _, f := range lit.Type.Params.List {
		for _, n := range f.Names {
			names = append(names, c.objOf(n))
		}
	}
	if len(names) != 2 {
		c.R.Unk("parser/oper.Sort", "comparator", call.Pos(), "unexpected parameters")
		return
	}
	i, j = names[0], names[1]
	defs := c.localDefs(lit.Body)
	slice := sx(call.Args[0])
	want := "(BinaryExpr (CallExpr Fun:len Args:[(SelectorExpr (IndexExpr " + slice + " Index:" + i.Name() + ") Sel:Kind)]) Op:> Y:(CallExpr Fun:len Args:[(SelectorExpr (IndexExpr " + slice + " Index:" + j.Name() + ") Sel:Kind)]))"
	okAll := true
	why := ""
	n := 0
	// an early `return false` is only sound under a condition that implies equal lengths
	eqLen := "(BinaryExpr (CallExpr Fun:len Args:[(SelectorExpr (IndexExpr " + slice + " Index:" + i.Name() + ") Sel:Kind)]) Op:== Y:(CallExpr Fun:len Args:[(SelectorExpr (IndexExpr " + slice + " Index:" + j.Name() + ") Sel:Kind)]))"
	eqKind := "(BinaryExpr (SelectorExpr (IndexExpr " + slice + " Index:" + i.Name() + ") Sel:Kind) Op:== Y:(SelectorExpr (IndexExpr " + slice + " Index:" + j.Name() + ") Sel:Kind))"
	inspectNoLit(lit.Body, func(x ast.Node) bool {
		is, ok := x.(*ast.IfStmt)
		if !ok {
			return true
		}
		var disj []ast.Expr
		var split func(e ast.Expr)
		split = func(e ast.Expr) {
			if b, ok := unparen(e).(*ast.BinaryExpr); ok && b.Op == token.LOR {
				split(b.X)
				split(b.Y)
				return
			}
			disj = append(disj, e)
		}
		split(is.Cond)
		for _, d := range disj {
			if got := c.sxInl(d, defs); got != eqLen && got != eqKind {
				okAll = false
				why = "`return false` under the condition " + src(d) + ", which does not imply equal lengths: pairs of different length are left unordered (the relation is no longer 'longer first' and not even transitive)"
			}
		}
		return true
	})
	for _, r := range returnsOf(lit.Body) {
		n++
		if len(r.Results) != 1 {
			okAll = false
			continue
		}
		if v := c.constOf(r.Results[0]); v != nil && v.Kind() == constant.Bool && !constant.BoolVal(v) {
			continue
		}
		got := c.sxInl(r.Results[0], defs)
		if got != want {
			okAll = false
			why = "comparator returns " + src(r.Results[0]) + " (normalised: " + got + ")"
		}
	}
	c.R.Check(okAll && n > 0, "parser/oper.Sort", "longer first", lit.Pos(),
		"every return is `false` or len(ops[i].Kind) > len(ops[j].Kind): longer operators are tried first by the lexer", "comparator is not 'longer first': "+why)
}

// ---------- INTGUARD ----------

func ruleIntGuard1(c *Ctx) {
	c.R.Rule("INTGUARD-1", 1, "every call of NumVal.Int() lies in the then-branch of IsInt() on the same receiver, and IsInt is a conjunction of an integrality test and a magnitude bound <= 2^63 (constant-evaluated): no float outside int64 is rendered, keyed or emitted through the int64 conversion")
	// IsInt shape
	fd := c.FuncDecl("val", "NumVal.IsInt")
	if fd == nil {
		c.R.Anchor("val.NumVal.IsInt")
	} else {
		rets := returnsOf(fd.Body)
		okShape := false
		why := "IsInt must be a single return of a conjunction"
		if len(rets) == 1 && len(rets[0].Results) == 1 {
			var conj []ast.Expr
			var split func(e ast.Expr)
			split = func(e ast.Expr) {
				e = unparen(e)
				if b, ok := e.(*ast.BinaryExpr); ok && b.Op == token.LAND {
					split(b.X)
					split(b.Y)
					return
				}
				conj = append(conj, e)
			}
			split(rets[0].Results[0])
			integral, bounded := false, false
			for _, e := range conj {
				b, ok := e.(*ast.BinaryExpr)
				if !ok {
					continue
				}
				if b.Op == token.EQL {
					for _, side := range []ast.Expr{b.X, b.Y} {
						if ce, ok := unparen(side).(*ast.CallExpr); ok {
							if nm := c.calleeName(ce); nm == "math.Trunc" || nm == "math.Floor" || nm == "math.Round" {
								integral = true
							}
						}
					}
				}
				if b.Op == token.LSS || b.Op == token.LEQ {
					if ce, ok := unparen(b.X).(*ast.CallExpr); ok && c.calleeName(ce) == "math.Abs" {
						if v := c.constOf(b.Y); v != nil {
							lim := constant.MakeFromLiteral("9223372036854775808", token.INT, 0)
							cmp := token.LEQ
							if b.Op == token.LEQ {
								cmp = token.LSS
							}
							if constant.Compare(constant.ToFloat(v), cmp, constant.ToFloat(lim)) {
								bounded = true
							} else {
								why = "magnitude bound " + v.String() + " exceeds 2^63"
							}
						}
					}
				}
			}
			okShape = integral && bounded
			if !integral {
				why = "no integrality conjunct (v == math.Trunc(v))"
			} else if !bounded && why == "IsInt must be a single return of a conjunction" {
				why = "no magnitude conjunct (math.Abs(v) < 2^63): int64(v) is implementation-defined for |v| >= 2^63, e.g. string(1e19) renders -9223372036854775808"
			}
		}
		c.R.Check(okShape, "val.NumVal.IsInt", "integral && |v| < 2^63", fd.Pos(), "IsInt implies the value is exactly representable as int64", why)
	}
	// call sites of Int()
	c.eachFile(func(pk *packages.Package, file *ast.File) {
		var stack []ast.Node
		ast.Inspect(file, func(x ast.Node) bool {
			if x == nil {
				stack = stack[:len(stack)-1]
				return false
			}
			stack = append(stack, x)
			ce, ok := x.(*ast.CallExpr)
			if !ok || c.calleeName(ce) != "val.NumVal.Int" {
				return true
			}
			owner := c.ownerOf(pk, file, ce.Pos())
			recv := sx(ce.Fun.(*ast.SelectorExpr).X)
			guarded := false
			for i := len(stack) - 1; i >= 0; i-- {
				is, ok := stack[i].(*ast.IfStmt)
				if !ok || !(is.Body.Pos() <= ce.Pos() && ce.End() <= is.Body.End()) {
					continue
				}
				if g, ok := unparen(is.Cond).(*ast.CallExpr); ok && c.calleeName(g) == "val.NumVal.IsInt" && sx(g.Fun.(*ast.SelectorExpr).X) == recv {
					guarded = true
				}
			}
			c.R.Check(guarded, owner, "call "+src(ce.Fun)+"()", ce.Pos(), "inside `if "+src(ce.Fun.(*ast.SelectorExpr).X)+".IsInt()`", "NumVal.Int() is called without the IsInt() guard on the same receiver")
			return true
		})
	})
}

var intConvFrozen = map[string]string{
	"val.NumVal.Int":            "the conversion itself; every caller is guarded (INTGUARD-1)",
	"fun.MOD_NUM_NUM$init":      "documented: % works on the int64 conversions of its operands",
	"vm.switchThreading":        "OP_MOD_NUM_NUM twin of MOD_NUM_NUM (documented int64 semantics)",
	"vm.OP_MOD_NUM_NUM_Handler": "OP_MOD_NUM_NUM twin of MOD_NUM_NUM (documented int64 semantics)",
}

func ruleIntGuard2(c *Ctx) {
	c.R.Rule("INTGUARD-2", 6, "inventory of float->integer conversions: each is an index conversion whose result only flows into comparisons and a bounds-checked index (any value is safe), an operand of the documented int64 modulo, or NumVal.Int itself; a new conversion is undecided")
	c.eachFile(func(pk *packages.Package, file *ast.File) {
		var stack []ast.Node
		ast.Inspect(file, func(x ast.Node) bool {
			if x == nil {
				stack = stack[:len(stack)-1]
				return false
			}
			stack = append(stack, x)
			ce, ok := x.(*ast.CallExpr)
			if !ok || len(ce.Args) != 1 {
				return true
			}
			tv, ok := c.infoAt(ce).Types[ce.Fun]
			if !ok || !tv.IsType() {
				return true
			}
			to, ok1 := tv.Type.Underlying().(*types.Basic)
			from, ok2 := c.typeOf(ce.Args[0]).Underlying().(*types.Basic)
			if !ok1 || !ok2 || to.Info()&types.IsInteger == 0 || from.Info()&types.IsFloat == 0 || c.constOf(ce.Args[0]) != nil {
				return true
			}
			owner := c.ownerOf(pk, file, ce.Pos())
			var enclFn ast.Node
			for i := len(stack) - 1; i >= 0 && enclFn == nil; i-- {
				switch f := stack[i].(type) {
				case *ast.FuncDecl:
					owner = fnName(short(pk.PkgPath), f) // by nesting, not by position: inlined code keeps foreign positions
					enclFn = f
				case *ast.FuncLit:
					enclFn = f
				}
			}
			desc := "conversion " + src(ce.Fun) + "(float)"
			par := stack[len(stack)-2]
			// guarded like NumVal.Int under NumVal.IsInt, written out: the conversion is control-dependent on an integrality test
			// and a magnitude bound <= 2^63 of the very operand
			if enclFn != nil && to.Kind() == types.Int64 {
				var body *ast.BlockStmt
				switch f := enclFn.(type) {
				case *ast.FuncDecl:
					body = f.Body
				case *ast.FuncLit:
					body = f.Body
				}
				x := src(ce.Args[0])
				integral, bounded := false, false
				var split func(e ast.Expr, pos bool)
				split = func(e ast.Expr, pos bool) {
					e = unparen(e)
					if b, ok := e.(*ast.BinaryExpr); ok && b.Op == token.LAND && pos {
						split(b.X, pos)
						split(b.Y, pos)
						return
					}
					b, ok := e.(*ast.BinaryExpr)
					if !ok || !pos {
						return
					}
					if b.Op == token.EQL {
						for _, pr := range [][2]ast.Expr{{b.X, b.Y}, {b.Y, b.X}} {
							if call, ok := unparen(pr[0]).(*ast.CallExpr); ok && len(call.Args) == 1 && src(pr[1]) == x && src(call.Args[0]) == x {
								if nm := c.calleeName(call); nm == "math.Trunc" || nm == "math.Floor" || nm == "math.Round" {
									integral = true
								}
							}
						}
					}
					if b.Op == token.LSS {
						if call, ok := unparen(b.X).(*ast.CallExpr); ok && c.calleeName(call) == "math.Abs" && len(call.Args) == 1 && src(call.Args[0]) == x {
							if v := c.constOf(b.Y); v != nil && constant.Compare(v, token.LEQ, constant.Shift(constant.MakeInt64(1), token.SHL, 63)) {
								bounded = true
							}
						}
					}
				}
				if body != nil {
					for _, pc := range c.buildCFG(body).condsAt(ce) {
						split(pc.e, pc.pos)
					}
				}
				if integral && bounded {
					c.R.OK(owner, desc+" of an integral value below 2^63", ce.Pos(), "control-dependent on `x == math.Trunc(x) && math.Abs(x) < 2^63` of the converted operand: exact")
					return true
				}
			}
			// operand of %
			if be, ok := par.(*ast.BinaryExpr); ok && be.Op == token.REM {
				if r, ok := intConvFrozen[owner]; ok {
					c.R.OK(owner, desc+" operand of %", ce.Pos(), "frozen: %s", r)
				} else {
					c.R.Unk(owner, desc+" operand of %", ce.Pos(), "new integer modulo on converted floats outside the documented sites")
				}
				return true
			}
			if owner == "val.NumVal.Int" {
				c.R.OK(owner, desc, ce.Pos(), "frozen: %s", intConvFrozen[owner])
				return true
			}
			// idx := int(..): all uses in comparisons, index position, or Assert message args
			if as, ok := par.(*ast.AssignStmt); ok && len(as.Lhs) == 1 && len(as.Rhs) == 1 {
				o := c.objOf(as.Lhs[0])
				var encl ast.Node
				for i := len(stack) - 1; i >= 0; i-- {
					switch stack[i].(type) {
					case *ast.FuncDecl, *ast.FuncLit:
						encl = stack[i]
					}
					if encl != nil {
						break
					}
				}
				okUse := o != nil && encl != nil
				whyNot := ""
				if okUse {
					var st []ast.Node
					ast.Inspect(encl, func(y ast.Node) bool {
						if y == nil {
							st = st[:len(st)-1]
							return false
						}
						st = append(st, y)
						id, isID := y.(*ast.Ident)
						if !isID || c.objOf(id) != o || id == as.Lhs[0] {
							return true
						}
						p := st[len(st)-2]
						// anywhere inside the message arguments of an assertion (its text, however it is formatted)
						for k := len(st) - 2; k >= 0; k-- {
							if ac, ok := st[k].(*ast.CallExpr); ok && c.calleeName(ac) == "util.Assert" && len(ac.Args) > 1 {
								for _, a := range ac.Args[1:] {
									if a.Pos() <= id.Pos() && id.End() <= a.End() {
										return true
									}
								}
							}
						}
						switch pp := p.(type) {
						case *ast.BinaryExpr:
							switch pp.Op {
							case token.LSS, token.LEQ, token.GTR, token.GEQ, token.EQL, token.NEQ:
								return true
							}
						case *ast.IndexExpr:
							if pp.Index == ast.Expr(id) {
								if _, isMap := c.typeOf(pp.X).Underlying().(*types.Map); !isMap {
									return true
								}
							}
						case *ast.CallExpr:
							if c.calleeName(pp) == "util.Assert" && len(pp.Args) > 1 && pp.Args[0] != ast.Expr(id) {
								return true
							}
						}
						okUse = false
						whyNot = "converted value flows into " + src(p)
						return true
					})
				}
				if okUse {
					c.R.OK(owner, desc+" -> "+src(as.Lhs[0]), ce.Pos(), "index conversion: the result is only compared and used as a Go-bounds-checked index")
				} else {
					c.R.Unk(owner, desc+" -> "+src(as.Lhs[0]), ce.Pos(), "converted float escapes comparison/index use: %s", whyNot)
				}
				return true
			}
			c.R.Unk(owner, desc, ce.Pos(), "float->integer conversion in an unrecognised position")
			return true
		})
	})
}

// PAIR-2: every lock is released on every exit, panics included. For each Lock / RLock of a sync.Mutex / RWMutex: the next
// statement is the matching deferred unlock, or the matching unlock follows in the same statement list and nothing between
// the two can panic or return (no calls other than total builtins, no slice/array indexing, no type assertion, no division,
// no return / branch). A lock that stays held after a failed evaluation blocks every later caller: the API no longer
// returns (C12), and whether it does depends on what other goroutines did before (C14).
func rulePair2(c *Ctx) {
	c.R.Rule("PAIR-2", 1, "every mutex acquired in the module is released on every exit, panicking exits included: Lock/RLock is immediately followed by the matching deferred Unlock/RUnlock, or by the matching unlock later in the same statement list with only non-panicking, non-returning statements in between")
	lockKind := func(call *ast.CallExpr) (recv string, kind string) {
		switch c.calleeName(call) {
		case "sync.Mutex.Lock", "sync.RWMutex.Lock":
			kind = "Lock"
		case "sync.RWMutex.RLock":
			kind = "RLock"
		case "sync.Mutex.Unlock", "sync.RWMutex.Unlock":
			kind = "Unlock"
		case "sync.RWMutex.RUnlock":
			kind = "RUnlock"
		default:
			return "", ""
		}
		if se, ok := call.Fun.(*ast.SelectorExpr); ok {
			recv = sx(unparen(se.X))
		}
		return
	}
	match := map[string]string{"Lock": "Unlock", "RLock": "RUnlock"}
	mayPanicOrLeave := func(s ast.Stmt) string {
		why := ""
		ast.Inspect(s, func(x ast.Node) bool {
			switch n := x.(type) {
			case *ast.FuncLit:
				return false
			case *ast.CallExpr:
				if tv, ok := c.infoAt(n).Types[n.Fun]; ok && tv.IsType() {
					return true
				}
				nm := c.calleeName(n)
				if strings.HasPrefix(nm, "builtin.") && panicSafeBuiltin[strings.TrimPrefix(nm, "builtin.")] {
					return true
				}
				why = "call " + src(n.Fun)
			case *ast.IndexExpr:
				if _, isMap := c.typeOf(n.X).Underlying().(*types.Map); !isMap {
					why = "index " + src(n)
				}
			case *ast.SliceExpr:
				why = "slice " + src(n)
			case *ast.TypeAssertExpr:
				why = "type assertion " + src(n)
			case *ast.ReturnStmt:
				why = "return"
			case *ast.BranchStmt:
				why = n.Tok.String()
			case *ast.BinaryExpr:
				if n.Op == token.QUO || n.Op == token.REM {
					why = "division"
				}
			}
			return why == ""
		})
		return why
	}
	n := 0
	c.eachFuncDecl(func(pk *packages.Package, fd *ast.FuncDecl) {
		if fd.Body == nil {
			return
		}
		owner := fnName(short(pk.PkgPath), fd)
		var visit func(list []ast.Stmt)
		visit = func(list []ast.Stmt) {
			for i, s := range list {
				es, ok := s.(*ast.ExprStmt)
				if !ok {
					continue
				}
				call, ok := es.X.(*ast.CallExpr)
				if !ok {
					continue
				}
				recv, kind := lockKind(call)
				if kind != "Lock" && kind != "RLock" {
					continue
				}
				n++
				desc := kind + " of " + src(call.Fun.(*ast.SelectorExpr).X) + " released on every exit"
				// deferred unlock right after
				if i+1 < len(list) {
					if d, ok := list[i+1].(*ast.DeferStmt); ok {
						if r2, k2 := lockKind(d.Call); r2 == recv && k2 == match[kind] {
							c.R.OK(owner, desc, call.Pos(), "the next statement defers the matching "+match[kind])
							continue
						}
					}
				}
				ok2, why := false, "no matching "+match[kind]+" in the same statement list"
				for j := i + 1; j < len(list); j++ {
					if e2, ok := list[j].(*ast.ExprStmt); ok {
						if c2, ok := e2.X.(*ast.CallExpr); ok {
							if r2, k2 := lockKind(c2); r2 == recv && k2 == match[kind] {
								ok2 = true
								break
							}
						}
					}
					if w := mayPanicOrLeave(list[j]); w != "" {
						why = "between the lock and its explicit " + match[kind] + " stands `" + trunc(src(list[j]), 60) + "` (" + w + "), which can panic or leave: the lock then stays held"
						break
					}
				}
				if ok2 {
					c.R.OK(owner, desc, call.Pos(), "explicit "+match[kind]+" in the same list with nothing in between that can panic or leave")
				} else {
					c.R.Bad(owner, desc, call.Pos(), "%s: after a failed evaluation every later caller of this engine blocks forever", why)
				}
			}
		}
		ast.Inspect(fd.Body, func(x ast.Node) bool {
			switch b := x.(type) {
			case *ast.BlockStmt:
				visit(b.List)
			case *ast.CaseClause:
				visit(b.Body)
			}
			return true
		})
	})
	c.R.Check(n >= 1, "timelib", "lock sites found", token.NoPos, "the time-zone cache mutex is seen", "no Lock call found in the module: the scan is not seeing the program")
}

// assertOnly: the body consists of local definitions (`x, ok := f(..)`) and assertions (util.Assert / if-panic) only.
func (c *Ctx) assertOnly(body *ast.BlockStmt) bool {
	for _, st := range body.List {
		switch x := st.(type) {
		case *ast.AssignStmt:
			if x.Tok != token.DEFINE {
				return false
			}
		case *ast.ExprStmt:
			ce, ok := x.X.(*ast.CallExpr)
			if !ok || c.calleeName(ce) != "util.Assert" {
				return false
			}
		case *ast.IfStmt:
			if x.Else != nil || len(x.Body.List) != 1 {
				return false
			}
			es, ok := x.Body.List[0].(*ast.ExprStmt)
			if !ok {
				return false
			}
			ce, ok := es.X.(*ast.CallExpr)
			if !ok || !c.noReturn(ce) {
				return false
			}
		default:
			return false
		}
	}
	return true
}
