package main

import (
	"go/ast"
	"go/token"
	"go/types"
	"reflect"
)

// Inverse closure conversion (part of the normalisation layer, DESIGN 9.4).
//
// A maintainer who turns a function literal into a private struct type with a method
//
//	return func(v interface{}) (*val.Val, error) { ... e ... closure ... env0 ... }
//	  ==>
//	c := &boundClosure{expr: e, closure: closure, env0: env0}
//	return c.call
//
// has written the closure's environment record by hand. The rules that decide what a callable / callback does look for
// function literals and the variables they capture, so before they run every *method value* `R.m` whose method m did not
// exist at the pinned commit and whose receiver R is, visibly, a freshly built record (`T{..}`, `&T{..}`, or a local
// defined once as such and never written through) is replaced by the literal `func(params) results { body[R.f := a_f] }`.
// Method values of the same receiver inside the body are converted with the same record. Anything else the body does
// with its receiver (calls a method on it, passes it on, writes a field) leaves the method value as it is.

type declosurer struct {
	in      *inliner
	methods map[types.Object]*ast.FuncDecl
}

func (in *inliner) newMethods() map[types.Object]*ast.FuncDecl {
	out := map[types.Object]*ast.FuncDecl{}
	p := in.p
	for _, pk := range p.sortedMod() {
		for _, f := range pk.Syntax {
			for _, d := range f.Decls {
				fd, ok := d.(*ast.FuncDecl)
				if !ok || fd.Body == nil || fd.Recv == nil || len(fd.Recv.List) != 1 || len(fd.Recv.List[0].Names) != 1 {
					continue
				}
				if knownFuncs[fnName(short(pk.PkgPath), fd)] || p.isRenamedSuccessor(fd) {
					continue
				}
				if o := pk.TypesInfo.Defs[fd.Name]; o != nil {
					out[o] = fd
					in.pkgOf[o] = pk.Types
				}
			}
		}
	}
	return out
}

// declosure rewrites the method values in host; it reports how many were converted.
func (dc *declosurer) declosure(info *types.Info, pkg *types.Package, host *ast.FuncDecl) int {
	n := 0
	callFuns := map[ast.Expr]bool{}
	ast.Inspect(host.Body, func(x ast.Node) bool {
		if c, ok := x.(*ast.CallExpr); ok {
			callFuns[unparen(c.Fun)] = true
		}
		return true
	})
	var visit func(v reflect.Value)
	visit = func(v reflect.Value) {
		switch v.Kind() {
		case reflect.Ptr:
			if v.IsNil() {
				return
			}
			if _, isObj := v.Interface().(*ast.Object); isObj {
				return
			}
			visit(v.Elem())
		case reflect.Interface:
			if v.IsNil() {
				return
			}
			if e, ok := v.Interface().(ast.Expr); ok && v.CanSet() {
				if se, ok := unparen(e).(*ast.SelectorExpr); ok && !callFuns[se] {
					if lit := dc.convert(info, pkg, host, se, nil, nil); lit != nil {
						v.Set(reflect.ValueOf(ast.Expr(lit)))
						dc.in.p.inlRanges = append(dc.in.p.inlRanges, inlRange{lit.Body.Pos(), lit.Body.End(), host.Pos(), host.End()})
						n++
						return
					}
				}
			}
			visit(v.Elem())
		case reflect.Struct:
			for i := 0; i < v.NumField(); i++ {
				visit(v.Field(i))
			}
		case reflect.Slice:
			for i := 0; i < v.Len(); i++ {
				visit(v.Index(i))
			}
		}
	}
	visit(reflect.ValueOf(host.Body))
	return n
}

// convert builds the literal for the method value se. With rec == nil the receiver record is read off se.X in host;
// otherwise se.X is the receiver variable recvObj of an enclosing converted method and rec is reused.
func (dc *declosurer) convert(info *types.Info, pkg *types.Package, host *ast.FuncDecl, se *ast.SelectorExpr, rec map[*types.Var]ast.Expr, stack []types.Object) *ast.FuncLit {
	sel := info.Selections[se]
	if sel == nil || sel.Kind() != types.MethodVal || len(sel.Index()) != 1 {
		return nil
	}
	m := sel.Obj()
	fd := dc.methods[m]
	if fd == nil || dc.in.pkgOf[m] != pkg {
		return nil
	}
	for _, s := range stack {
		if s == m {
			return nil
		}
	}
	if rec == nil {
		rec = dc.record(info, host, se.X)
		if rec == nil {
			return nil
		}
	}
	recvObj := info.Defs[fd.Recv.List[0].Names[0]]
	if recvObj == nil {
		return nil
	}
	callFuns := map[ast.Expr]bool{}
	ast.Inspect(fd.Body, func(x ast.Node) bool {
		if c, ok := x.(*ast.CallExpr); ok {
			callFuns[unparen(c.Fun)] = true
		}
		return true
	})
	// writes through the receiver are not closure-like
	bad := false
	onRecv := func(e ast.Expr) bool {
		id, ok := unparen(e).(*ast.Ident)
		return ok && info.Uses[id] == recvObj
	}
	ast.Inspect(fd.Body, func(x ast.Node) bool {
		switch s := x.(type) {
		case *ast.AssignStmt:
			for _, l := range s.Lhs {
				if ls, ok := unparen(l).(*ast.SelectorExpr); ok && onRecv(ls.X) {
					bad = true
				}
			}
		case *ast.IncDecStmt:
			if ls, ok := unparen(s.X).(*ast.SelectorExpr); ok && onRecv(ls.X) {
				bad = true
			}
		case *ast.UnaryExpr:
			if s.Op == token.AND {
				if ls, ok := unparen(s.X).(*ast.SelectorExpr); ok && onRecv(ls.X) {
					bad = true
				}
			}
		}
		return !bad
	})
	if bad {
		return nil
	}
	cl := &cloner{info: info, subst: map[types.Object]ast.Expr{}, fresh: map[types.Object]types.Object{}, lo: fd.Pos(), hi: fd.End()}
	failed := false
	cl.sel = func(x *ast.SelectorExpr) (ast.Expr, bool) {
		if !onRecv(x.X) {
			return nil, false
		}
		s := info.Selections[x]
		if s == nil || len(s.Index()) != 1 {
			failed = true
			return nil, false
		}
		switch s.Kind() {
		case types.FieldVal:
			if a, ok := rec[s.Obj().(*types.Var)]; ok {
				return a, true
			}
		case types.MethodVal:
			if !callFuns[x] {
				if lit := dc.convert(info, pkg, host, x, rec, append(stack, m)); lit != nil {
					return lit, true
				}
			}
		}
		failed = true
		return nil, false
	}
	cl.ident = func(id *ast.Ident) {
		if info.Uses[id] == recvObj {
			failed = true
		}
	}
	typ := cl.node(reflect.ValueOf(fd.Type)).Interface().(*ast.FuncType)
	body := cl.node(reflect.ValueOf(fd.Body)).Interface().(*ast.BlockStmt)
	if failed {
		return nil
	}
	lit := &ast.FuncLit{Type: typ, Body: body}
	if tv, ok := info.Types[se]; ok {
		info.Types[lit] = types.TypeAndValue{Type: tv.Type}
	}
	return lit
}

// record reads the field bindings off a receiver expression: a composite literal (possibly behind &), or a local
// variable defined once as one and never written through afterwards. Every bound expression is pure and names only
// variables that are assigned at most once in host (capture by value and by reference then agree).
func (dc *declosurer) record(info *types.Info, host *ast.FuncDecl, r ast.Expr) map[*types.Var]ast.Expr {
	r = unparen(r)
	if id, ok := r.(*ast.Ident); ok {
		o := info.Uses[id]
		if o == nil {
			return nil
		}
		var def ast.Expr
		defs := 0
		written := false
		ast.Inspect(host.Body, func(x ast.Node) bool {
			switch s := x.(type) {
			case *ast.AssignStmt:
				for i, l := range s.Lhs {
					if li, ok := l.(*ast.Ident); ok && (info.Defs[li] == o || info.Uses[li] == o) {
						defs++
						if len(s.Lhs) == len(s.Rhs) {
							def = s.Rhs[i]
						}
					}
					if ls, ok := unparen(l).(*ast.SelectorExpr); ok {
						if li, ok := unparen(ls.X).(*ast.Ident); ok && info.Uses[li] == o {
							written = true
						}
					}
				}
			case *ast.ValueSpec:
				for i, nm := range s.Names {
					if info.Defs[nm] == o {
						defs++
						if len(s.Values) == len(s.Names) {
							def = s.Values[i]
						}
					}
				}
			case *ast.IncDecStmt:
				if ls, ok := unparen(s.X).(*ast.SelectorExpr); ok {
					if li, ok := unparen(ls.X).(*ast.Ident); ok && info.Uses[li] == o {
						written = true
					}
				}
			}
			return true
		})
		if defs != 1 || def == nil || written {
			return nil
		}
		r = unparen(def)
	}
	if u, ok := r.(*ast.UnaryExpr); ok && u.Op == token.AND {
		r = unparen(u.X)
	}
	lit, ok := r.(*ast.CompositeLit)
	if !ok {
		return nil
	}
	tv, ok := info.Types[lit]
	if !ok {
		return nil
	}
	st, ok := tv.Type.Underlying().(*types.Struct)
	if !ok {
		return nil
	}
	rec := map[*types.Var]ast.Expr{}
	for i, el := range lit.Elts {
		var f *types.Var
		val := el
		if kv, ok := el.(*ast.KeyValueExpr); ok {
			k, ok := kv.Key.(*ast.Ident)
			if !ok {
				return nil
			}
			for j := 0; j < st.NumFields(); j++ {
				if st.Field(j).Name() == k.Name {
					f = st.Field(j)
				}
			}
			val = kv.Value
		} else if i < st.NumFields() {
			f = st.Field(i)
		}
		if f == nil || !dc.in.pure(info, val) || !dc.stable(info, host, val) {
			return nil
		}
		rec[f] = val
	}
	return rec
}

// stable: every variable named by e is assigned at most once in host (parameters: never).
func (dc *declosurer) stable(info *types.Info, host *ast.FuncDecl, e ast.Expr) bool {
	ok := true
	ast.Inspect(e, func(x ast.Node) bool {
		id, isId := x.(*ast.Ident)
		if !isId {
			return true
		}
		v, isVar := info.Uses[id].(*types.Var)
		if !isVar || v.IsField() || v.Pkg() == nil || v.Parent() == v.Pkg().Scope() {
			return true
		}
		n := 0
		ast.Inspect(host.Body, func(y ast.Node) bool {
			switch s := y.(type) {
			case *ast.AssignStmt:
				for _, l := range s.Lhs {
					if li, ok := l.(*ast.Ident); ok && (info.Defs[li] == v || info.Uses[li] == v) {
						n++
					}
				}
			case *ast.IncDecStmt:
				if li, ok := s.X.(*ast.Ident); ok && info.Uses[li] == v {
					n += 2
				}
			case *ast.UnaryExpr:
				if li, ok := unparen(s.X).(*ast.Ident); ok && s.Op == token.AND && info.Uses[li] == v {
					n += 2
				}
			case *ast.RangeStmt:
				for _, l := range []ast.Expr{s.Key, s.Value} {
					if li, ok := l.(*ast.Ident); ok && (info.Defs[li] == v || info.Uses[li] == v) {
						n += 2
					}
				}
			}
			return true
		})
		isParam := false
		if host.Type.Params != nil {
			for _, fl := range host.Type.Params.List {
				for _, nm := range fl.Names {
					if info.Defs[nm] == v {
						isParam = true
					}
				}
			}
		}
		if host.Recv != nil {
			for _, fl := range host.Recv.List {
				for _, nm := range fl.Names {
					if info.Defs[nm] == v {
						isParam = true
					}
				}
			}
		}
		if (isParam && n > 0) || n > 1 {
			ok = false
		}
		return true
	})
	return ok
}
