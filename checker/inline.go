package main

import (
	"go/ast"
	"go/token"
	"go/types"
	"os"
	"reflect"
	"sort"
)

// Virtual inlining of helpers that did not exist at the pinned commit (see knownfuncs.go).
//
// A maintainer who extracts part of a long function into a helper, renames an unexported helper, or wraps an expression
// in a small function has not changed behaviour, but has moved code out of the function a rule is anchored on. Before the
// AST/CFG rules run (and after the SSA form has been built from the untouched trees) every call of a same-package function
// that is not in knownFuncs is replaced by a copy of the callee's body when the call has one of these shapes:
//
//	R  return f(args)                       -> { bindings; body }                     (any body: its returns become the caller's)
//	S  f(args)            (statement)       -> { bindings; body }                     (no results; no return except a trailing one)
//	A  x := f(args) / x = f(args) / a, b := -> bindings; body minus its final return; x := <returned expressions>
//	E  ... f(args) ...    (any expression)  -> (returned expression)                  (callee is a single `return <expr>`)
//
// Parameters (and the receiver) are substituted by the argument expressions when those are pure (identifiers, selectors,
// constants, index expressions of such); otherwise they are bound once by `param := arg`. Copies get the callee's
// types.Info entries, so callee resolution, constant evaluation and provenance work on them as on parsed code.
// Recursive helpers, helpers with defer / go / labels / goto, and a second call of the same helper inside one function are
// left alone (the call stays, and the rules treat it like any other unknown call).

type inliner struct {
	p       *Prog
	decls   map[types.Object]*ast.FuncDecl
	pkgOf   map[types.Object]*types.Package
	infoOf  map[types.Object]*types.Info
	crossed map[*types.Info]map[types.Object]bool // callee info already imported into this host info
	done    int
	skipped int
}

type inlRange struct {
	bodyPos, bodyEnd token.Pos // the callee body the copy came from
	hostPos, hostEnd token.Pos // the statement it replaced
}

func (p *Prog) inlineNewHelpers() {
	in := &inliner{p: p, decls: map[types.Object]*ast.FuncDecl{}, pkgOf: map[types.Object]*types.Package{}, infoOf: map[types.Object]*types.Info{}, crossed: map[*types.Info]map[types.Object]bool{}}
	for _, pk := range p.sortedMod() {
		for _, f := range pk.Syntax {
			for _, d := range f.Decls {
				fd, ok := d.(*ast.FuncDecl)
				if !ok || fd.Body == nil || fd.Name.Name == "init" || fd.Name.Name == "main" {
					continue
				}
				if knownFuncs[fnName(short(pk.PkgPath), fd)] || p.isRenamedSuccessor(fd) {
					continue
				}
				if o := pk.TypesInfo.Defs[fd.Name]; o != nil && in.inlinable(fd, pk.TypesInfo) {
					in.decls[o] = fd
					in.pkgOf[o] = pk.Types
					in.infoOf[o] = pk.TypesInfo
				}
			}
		}
	}
	dc := &declosurer{in: in, methods: in.newMethods()}
	if len(dc.methods) > 0 {
		for _, pk := range p.sortedMod() {
			for _, f := range pk.Syntax {
				for _, d := range f.Decls {
					if fd, ok := d.(*ast.FuncDecl); ok && fd.Body != nil {
						in.done += dc.declosure(pk.TypesInfo, pk.Types, fd)
					}
				}
			}
		}
	}
	if len(in.decls) == 0 {
		p.Inlined = in.done
		return
	}
	for round := 0; round < 4; round++ {
		before := in.done
		for _, pk := range p.sortedMod() {
			for _, f := range pk.Syntax {
				for _, d := range f.Decls {
					fd, ok := d.(*ast.FuncDecl)
					if !ok || fd.Body == nil {
						continue
					}
					in.host(pk.TypesInfo, pk.Types, fd)
				}
			}
		}
		if in.done == before {
			break
		}
	}
	p.Inlined = in.done
	in.dissolve()
	var names []string
	for o := range in.decls {
		names = append(names, qual(o))
	}
	sort.Strings(names)
	p.NewFuncs = names
}

func (in *inliner) inlinable(fd *ast.FuncDecl, info *types.Info) bool {
	self := info.Defs[fd.Name]
	ok := true
	ast.Inspect(fd.Body, func(x ast.Node) bool {
		switch n := x.(type) {
		case *ast.DeferStmt, *ast.GoStmt, *ast.LabeledStmt:
			ok = false
		case *ast.BranchStmt:
			if n.Tok == token.GOTO || n.Label != nil {
				ok = false
			}
		case *ast.CallExpr:
			if staticCallee(info, n) == self {
				ok = false
			}
		}
		return ok
	})
	// named results are handled only by expandAssignMulti (results substituted by the assignment's targets)
	for _, fl := range fd.Type.Params.List {
		if _, variadic := fl.Type.(*ast.Ellipsis); variadic {
			ok = false
		}
	}
	return ok
}

// returnsIn lists the return statements of a body that belong to it (not to nested literals).
func returnsIn(body ast.Node) []*ast.ReturnStmt {
	var out []*ast.ReturnStmt
	inspectNoLit(body, func(x ast.Node) bool {
		if r, ok := x.(*ast.ReturnStmt); ok {
			out = append(out, r)
		}
		return true
	})
	return out
}

func (in *inliner) host(info *types.Info, pkg *types.Package, host *ast.FuncDecl) {
	usedHere := map[types.Object]bool{}
	hostObj := info.Defs[host.Name]
	callee := func(call *ast.CallExpr) (*ast.FuncDecl, types.Object) {
		o := staticCallee(info, call)
		if o == nil || o == hostObj {
			return nil, nil
		}
		fd := in.decls[o]
		if fd == nil || (usedHere[o] && os.Getenv("YAE_INL_ONCE") != "") {
			return nil, nil
		}
		if in.pkgOf[o] != pkg {
			// a new exported function of another package (four copies of one rendering merged into util.FmtNum): the rules
			// resolve everything by object, so its body can stand in the caller like that of a same-package helper; the
			// callee's type information is made available under the host's info first, and the copies' under the callee's
			if fd.Recv != nil || !o.Exported() || in.infoOf[o] == nil {
				return nil, nil
			}
			if in.crossed[info] == nil {
				in.crossed[info] = map[types.Object]bool{}
			}
			if !in.crossed[info][o] {
				copyInfo(info, in.infoOf[o], fd)
				in.crossed[info][o] = true
			}
		}
		return fd, o
	}
	// exported: entries of copied nodes are also recorded under the callee package's info (lookups by position land there)
	back := func(o types.Object, stmts []ast.Stmt) {
		if in.pkgOf[o] == pkg || in.infoOf[o] == nil {
			return
		}
		for _, st := range stmts {
			copyInfo(in.infoOf[o], info, st)
		}
	}
	var rewriteList func(list []ast.Stmt) []ast.Stmt
	hoisted := 0
	rewriteList = func(list []ast.Stmt) []ast.Stmt {
		var out []ast.Stmt
		for li := 0; li < len(list); li++ {
			s := list[li]
			// H: a helper with a body of several statements called inside a larger expression
			// (`return Key{kind, util.FmtNum(x)}`): when everything the statement evaluates before the call is pure, the call
			// is hoisted into `tmp := f(args)` in front of the statement, where the assignment shapes below take it apart
			if hoisted < 16 {
				if pre := in.hoist(info, s, callee); pre != nil {
					hoisted++
					list = append(append(append([]ast.Stmt{}, list[:li]...), pre, s), list[li+1:]...)
					s = list[li]
				}
			}
			switch x := s.(type) {
			case *ast.ReturnStmt:
				if len(x.Results) == 1 {
					if call, ok := unparen(x.Results[0]).(*ast.CallExpr); ok {
						if fd, o := callee(call); fd != nil {
							if blk := in.expandStmt(info, call, fd, "R"); blk != nil {
								back(o, blk)
								usedHere[o] = true
								in.p.inlRanges = append(in.p.inlRanges, inlRange{fd.Body.Pos(), fd.Body.End(), host.Pos(), host.End()})
								out = append(out, blk...)
								in.done++
								continue
							}
						}
					}
				}
			case *ast.IfStmt:
				// P: `if err := f(args); err != nil { panic(err) }` -- a checker that reports by error value, turned into a
				// failure at the one place it is called: the body with `return <error>` read as `panic(<error>)`
				if call := panicOnErr(info, x); call != nil {
					if fd, o := callee(call); fd != nil {
						if blk := in.expandPanicking(info, call, fd); blk != nil {
							back(o, blk)
							usedHere[o] = true
							in.p.inlRanges = append(in.p.inlRanges, inlRange{fd.Body.Pos(), fd.Body.End(), host.Pos(), host.End()})
							out = append(out, blk...)
							in.done++
							continue
						}
					}
				}
			case *ast.ExprStmt:
				if call, ok := unparen(x.X).(*ast.CallExpr); ok {
					if fd, o := callee(call); fd != nil && (fd.Type.Results == nil || in.pureReturns(info, fd)) {
						if blk := in.expandStmt(info, call, fd, "S"); blk != nil {
							back(o, blk)
							usedHere[o] = true
							in.p.inlRanges = append(in.p.inlRanges, inlRange{fd.Body.Pos(), fd.Body.End(), host.Pos(), host.End()})
							out = append(out, blk...)
							in.done++
							continue
						}
					}
				}
			case *ast.AssignStmt:
				if len(x.Rhs) == 1 {
					if call, ok := unparen(x.Rhs[0]).(*ast.CallExpr); ok {
						if fd, o := callee(call); fd != nil {
							if pre, rets := in.expandAssign(info, call, fd); rets != nil && len(rets) == len(x.Lhs) {
								back(o, pre)
								for _, r := range rets {
									back(o, []ast.Stmt{&ast.ExprStmt{X: r}})
								}
								usedHere[o] = true
								in.p.inlRanges = append(in.p.inlRanges, inlRange{fd.Body.Pos(), fd.Body.End(), host.Pos(), host.End()})
								out = append(out, pre...)
								x.Rhs = rets
								out = append(out, x)
								in.done++
								continue
							}
							if blk := in.expandAssignMulti(info, x, call, fd); blk != nil {
								back(o, blk)
								usedHere[o] = true
								in.p.inlRanges = append(in.p.inlRanges, inlRange{fd.Body.Pos(), fd.Body.End(), host.Pos(), host.End()})
								out = append(out, blk...)
								in.done++
								continue
							}
						}
					}
				}
			}
			out = append(out, s)
		}
		return out
	}
	ast.Inspect(host.Body, func(n ast.Node) bool {
		switch b := n.(type) {
		case *ast.BlockStmt:
			b.List = rewriteList(b.List)
		case *ast.CaseClause:
			b.Body = rewriteList(b.Body)
		case *ast.CommClause:
			b.Body = rewriteList(b.Body)
		}
		return true
	})
	// E: expression functions, anywhere
	in.exprCalls(info, pkg, host, hostObj)
}

// bindings returns the substitution for pure arguments and binding statements for the others.
func (in *inliner) bindings(info *types.Info, call *ast.CallExpr, fd *ast.FuncDecl) (map[types.Object]ast.Expr, []ast.Stmt, map[types.Object]types.Object, bool) {
	subst := map[types.Object]ast.Expr{}
	fresh := map[types.Object]types.Object{}
	var binds []ast.Stmt
	written := map[types.Object]bool{} // parameters the callee assigns to or takes the address of: never substituted
	ast.Inspect(fd.Body, func(x ast.Node) bool {
		switch n := x.(type) {
		case *ast.AssignStmt:
			for _, l := range n.Lhs {
				if id, ok := unparen(l).(*ast.Ident); ok {
					written[info.Uses[id]] = true
				}
			}
		case *ast.IncDecStmt:
			if id, ok := unparen(n.X).(*ast.Ident); ok {
				written[info.Uses[id]] = true
			}
		case *ast.UnaryExpr:
			if id, ok := unparen(n.X).(*ast.Ident); ok && n.Op == token.AND {
				written[info.Uses[id]] = true
			}
		case *ast.RangeStmt:
			for _, l := range []ast.Expr{n.Key, n.Value} {
				if id, ok := l.(*ast.Ident); ok && n.Tok == token.ASSIGN {
					written[info.Uses[id]] = true
				}
			}
		}
		return true
	})
	bind := func(name *ast.Ident, arg ast.Expr) {
		o := info.Defs[name]
		if o == nil || name.Name == "_" {
			return
		}
		if in.pure(info, arg) && !written[o] {
			subst[o] = arg
			return
		}
		id := &ast.Ident{NamePos: call.Pos(), Name: name.Name}
		// every copy gets variables of its own: two inlined copies of one helper must not share locals
		no := types.Object(types.NewVar(o.Pos(), o.Pkg(), o.Name(), o.Type()))
		fresh[o] = no
		info.Defs[id] = no
		binds = append(binds, &ast.AssignStmt{Lhs: []ast.Expr{id}, TokPos: call.Pos(), Tok: token.DEFINE, Rhs: []ast.Expr{arg}})
	}
	if fd.Recv != nil {
		sel, ok := unparen(call.Fun).(*ast.SelectorExpr)
		if !ok || len(fd.Recv.List) != 1 {
			return nil, nil, nil, false
		}
		if len(fd.Recv.List[0].Names) == 1 {
			bind(fd.Recv.List[0].Names[0], sel.X)
		}
	}
	k := 0
	for _, fl := range fd.Type.Params.List {
		if len(fl.Names) == 0 {
			k++
			continue
		}
		for _, n := range fl.Names {
			if k >= len(call.Args) {
				return nil, nil, nil, false
			}
			bind(n, call.Args[k])
			k++
		}
	}
	if k != len(call.Args) {
		return nil, nil, nil, false
	}
	return subst, binds, fresh, true
}

func (in *inliner) pure(info *types.Info, e ast.Expr) bool {
	switch x := unparen(e).(type) {
	case *ast.Ident, *ast.BasicLit:
		return true
	case *ast.SelectorExpr:
		return in.pure(info, x.X)
	case *ast.IndexExpr:
		return in.pure(info, x.X) && in.pure(info, x.Index)
	case *ast.StarExpr:
		return in.pure(info, x.X)
	case *ast.UnaryExpr:
		return x.Op != token.ARROW && in.pure(info, x.X)
	case *ast.BinaryExpr:
		return in.pure(info, x.X) && in.pure(info, x.Y)
	}
	return false
}

// expandStmt handles shapes R and S.
func (in *inliner) expandStmt(info *types.Info, call *ast.CallExpr, fd *ast.FuncDecl, shape string) []ast.Stmt {
	if len(namedResults(fd, info)) > 0 {
		return nil
	}
	subst, binds, fresh, ok := in.bindings(info, call, fd)
	if !ok {
		return nil
	}
	body := fd.Body.List
	nest := false
	if shape == "S" {
		rets := returnsIn(fd.Body)
		switch {
		case len(rets) == 0:
		case len(rets) == 1 && len(body) > 0 && body[len(body)-1] == ast.Stmt(rets[0]):
			body = body[:len(body)-1]
		default:
			// guard clauses: `if c { ..; return }` at statement-list level become `if c { .. } else { rest }`
			if !guardOnly(body) {
				return nil
			}
			nest = true
		}
	}
	cl := &cloner{info: info, subst: subst, fresh: fresh, lo: fd.Pos(), hi: fd.End()}
	out := append([]ast.Stmt{}, binds...)
	var copied []ast.Stmt
	for _, s := range body {
		copied = append(copied, cl.node(reflect.ValueOf(s)).Interface().(ast.Stmt))
	}
	if nest {
		copied = nestGuards(copied)
	}
	return append(out, copied...)
}

// guardOnly: every return of the list is a bare return that is the last statement of the list itself or of the body of an
// else-less `if` standing directly in the list (recursively) — the guard-clause shape.
func guardOnly(list []ast.Stmt) bool {
	for i, s := range list {
		switch x := s.(type) {
		case *ast.ReturnStmt:
			if len(x.Results) != 0 || i != len(list)-1 {
				return false
			}
		case *ast.IfStmt:
			if len(returnsIn(x)) == 0 {
				continue
			}
			if x.Else != nil || !guardOnly(x.Body.List) {
				return false
			}
		default:
			if len(returnsIn(s)) > 0 {
				return false
			}
		}
	}
	return true
}

// nestGuards rewrites a guard-clause list (already copied) into return-free nested form.
func nestGuards(list []ast.Stmt) []ast.Stmt {
	var out []ast.Stmt
	for i, s := range list {
		switch x := s.(type) {
		case *ast.ReturnStmt:
			return out
		case *ast.IfStmt:
			if len(returnsIn(x)) == 0 {
				out = append(out, s)
				continue
			}
			endsInReturn := false
			if n := len(x.Body.List); n > 0 {
				_, endsInReturn = x.Body.List[n-1].(*ast.ReturnStmt)
			}
			x.Body.List = nestGuards(x.Body.List)
			if endsInReturn {
				rest := nestGuards(list[i+1:])
				if len(rest) > 0 {
					x.Else = &ast.BlockStmt{Lbrace: x.End(), List: rest, Rbrace: x.End()}
				}
				return append(out, x)
			}
			out = append(out, x)
		default:
			out = append(out, s)
		}
	}
	return out
}

// expandAssign handles shape A: body without its single trailing return, and the returned expressions.
func (in *inliner) expandAssign(info *types.Info, call *ast.CallExpr, fd *ast.FuncDecl) ([]ast.Stmt, []ast.Expr) {
	if len(namedResults(fd, info)) > 0 {
		return nil, nil
	}
	rets := returnsIn(fd.Body)
	body := fd.Body.List
	if len(rets) != 1 || len(body) == 0 || body[len(body)-1] != ast.Stmt(rets[0]) || len(rets[0].Results) == 0 {
		return nil, nil
	}
	subst, binds, fresh, ok := in.bindings(info, call, fd)
	if !ok {
		return nil, nil
	}
	cl := &cloner{info: info, subst: subst, fresh: fresh, lo: fd.Pos(), hi: fd.End()}
	out := append([]ast.Stmt{}, binds...)
	for _, s := range body[:len(body)-1] {
		out = append(out, cl.node(reflect.ValueOf(s)).Interface().(ast.Stmt))
	}
	var res []ast.Expr
	for _, r := range rets[0].Results {
		res = append(res, cl.node(reflect.ValueOf(r)).Interface().(ast.Expr))
	}
	return out, res
}

// exprCalls replaces calls of expression functions (`func f(..) T { return <expr> }`) by the expression.
func (in *inliner) exprCalls(info *types.Info, pkg *types.Package, host *ast.FuncDecl, hostObj types.Object) {
	var visit func(v reflect.Value)
	visit = func(v reflect.Value) {
		switch v.Kind() {
		case reflect.Ptr:
			if v.IsNil() {
				return
			}
			if _, isObj := v.Interface().(*ast.Object); isObj {
				return
			}
			visit(v.Elem())
		case reflect.Interface:
			if v.IsNil() {
				return
			}
			if e, ok := v.Interface().(ast.Expr); ok && v.CanSet() {
				if call, ok := unparen(e).(*ast.CallExpr); ok {
					if o := staticCallee(info, call); o != nil && o != hostObj && in.pkgOf[o] == pkg {
						if fd := in.decls[o]; fd != nil && len(fd.Body.List) == 1 && len(namedResults(fd, info)) == 0 {
							if r, ok := fd.Body.List[0].(*ast.ReturnStmt); ok && len(r.Results) == 1 {
								if subst, binds, fresh, ok := in.bindings(info, call, fd); ok && len(binds) == 0 {
									cl := &cloner{info: info, subst: subst, fresh: fresh, lo: fd.Pos(), hi: fd.End()}
									ne := cl.node(reflect.ValueOf(r.Results[0])).Interface().(ast.Expr)
									pe := &ast.ParenExpr{Lparen: call.Pos(), X: ne, Rparen: call.End() - 1}
									if tv, ok := info.Types[call]; ok {
										info.Types[pe] = tv
									}
									v.Set(reflect.ValueOf(pe))
									in.p.inlRanges = append(in.p.inlRanges, inlRange{fd.Body.Pos(), fd.Body.End(), host.Pos(), host.End()})
									in.done++
									visit(reflect.ValueOf(pe))
									return
								}
							}
						}
					}
				}
			}
			visit(v.Elem())
		case reflect.Struct:
			for i := 0; i < v.NumField(); i++ {
				visit(v.Field(i))
			}
		case reflect.Slice:
			for i := 0; i < v.Len(); i++ {
				visit(v.Index(i))
			}
		}
	}
	visit(reflect.ValueOf(host.Body))
}

// cloner deep-copies syntax, substituting parameter identifiers and copying the types.Info entries of every node.
type cloner struct {
	info   *types.Info
	subst  map[types.Object]ast.Expr
	fresh  map[types.Object]types.Object            // callee-local variable -> this copy's variable
	lo, hi token.Pos                                // the callee declaration
	sel    func(*ast.SelectorExpr) (ast.Expr, bool) // optional: replacement for a selector expression (declosure.go)
	ident  func(*ast.Ident)                         // optional: told about every identifier copied as such
}

// renew maps a variable declared inside the callee to a variable of this copy (created on first sight).
func (cl *cloner) renew(o types.Object) types.Object {
	if o == nil || cl.fresh == nil {
		return o
	}
	if n, ok := cl.fresh[o]; ok {
		return n
	}
	v, ok := o.(*types.Var)
	if !ok || v.IsField() || o.Pos() < cl.lo || o.Pos() > cl.hi {
		return o
	}
	n := types.Object(types.NewVar(o.Pos(), o.Pkg(), o.Name(), o.Type()))
	cl.fresh[o] = n
	return n
}

func (cl *cloner) node(v reflect.Value) reflect.Value {
	switch v.Kind() {
	case reflect.Interface:
		if v.IsNil() {
			return v
		}
		nv := cl.node(v.Elem())
		out := reflect.New(v.Type()).Elem()
		out.Set(nv)
		return out
	case reflect.Ptr:
		if v.IsNil() {
			return v
		}
		switch n := v.Interface().(type) {
		case *ast.Object, *ast.Scope:
			return reflect.Zero(v.Type())
		case *ast.SelectorExpr:
			if cl.sel != nil {
				if a, ok := cl.sel(n); ok {
					return reflect.ValueOf(a)
				}
			}
		case *ast.Ident:
			if o := cl.info.Uses[n]; o != nil {
				if a, ok := cl.subst[o]; ok {
					return reflect.ValueOf(a)
				}
			}
			if cl.ident != nil {
				cl.ident(n)
			}
			id := &ast.Ident{NamePos: n.NamePos, Name: n.Name}
			if o := cl.info.Uses[n]; o != nil {
				cl.info.Uses[id] = cl.renew(o)
			}
			if o := cl.info.Defs[n]; o != nil {
				cl.info.Defs[id] = cl.renew(o)
			}
			if tv, ok := cl.info.Types[n]; ok {
				cl.info.Types[id] = tv
			}
			return reflect.ValueOf(id)
		}
		nv := reflect.New(v.Elem().Type())
		cl.fill(nv.Elem(), v.Elem())
		// info entries keyed by node
		if oe, ok := v.Interface().(ast.Expr); ok {
			ne := nv.Interface().(ast.Expr)
			if tv, ok := cl.info.Types[oe]; ok {
				cl.info.Types[ne] = tv
			}
			if se, ok := oe.(*ast.SelectorExpr); ok {
				if s, ok := cl.info.Selections[se]; ok {
					cl.info.Selections[ne.(*ast.SelectorExpr)] = s
				}
			}
		}
		if on, ok := v.Interface().(ast.Node); ok {
			if o, ok := cl.info.Implicits[on]; ok {
				cl.info.Implicits[nv.Interface().(ast.Node)] = cl.renew(o)
			}
		}
		return nv
	case reflect.Slice:
		if v.IsNil() {
			return v
		}
		out := reflect.MakeSlice(v.Type(), v.Len(), v.Len())
		for i := 0; i < v.Len(); i++ {
			out.Index(i).Set(cl.node(v.Index(i)))
		}
		return out
	case reflect.Struct:
		out := reflect.New(v.Type()).Elem()
		cl.fill(out, v)
		return out
	}
	return v
}

func (cl *cloner) fill(dst, src reflect.Value) {
	for i := 0; i < src.NumField(); i++ {
		f := src.Field(i)
		if !dst.Field(i).CanSet() {
			continue
		}
		switch f.Kind() {
		case reflect.Interface, reflect.Ptr, reflect.Slice, reflect.Struct:
			nv := cl.node(f)
			if nv.IsValid() && !nv.Type().AssignableTo(dst.Field(i).Type()) {
				// a substituted expression does not fit a field of static type *ast.Ident: keep a plain copy
				save := cl.subst
				cl.subst = nil
				nv = cl.node(f)
				cl.subst = save
			}
			dst.Field(i).Set(nv)
		default:
			dst.Field(i).Set(f)
		}
	}
}

func namedResults(fd *ast.FuncDecl, info *types.Info) []types.Object {
	var out []types.Object
	if fd.Type.Results == nil {
		return nil
	}
	for _, fl := range fd.Type.Results.List {
		for _, n := range fl.Names {
			out = append(out, info.Defs[n])
		}
	}
	return out
}

// expandAssignMulti handles `a, b := f(args)` / `a, b = f(args)` / `a := f(args)` where f has several returns in guard-clause
// shape (each `return` is the last statement of the body or of an else-less `if` standing directly in a statement list):
// every `return x, y` becomes `a, b = x, y` and the statements after a returning `if` move into its else branch. Named
// results of f are the assignment's targets themselves.
func (in *inliner) expandAssignMulti(info *types.Info, as *ast.AssignStmt, call *ast.CallExpr, fd *ast.FuncDecl) []ast.Stmt {
	named := namedResults(fd, info)
	nres := 0
	if fd.Type.Results != nil {
		for _, fl := range fd.Type.Results.List {
			if len(fl.Names) == 0 {
				nres++
			} else {
				nres += len(fl.Names)
			}
		}
	}
	if nres == 0 || nres != len(as.Lhs) || (len(named) != 0 && len(named) != nres) {
		return nil
	}
	var targets []*ast.Ident
	for _, l := range as.Lhs {
		id, ok := l.(*ast.Ident)
		if !ok {
			return nil
		}
		targets = append(targets, id)
	}
	if !guardOnlyVals(fd.Body.List, nres, len(named) > 0) {
		return nil
	}
	subst, binds, fresh, ok := in.bindings(info, call, fd)
	if !ok {
		return nil
	}
	for i, o := range named {
		if o != nil && targets[i].Name != "_" {
			subst[o] = targets[i]
		}
	}
	cl := &cloner{info: info, subst: subst, fresh: fresh, lo: fd.Pos(), hi: fd.End()}
	var copied []ast.Stmt
	for _, s := range fd.Body.List {
		copied = append(copied, cl.node(reflect.ValueOf(s)).Interface().(ast.Stmt))
	}
	mkTarget := func(i int) ast.Expr {
		id := &ast.Ident{NamePos: targets[i].NamePos, Name: targets[i].Name}
		if o := info.Defs[targets[i]]; o != nil {
			info.Uses[id] = o
		} else if o := info.Uses[targets[i]]; o != nil {
			info.Uses[id] = o
		}
		if tv, ok := info.Types[targets[i]]; ok {
			info.Types[id] = tv
		}
		return id
	}
	mkAssign := func(x *ast.ReturnStmt) ast.Stmt {
		// drop `a = a` produced by returning a named result
		var lhs, rhs []ast.Expr
		for k, r := range x.Results {
			if id, ok := unparen(r).(*ast.Ident); ok && info.Uses[id] != nil && (info.Uses[id] == info.Defs[targets[k]] || info.Uses[id] == info.Uses[targets[k]]) {
				continue
			}
			if targets[k].Name == "_" {
				continue
			}
			lhs = append(lhs, mkTarget(k))
			rhs = append(rhs, r)
		}
		if len(lhs) == 0 {
			return nil
		}
		return &ast.AssignStmt{Lhs: lhs, TokPos: x.Pos(), Tok: token.ASSIGN, Rhs: rhs}
	}
	// terminates: every path through the statement ends in a return
	var terminates func(s ast.Stmt) bool
	var listTerminates func(list []ast.Stmt) bool
	listTerminates = func(list []ast.Stmt) bool {
		return len(list) > 0 && terminates(list[len(list)-1])
	}
	terminates = func(s ast.Stmt) bool {
		switch x := s.(type) {
		case *ast.ReturnStmt:
			return true
		case *ast.BlockStmt:
			return listTerminates(x.List)
		case *ast.IfStmt:
			if x.Else == nil || !listTerminates(x.Body.List) {
				return false
			}
			return terminates(x.Else)
		case *ast.SwitchStmt, *ast.TypeSwitchStmt:
			var body *ast.BlockStmt
			if sw, ok := x.(*ast.SwitchStmt); ok {
				body = sw.Body
			} else {
				body = x.(*ast.TypeSwitchStmt).Body
			}
			hasDefault := false
			for _, cs := range body.List {
				cc := cs.(*ast.CaseClause)
				if cc.List == nil {
					hasDefault = true
				}
				if !listTerminates(cc.Body) {
					return false
				}
			}
			return hasDefault
		}
		return false
	}
	var conv func(list []ast.Stmt) []ast.Stmt
	conv = func(list []ast.Stmt) []ast.Stmt {
		var out []ast.Stmt
		for i, s := range list {
			switch x := s.(type) {
			case *ast.ReturnStmt:
				if len(x.Results) == nres {
					if a := mkAssign(x); a != nil {
						out = append(out, a)
					}
				}
				return out
			case *ast.BlockStmt:
				if len(returnsIn(x)) == 0 {
					out = append(out, s)
					continue
				}
				x.List = conv(x.List)
				out = append(out, x)
				if terminates(s) {
					return out
				}
			case *ast.IfStmt:
				if len(returnsIn(x)) == 0 {
					out = append(out, s)
					continue
				}
				thenTerm := listTerminates(x.Body.List)
				x.Body.List = conv(x.Body.List)
				switch e := x.Else.(type) {
				case *ast.BlockStmt:
					et := listTerminates(e.List)
					e.List = conv(e.List)
					if thenTerm && et {
						return append(out, x)
					}
					// one branch returned, the other falls through to the rest: the rest belongs to the falling branch
					rest := conv(list[i+1:])
					if thenTerm {
						e.List = append(e.List, rest...)
					} else if et {
						x.Body.List = append(x.Body.List, rest...)
					} else {
						out = append(out, x)
						continue
					}
					return append(out, x)
				case *ast.IfStmt:
					wrapped := conv([]ast.Stmt{e})
					x.Else = &ast.BlockStmt{Lbrace: e.Pos(), List: wrapped, Rbrace: e.End()}
					if thenTerm && terminates(e) {
						return append(out, x)
					}
					out = append(out, x)
					continue
				case nil:
					if thenTerm {
						rest := conv(list[i+1:])
						if len(rest) > 0 {
							x.Else = &ast.BlockStmt{Lbrace: x.End(), List: rest, Rbrace: x.End()}
						}
						return append(out, x)
					}
					out = append(out, x)
				}
			case *ast.SwitchStmt:
				if len(returnsIn(x)) > 0 {
					for _, cs := range x.Body.List {
						cc := cs.(*ast.CaseClause)
						cc.Body = conv(cc.Body)
					}
				}
				out = append(out, x)
				if terminates(s) {
					return out
				}
			case *ast.TypeSwitchStmt:
				if len(returnsIn(x)) > 0 {
					for _, cs := range x.Body.List {
						cc := cs.(*ast.CaseClause)
						cc.Body = conv(cc.Body)
					}
				}
				out = append(out, x)
				if terminates(s) {
					return out
				}
			default:
				out = append(out, s)
			}
		}
		return out
	}
	res := append([]ast.Stmt{}, binds...)
	return append(res, conv(copied)...)
}

// guardOnlyVals: every return of the list has n results (or is bare with named results) and stands in a position the
// rewriting of expandAssignMulti understands: last statement of a list; inside an `if` (with or without else), a block, or a
// case of a (type) switch at statement-list level, where a branching statement that returns on SOME paths only is either an
// else-less `if` whose body ends in the return (guard clause) or is followed by nothing that a returning path must skip.
func guardOnlyVals(list []ast.Stmt, n int, named bool) bool {
	okRet := func(x *ast.ReturnStmt) bool { return len(x.Results) == n || (named && len(x.Results) == 0) }
	var term func(s ast.Stmt) bool
	var listTerm func(l []ast.Stmt) bool
	listTerm = func(l []ast.Stmt) bool { return len(l) > 0 && term(l[len(l)-1]) }
	term = func(s ast.Stmt) bool {
		switch x := s.(type) {
		case *ast.ReturnStmt:
			return true
		case *ast.BlockStmt:
			return listTerm(x.List)
		case *ast.IfStmt:
			return x.Else != nil && listTerm(x.Body.List) && term(x.Else)
		case *ast.SwitchStmt:
			def := false
			for _, cs := range x.Body.List {
				cc := cs.(*ast.CaseClause)
				if cc.List == nil {
					def = true
				}
				if !listTerm(cc.Body) {
					return false
				}
			}
			return def
		case *ast.TypeSwitchStmt:
			def := false
			for _, cs := range x.Body.List {
				cc := cs.(*ast.CaseClause)
				if cc.List == nil {
					def = true
				}
				if !listTerm(cc.Body) {
					return false
				}
			}
			return def
		}
		return false
	}
	var ok func(l []ast.Stmt) bool
	ok = func(l []ast.Stmt) bool {
		for i, s := range l {
			last := i == len(l)-1
			switch x := s.(type) {
			case *ast.ReturnStmt:
				if !last || !okRet(x) {
					return false
				}
			case *ast.BlockStmt:
				if len(returnsIn(x)) == 0 {
					continue
				}
				if !ok(x.List) || (!last && !term(s)) {
					return false
				}
			case *ast.IfStmt:
				if len(returnsIn(x)) == 0 {
					continue
				}
				if !ok(x.Body.List) {
					return false
				}
				switch e := x.Else.(type) {
				case nil:
					// guard clause (body ends in return) or tail position
					if !listTerm(x.Body.List) && !last {
						return false
					}
				case *ast.BlockStmt:
					if !ok(e.List) {
						return false
					}
					if !last && !listTerm(x.Body.List) && !listTerm(e.List) {
						return false
					}
				case *ast.IfStmt:
					if !ok([]ast.Stmt{e}) || (!last && !term(s)) {
						return false
					}
				}
			case *ast.SwitchStmt:
				if len(returnsIn(x)) == 0 {
					continue
				}
				for _, cs := range x.Body.List {
					if !ok(cs.(*ast.CaseClause).Body) {
						return false
					}
				}
				if !last && !term(s) {
					return false
				}
			case *ast.TypeSwitchStmt:
				if len(returnsIn(x)) == 0 {
					continue
				}
				for _, cs := range x.Body.List {
					if !ok(cs.(*ast.CaseClause).Body) {
						return false
					}
				}
				if !last && !term(s) {
					return false
				}
			default:
				if len(returnsIn(s)) > 0 {
					return false // a return inside a loop, select, labelled statement
				}
			}
		}
		return true
	}
	return ok(list)
}

// pureReturns: the function has results, but every return only hands back side-effect-free expressions (a local, a
// parameter, a constant) — so a call whose results are discarded can be inlined as a statement by dropping them.
func (in *inliner) pureReturns(info *types.Info, fd *ast.FuncDecl) bool {
	if len(namedResults(fd, info)) > 0 {
		return false
	}
	rets := returnsIn(fd.Body)
	if len(rets) != 1 || len(fd.Body.List) == 0 || fd.Body.List[len(fd.Body.List)-1] != ast.Stmt(rets[0]) {
		return false
	}
	for _, r := range rets[0].Results {
		if !in.pure(info, r) {
			return false
		}
	}
	return true
}

// panicOnErr recognises `if e := f(args); e != nil { panic(e) }` and returns the call.
func panicOnErr(info *types.Info, is *ast.IfStmt) *ast.CallExpr {
	as, ok := is.Init.(*ast.AssignStmt)
	if !ok || is.Else != nil || len(as.Lhs) != 1 || len(as.Rhs) != 1 || len(is.Body.List) != 1 {
		return nil
	}
	id, ok := as.Lhs[0].(*ast.Ident)
	if !ok {
		return nil
	}
	o := info.Defs[id]
	if o == nil {
		o = info.Uses[id]
	}
	call, ok := unparen(as.Rhs[0]).(*ast.CallExpr)
	if !ok || o == nil {
		return nil
	}
	be, ok := unparen(is.Cond).(*ast.BinaryExpr)
	if !ok || be.Op != token.NEQ {
		return nil
	}
	xi, ok1 := unparen(be.X).(*ast.Ident)
	yi, ok2 := unparen(be.Y).(*ast.Ident)
	if !ok1 || !ok2 || info.Uses[xi] != o || yi.Name != "nil" {
		return nil
	}
	es, ok := is.Body.List[0].(*ast.ExprStmt)
	if !ok {
		return nil
	}
	pc, ok := es.X.(*ast.CallExpr)
	if !ok || len(pc.Args) != 1 {
		return nil
	}
	pf, ok := pc.Fun.(*ast.Ident)
	if !ok || pf.Name != "panic" || info.Uses[pf] != types.Universe.Lookup("panic") {
		return nil
	}
	ai, ok := unparen(pc.Args[0]).(*ast.Ident)
	if !ok || info.Uses[ai] != o {
		return nil
	}
	return call
}

// expandPanicking copies the body of an error-returning checker (single result; every return is `return nil` or returns a
// freshly made error: fmt.Errorf / errors.New) with `return <error>` replaced by `panic(<error>)` and `return nil` by a bare
// return, which the guard-clause nesting then removes.
func (in *inliner) expandPanicking(info *types.Info, call *ast.CallExpr, fd *ast.FuncDecl) []ast.Stmt {
	if len(namedResults(fd, info)) > 0 || fd.Type.Results == nil || len(fd.Type.Results.List) != 1 {
		return nil
	}
	if tv, ok := info.Types[fd.Type.Results.List[0].Type]; !ok || tv.Type.String() != "error" {
		return nil
	}
	for _, r := range returnsIn(fd.Body) {
		if len(r.Results) != 1 {
			return nil
		}
		if id, ok := unparen(r.Results[0]).(*ast.Ident); ok && id.Name == "nil" {
			continue
		}
		ce, ok := unparen(r.Results[0]).(*ast.CallExpr)
		if !ok {
			return nil
		}
		if fn, ok := staticCallee(info, ce).(*types.Func); !ok || fn.Pkg() == nil || !(fn.Pkg().Path() == "fmt" && fn.Name() == "Errorf" || fn.Pkg().Path() == "errors" && fn.Name() == "New") {
			return nil
		}
	}
	subst, binds, fresh, ok := in.bindings(info, call, fd)
	if !ok {
		return nil
	}
	cl := &cloner{info: info, subst: subst, fresh: fresh, lo: fd.Pos(), hi: fd.End()}
	var copied []ast.Stmt
	for _, st := range fd.Body.List {
		copied = append(copied, cl.node(reflect.ValueOf(st)).Interface().(ast.Stmt))
	}
	var rewrite func(list []ast.Stmt) []ast.Stmt
	rewrite = func(list []ast.Stmt) []ast.Stmt {
		out := make([]ast.Stmt, 0, len(list))
		for _, st := range list {
			switch x := st.(type) {
			case *ast.ReturnStmt:
				if id, ok := unparen(x.Results[0]).(*ast.Ident); ok && id.Name == "nil" {
					out = append(out, &ast.ReturnStmt{Return: x.Return})
					continue
				}
				pf := &ast.Ident{NamePos: x.Pos(), Name: "panic"}
				info.Uses[pf] = types.Universe.Lookup("panic")
				pc := &ast.CallExpr{Fun: pf, Lparen: x.Pos(), Args: []ast.Expr{x.Results[0]}, Rparen: x.End()}
				info.Types[pc] = types.TypeAndValue{Type: types.NewTuple()}
				out = append(out, &ast.ExprStmt{X: pc})
				continue
			case *ast.BlockStmt:
				x.List = rewrite(x.List)
			case *ast.IfStmt:
				x.Body.List = rewrite(x.Body.List)
				switch e := x.Else.(type) {
				case *ast.BlockStmt:
					e.List = rewrite(e.List)
				case *ast.IfStmt:
					x.Else = rewrite([]ast.Stmt{e})[0]
				}
			case *ast.SwitchStmt:
				for _, cc := range x.Body.List {
					cc.(*ast.CaseClause).Body = rewrite(cc.(*ast.CaseClause).Body)
				}
			case *ast.TypeSwitchStmt:
				for _, cc := range x.Body.List {
					cc.(*ast.CaseClause).Body = rewrite(cc.(*ast.CaseClause).Body)
				}
			case *ast.ForStmt, *ast.RangeStmt:
				if len(returnsIn(st)) > 0 {
					return nil
				}
			}
			out = append(out, st)
		}
		return out
	}
	copied = rewrite(copied)
	if copied == nil || !guardOnly(copied) {
		return nil
	}
	return append(append([]ast.Stmt{}, binds...), nestGuards(copied)...)
}

// dissolve removes from the trees the rules see every unexported helper (new since the pinned commit) that no longer has
// a reference anywhere after inlining: its body now stands, with the caller's facts around it, in every host that used it.
// Judging the free-standing copy as well would ask of it what only holds in context (callByValue without the `!fun.Lazy`
// test that selected it). Helpers that are still called or taken as values somewhere stay.
func (in *inliner) dissolve() {
	p := in.p
	if in.done == 0 {
		return
	}
	for round := 0; round < 3; round++ {
		refs := map[types.Object]int{}
		for _, pk := range p.sortedMod() {
			for _, f := range pk.Syntax {
				for _, d := range f.Decls {
					fd, isFn := d.(*ast.FuncDecl)
					ast.Inspect(d, func(x ast.Node) bool {
						if id, ok := x.(*ast.Ident); ok {
							if o := pk.TypesInfo.Uses[id]; o != nil {
								if _, isNew := in.decls[o]; isNew {
									// a helper's reference to itself does not keep it alive
									if !(isFn && pk.TypesInfo.Defs[fd.Name] == o) {
										refs[o]++
									}
								}
							}
						}
						return true
					})
				}
			}
		}
		removed := 0
		for _, pk := range p.sortedMod() {
			for _, f := range pk.Syntax {
				kept := f.Decls[:0:0]
				for _, d := range f.Decls {
					if fd, ok := d.(*ast.FuncDecl); ok {
						o := pk.TypesInfo.Defs[fd.Name]
						if _, isNew := in.decls[o]; isNew && o != nil && !o.Exported() && refs[o] == 0 {
							removed++
							p.Dissolved = append(p.Dissolved, qual(o))
							continue
						}
					}
					kept = append(kept, d)
				}
				f.Decls = kept
			}
		}
		if removed == 0 {
			break
		}
	}
	sort.Strings(p.Dissolved)
}

// copyInfo copies the types.Info entries of every node under root from src to dst (where dst has none).
func copyInfo(dst, src *types.Info, root ast.Node) {
	ast.Inspect(root, func(x ast.Node) bool {
		if x == nil {
			return true
		}
		switch n := x.(type) {
		case *ast.Ident:
			if o, ok := src.Uses[n]; ok {
				if _, has := dst.Uses[n]; !has {
					dst.Uses[n] = o
				}
			}
			if o, ok := src.Defs[n]; ok {
				if _, has := dst.Defs[n]; !has {
					dst.Defs[n] = o
				}
			}
		case *ast.SelectorExpr:
			if sl, ok := src.Selections[n]; ok {
				if _, has := dst.Selections[n]; !has {
					dst.Selections[n] = sl
				}
			}
		}
		if e, ok := x.(ast.Expr); ok {
			if tv, ok := src.Types[e]; ok {
				if _, has := dst.Types[e]; !has {
					dst.Types[e] = tv
				}
			}
		}
		if o, ok := src.Implicits[x]; ok {
			if _, has := dst.Implicits[x]; !has {
				dst.Implicits[x] = o
			}
		}
		return true
	})
}

// hoist looks, in evaluation order, for the first call inside the expressions of st (a return, an assignment, an
// expression statement or an if condition) whose callee is an inlinable helper with exactly one result and a body that is
// not a single return expression; it succeeds only when every expression evaluated before that call is pure. The call is
// replaced by a fresh variable and the defining assignment is returned.
func (in *inliner) hoist(info *types.Info, st ast.Stmt, callee func(*ast.CallExpr) (*ast.FuncDecl, types.Object)) ast.Stmt {
	var roots []*ast.Expr
	switch x := st.(type) {
	case *ast.ReturnStmt:
		for i := range x.Results {
			roots = append(roots, &x.Results[i])
		}
	case *ast.AssignStmt:
		if x.Tok != token.ASSIGN && x.Tok != token.DEFINE {
			return nil
		}
		for _, l := range x.Lhs {
			if !in.pure(info, l) {
				return nil
			}
		}
		for i := range x.Rhs {
			roots = append(roots, &x.Rhs[i])
		}
	case *ast.ExprStmt:
		roots = append(roots, &x.X)
	case *ast.IfStmt:
		if x.Init != nil {
			return nil
		}
		roots = append(roots, &x.Cond)
	default:
		return nil
	}
	// a root that is itself the call is what the R / S / A shapes handle
	for _, r := range roots {
		if _, isCall := unparen(*r).(*ast.CallExpr); isCall && len(roots) == 1 {
			if fd, _ := callee(unparen(*r).(*ast.CallExpr)); fd != nil {
				return nil
			}
		}
	}
	var found *ast.Expr
	blocked := false
	var walk func(slot *ast.Expr)
	walk = func(slot *ast.Expr) {
		if found != nil || blocked || *slot == nil {
			return
		}
		switch e := (*slot).(type) {
		case *ast.ParenExpr:
			walk(&e.X)
		case *ast.CallExpr:
			// operands first (Go evaluates the function value and the arguments before the call)
			if _, isLit := e.Fun.(*ast.FuncLit); isLit {
				blocked = true
				return
			}
			if se, ok := e.Fun.(*ast.SelectorExpr); ok {
				walk(&se.X)
			}
			for i := range e.Args {
				walk(&e.Args[i])
			}
			if found != nil || blocked {
				return
			}
			if tv, ok := info.Types[e.Fun]; ok && tv.IsType() {
				return // a conversion
			}
			if fd, _ := callee(e); fd != nil && fd.Type.Results != nil && len(fd.Type.Results.List) == 1 && len(fd.Type.Results.List[0].Names) <= 1 {
				single := len(fd.Body.List) == 1
				if single {
					_, single = fd.Body.List[0].(*ast.ReturnStmt)
				}
				if !single {
					found = slot
					return
				}
				return // an expression function: shape E
			}
			blocked = true // some other call happens first
		case *ast.BinaryExpr:
			if e.Op == token.LAND || e.Op == token.LOR {
				walk(&e.X)
				if found == nil {
					blocked = true // the right operand is evaluated conditionally
				}
				return
			}
			walk(&e.X)
			walk(&e.Y)
		case *ast.UnaryExpr:
			if e.Op == token.ARROW {
				blocked = true
				return
			}
			walk(&e.X)
		case *ast.StarExpr:
			walk(&e.X)
		case *ast.SelectorExpr:
			walk(&e.X)
		case *ast.IndexExpr:
			walk(&e.X)
			walk(&e.Index)
		case *ast.SliceExpr:
			walk(&e.X)
			if e.Low != nil {
				walk(&e.Low)
			}
			if e.High != nil {
				walk(&e.High)
			}
		case *ast.CompositeLit:
			for i := range e.Elts {
				if kv, ok := e.Elts[i].(*ast.KeyValueExpr); ok {
					walk(&kv.Value)
				} else {
					walk(&e.Elts[i])
				}
			}
		case *ast.KeyValueExpr:
			walk(&e.Value)
		case *ast.TypeAssertExpr:
			walk(&e.X)
		case *ast.FuncLit:
			// not evaluated here
		}
	}
	for _, r := range roots {
		walk(r)
	}
	if found == nil {
		return nil
	}
	call := (*found).(*ast.CallExpr)
	tv, ok := info.Types[call]
	if !ok || tv.Type == nil {
		return nil
	}
	if _, isTuple := tv.Type.(*types.Tuple); isTuple {
		return nil
	}
	v := types.NewVar(call.Pos(), nil, "hoisted", tv.Type)
	def := &ast.Ident{NamePos: call.Pos(), Name: "hoisted"}
	use := &ast.Ident{NamePos: call.Pos(), Name: "hoisted"}
	info.Defs[def] = v
	info.Uses[use] = v
	info.Types[use] = types.TypeAndValue{Type: tv.Type}
	*found = use
	return &ast.AssignStmt{Lhs: []ast.Expr{def}, TokPos: call.Pos(), Tok: token.DEFINE, Rhs: []ast.Expr{call}}
}
