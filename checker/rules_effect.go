package main

import (
	"fmt"
	"go/ast"
	"go/constant"
	"go/token"
	"go/types"
	"sort"
	"strconv"
	"strings"

	"golang.org/x/tools/go/callgraph"
	"golang.org/x/tools/go/ssa"
)

// SSA-based effect rules: EFFECT-2 (process-global state), EFFECT-3 (caller-owned environments, AST),
// EFFECT-5 (per-invocation VM, immutable program), EFFECT-6 (value payloads are written only when fresh),
// ENGINE (engine state is written only behind the init flag).

func init() {
	reg("EFFECT-2", ruleEffect2)
	reg("EFFECT-3", ruleEffect3)
	reg("EFFECT-5", ruleEffect5)
	reg("EFFECT-6", ruleEffect6)
	reg("ENGINE", ruleEngine)
}

// ---------- roots ----------

type rootKind int

const (
	rFresh rootKind = iota
	rParam
	rFreeVar
	rGlobal
	rField   // loaded from a field of a foreign object
	rCallRet // result of a non-constructor call
	rUnknown
)

type root struct {
	kind rootKind
	desc string
	idx  int          // param index
	obj  types.Object // global / field object
	fn   *ssa.Function
	eng  bool // reached through a field of the engine (yae.Expr): state shared by every compilation/invocation on that engine
}

var freshCalls = map[string]bool{
	"val.Num": true, "val.Str": true, "val.Time": true, "val.List": true, "val.Map": true, "val.Obj": true, "val.Fun": true, "val.LazyFun": true,
	"val.Nothing": true, "val.Just": true, "types.List": true, "types.Map": true, "types.Obj": true, "types.Fun": true, "types.Maybe": true,
	"types.Tuple": true, "types.TyVar": true, "types.NewEnv": true, "val.NewEnv": true, "types.Env.Derive": true, "val.Env.Derive": true,
	"types.Env.Inherit": true, "val.Env.Inherit": true, "vm.NewVM": true, "vm.newStack": true, "vm.NewCompile": true, "debug.NewRecord": true,
	"fun.valSetOf": true, "fun.union": true, "fun.intersect": true, "fun.diff": true, "conv.valOf": true, "conv.valOfSlice": true, "conv.valOfMap": true,
	"conv.valOfStruct": true, "conv.typeOf": true, "types.applySubst": true, "strings.Split": true, "reflect.Value.MapKeys": true,
	"vm.newThunk": true, "lexer.NewLexer": true, "parser.NewParser": true, "yae.NewExpr": true,
}

func ssaFuncName(f *ssa.Function) string {
	if f == nil {
		return "?"
	}
	if f.Object() != nil {
		return qual(f.Object())
	}
	// anonymous: parent$n
	if f.Parent() != nil {
		return ssaFuncName(f.Parent()) + "$" + strings.TrimPrefix(f.Name(), f.Parent().Name()+"$")
	}
	if f.Pkg != nil {
		return short(f.Pkg.Pkg.Path()) + "." + f.Name()
	}
	return f.Name()
}

func calleeQual(c ssa.CallCommon) string {
	if f := c.StaticCallee(); f != nil {
		return ssaFuncName(f)
	}
	if b, ok := c.Value.(*ssa.Builtin); ok {
		return "builtin." + b.Name()
	}
	if c.IsInvoke() {
		return "invoke." + c.Method.Name()
	}
	return ""
}

// rootsOf walks back from a value to what it is derived from.
func rootsOf(v ssa.Value, seen map[ssa.Value]bool, depth int) []root {
	if v == nil || depth > 40 {
		return []root{{kind: rUnknown, desc: "depth"}}
	}
	if seen[v] {
		return nil
	}
	seen[v] = true
	switch x := v.(type) {
	case *ssa.Parameter:
		for i, p := range x.Parent().Params {
			if p == x {
				return []root{{kind: rParam, idx: i, desc: "parameter " + x.Name(), fn: x.Parent()}}
			}
		}
		return []root{{kind: rParam, desc: "parameter " + x.Name()}}
	case *ssa.FreeVar:
		return []root{{kind: rFreeVar, desc: "captured variable " + x.Name(), fn: x.Parent()}}
	case *ssa.Global:
		return []root{{kind: rGlobal, desc: "global " + qual(x.Object()), obj: x.Object()}}
	case *ssa.Alloc:
		// a local variable cell: what was stored into it
		if _, isStruct := x.Type().Underlying().(*types.Pointer).Elem().Underlying().(*types.Struct); isStruct {
			// a local struct is fresh storage, but a whole-struct copy `g := global` makes its reference-typed fields
			// (maps, slices, pointers) alias whatever the copied value referred to
			out := []root{{kind: rFresh, desc: "local composite"}}
			for _, ref := range *x.Referrers() {
				if st, ok := ref.(*ssa.Store); ok && st.Addr == x {
					if _, isConst := st.Val.(*ssa.Const); isConst {
						continue
					}
					for _, r := range rootsOf(st.Val, seen, depth+1) {
						if r.kind != rFresh {
							r.desc = "copy of " + r.desc
							out = append(out, r)
						}
					}
				}
			}
			return out
		}
		if _, isArr := x.Type().Underlying().(*types.Pointer).Elem().Underlying().(*types.Array); isArr {
			return []root{{kind: rFresh, desc: "local array"}}
		}
		var out []root
		stored := false
		for _, ref := range *x.Referrers() {
			if st, ok := ref.(*ssa.Store); ok && st.Addr == x {
				stored = true
				out = append(out, rootsOf(st.Val, seen, depth+1)...)
			}
		}
		if !stored {
			return []root{{kind: rFresh, desc: "local"}}
		}
		return out
	case *ssa.MakeSlice, *ssa.MakeMap, *ssa.MakeChan, *ssa.MakeClosure, *ssa.MakeInterface, *ssa.Const:
		if mi, ok := x.(*ssa.MakeInterface); ok {
			return rootsOf(mi.X, seen, depth+1)
		}
		return []root{{kind: rFresh, desc: "fresh"}}
	case *ssa.UnOp:
		if x.Op == token.MUL {
			// load through an address
			switch a := x.X.(type) {
			case *ssa.FieldAddr:
				rs := rootsOf(a.X, seen, depth+1)
				var out []root
				// what this function itself stored into that field of that very value is what the load yields:
				// `res := val.List(..).List(); res.V = l.V; sort(res.V)` sorts l's elements, however fresh res is
				if fn := a.Parent(); fn != nil {
					base := canonLoad(a.X)
					for _, b := range fn.Blocks {
						for _, in := range b.Instrs {
							fa, ok := in.(*ssa.FieldAddr)
							if !ok || fa.Field != a.Field || canonLoad(fa.X) != base || fa.Referrers() == nil {
								continue
							}
							for _, r2 := range *fa.Referrers() {
								if st, ok := r2.(*ssa.Store); ok && st.Addr == ssa.Value(fa) {
									for _, sr := range rootsOf(st.Val, seen, depth+1) {
										if sr.kind != rFresh {
											sr.desc = "value stored into the field (" + sr.desc + ")"
											out = append(out, sr)
										}
									}
								}
							}
						}
					}
				}
				for _, r := range rs {
					if r.kind == rFresh {
						out = append(out, r)
					} else {
						st := a.X.Type().Underlying().(*types.Pointer).Elem().Underlying().(*types.Struct)
						eng := r.eng || typeStr(a.X.Type()) == "*yae.Expr"
						out = append(out, root{kind: rField, desc: "field " + st.Field(a.Field).Name() + " of " + r.desc, obj: st.Field(a.Field), idx: r.idx, fn: r.fn, eng: eng})
						out[len(out)-1].idx = r.idx
						if r.kind == rParam {
							out[len(out)-1].desc = "field " + st.Field(a.Field).Name() + " of " + r.desc
							out = append(out, root{kind: rParam, idx: r.idx, desc: r.desc, fn: r.fn, eng: eng})
						}
						if r.kind == rGlobal {
							out = append(out, r)
						}
						if r.kind == rFreeVar {
							out = append(out, r)
						}
					}
				}
				return out
			default:
				return rootsOf(x.X, seen, depth+1)
			}
		}
		return []root{{kind: rFresh, desc: "computed"}}
	case *ssa.FieldAddr:
		return rootsOf(x.X, seen, depth+1)
	case *ssa.Field:
		return rootsOf(x.X, seen, depth+1)
	case *ssa.IndexAddr:
		return rootsOf(x.X, seen, depth+1)
	case *ssa.Index:
		return rootsOf(x.X, seen, depth+1)
	case *ssa.Lookup:
		return rootsOf(x.X, seen, depth+1)
	case *ssa.Slice:
		return rootsOf(x.X, seen, depth+1)
	case *ssa.ChangeType:
		return rootsOf(x.X, seen, depth+1)
	case *ssa.Convert:
		return rootsOf(x.X, seen, depth+1)
	case *ssa.ChangeInterface:
		return rootsOf(x.X, seen, depth+1)
	case *ssa.TypeAssert:
		return rootsOf(x.X, seen, depth+1)
	case *ssa.Extract:
		return rootsOf(x.Tuple, seen, depth+1)
	case *ssa.Phi:
		var out []root
		for _, e := range x.Edges {
			out = append(out, rootsOf(e, seen, depth+1)...)
		}
		return out
	case *ssa.Next:
		return rootsOf(x.Iter, seen, depth+1)
	case *ssa.Range:
		return rootsOf(x.X, seen, depth+1)
	case *ssa.Call:
		nm := calleeQual(x.Call)
		if nm == "builtin.append" {
			return rootsOf(x.Call.Args[0], seen, depth+1) // the result shares the first argument's backing array
		}
		// identity casts
		if f := x.Call.StaticCallee(); f != nil && f.Signature.Recv() != nil && castAccessors[f.Name()] && len(x.Call.Args) == 1 {
			return rootsOf(x.Call.Args[0], seen, depth+1)
		}
		if freshCalls[nm] {
			return []root{{kind: rFresh, desc: "result of " + nm}}
		}
		if nm == "builtin.make" || nm == "builtin.new" {
			return []root{{kind: rFresh, desc: "fresh"}}
		}
		return []root{{kind: rCallRet, desc: "result of " + nm, fn: x.Call.StaticCallee()}}
	case *ssa.BinOp:
		return []root{{kind: rFresh, desc: "computed"}}
	}
	return []root{{kind: rUnknown, desc: fmt.Sprintf("%T", v)}}
}

// canonLoad sees through loads of a local variable cell that is stored exactly once (a variable captured by a closure is
// such a cell, and every use of it is a separate load): all of them denote the stored value.
func canonLoad(v ssa.Value) ssa.Value {
	for d := 0; d < 4; d++ {
		u, ok := v.(*ssa.UnOp)
		if !ok || u.Op != token.MUL {
			return v
		}
		al, ok := u.X.(*ssa.Alloc)
		if !ok || al.Referrers() == nil {
			return v
		}
		var stored ssa.Value
		n := 0
		for _, ref := range *al.Referrers() {
			if st, ok := ref.(*ssa.Store); ok && st.Addr == ssa.Value(al) {
				stored = st.Val
				n++
			}
		}
		if n != 1 {
			return v
		}
		v = stored
	}
	return v
}

// ---------- in-place writes ----------

type write struct {
	instr  ssa.Instruction
	target ssa.Value // the slice/map/pointer written through
	what   string
	ty     types.Type
}

// writesOf enumerates in-place writes of a function: stores through pointers, map updates, append/copy/sort on slices.
func writesOf(f *ssa.Function) []write {
	var out []write
	for _, b := range f.Blocks {
		for _, in := range b.Instrs {
			switch x := in.(type) {
			case *ssa.Store:
				switch a := x.Addr.(type) {
				case *ssa.IndexAddr:
					out = append(out, write{in, a.X, "element store", a.X.Type()})
				case *ssa.FieldAddr:
					out = append(out, write{in, a.X, "field store ." + a.X.Type().Underlying().(*types.Pointer).Elem().Underlying().(*types.Struct).Field(a.Field).Name(), a.X.Type()})
				case *ssa.Global:
					out = append(out, write{in, a, "store to global", a.Type()})
				case *ssa.FreeVar:
					out = append(out, write{in, a, "store to captured variable", a.Type()})
				case *ssa.Alloc:
				default:
					out = append(out, write{in, x.Addr, "store through pointer", x.Addr.Type()})
				}
			case *ssa.MapUpdate:
				out = append(out, write{in, x.Map, "map update", x.Map.Type()})
			case *ssa.Call:
				nm := calleeQual(x.Call)
				switch nm {
				case "builtin.append":
					out = append(out, write{in, x.Call.Args[0], "append (may write in place)", x.Call.Args[0].Type()})
				case "builtin.copy":
					out = append(out, write{in, x.Call.Args[0], "copy into", x.Call.Args[0].Type()})
				case "builtin.delete":
					out = append(out, write{in, x.Call.Args[0], "delete from map", x.Call.Args[0].Type()})
				case "sort.Slice", "sort.SliceStable", "sort.Strings", "sort.Ints", "sort.Sort", "sort.Stable":
					tgt := x.Call.Args[0]
					if mi, ok := tgt.(*ssa.MakeInterface); ok {
						tgt = mi.X
					}
					out = append(out, write{in, tgt, "in-place sort", tgt.Type()})
				}
			}
		}
	}
	return out
}

// ---------- program-wide facts ----------

type effectFacts struct {
	c           *Ctx
	funcs       []*ssa.Function // module source functions
	mutates     map[*ssa.Function]map[int]string
	retGlobal   map[*ssa.Function]string // function returns a process-global object
	fieldGlobal map[types.Object]string  // struct field that can hold a process-global object -> how
	reach       map[*ssa.Function]bool   // reachable from the run/compile entries
	initOnly    map[*ssa.Function]bool
}

func (c *Ctx) moduleFuncs() []*ssa.Function {
	prog := c.SSA()
	var out []*ssa.Function
	seen := map[*ssa.Function]bool{}
	var add func(f *ssa.Function)
	add = func(f *ssa.Function) {
		if f == nil || seen[f] || f.Blocks == nil {
			return
		}
		seen[f] = true
		out = append(out, f)
		for _, a := range f.AnonFuncs {
			add(a)
		}
	}
	for _, pk := range c.sortedMod() {
		sp := prog.Package(pk.Types)
		if sp == nil {
			continue
		}
		for _, m := range sp.Members {
			switch x := m.(type) {
			case *ssa.Function:
				add(x)
			case *ssa.Type:
				for _, t := range []types.Type{x.Type(), types.NewPointer(x.Type())} {
					ms := prog.MethodSets.MethodSet(t)
					for i := 0; i < ms.Len(); i++ {
						add(prog.MethodValue(ms.At(i)))
					}
				}
			}
		}
	}
	sort.Slice(out, func(i, j int) bool { return ssaFuncName(out[i]) < ssaFuncName(out[j]) })
	return out
}

func isCgo(f *ssa.Function) bool {
	n := f.Name()
	return strings.HasPrefix(n, "_Cfunc_") || strings.HasPrefix(n, "_cgo") || strings.HasPrefix(n, "_Cgo")
}

func inInit(f *ssa.Function) bool {
	for g := f; g != nil; g = g.Parent() {
		if g.Name() == "init" || strings.HasPrefix(g.Name(), "init#") {
			return true
		}
	}
	return false
}

var effectCache *effectFacts

func (c *Ctx) effects() *effectFacts {
	if effectCache != nil {
		return effectCache
	}
	ef := &effectFacts{c: c, mutates: map[*ssa.Function]map[int]string{}, retGlobal: map[*ssa.Function]string{}, fieldGlobal: map[types.Object]string{}, reach: map[*ssa.Function]bool{}, initOnly: map[*ssa.Function]bool{}}
	for _, f := range c.moduleFuncs() {
		if isCgo(f) || !isMod(pkgPathOf(f)) {
			continue
		}
		ef.funcs = append(ef.funcs, f)
	}
	// fixpoint: mutates / retGlobal / fieldGlobal
	for iter := 0; iter < 8; iter++ {
		changed := false
		for _, f := range ef.funcs {
			for _, w := range writesOf(f) {
				if !sliceOrMap(w.ty) {
					continue
				}
				for _, r := range rootsOf(w.target, map[ssa.Value]bool{}, 0) {
					if r.kind == rParam && r.fn == f {
						if ef.mutates[f] == nil {
							ef.mutates[f] = map[int]string{}
						}
						if _, ok := ef.mutates[f][r.idx]; !ok {
							ef.mutates[f][r.idx] = w.what
							changed = true
						}
					}
				}
			}
			for _, b := range f.Blocks {
				for _, in := range b.Instrs {
					switch x := in.(type) {
					case *ssa.Call:
						if callee := x.Call.StaticCallee(); callee != nil {
							for i, how := range ef.mutates[callee] {
								if i >= len(x.Call.Args) {
									continue
								}
								for _, r := range rootsOf(x.Call.Args[i], map[ssa.Value]bool{}, 0) {
									if r.kind == rParam && r.fn == f {
										if ef.mutates[f] == nil {
											ef.mutates[f] = map[int]string{}
										}
										if _, ok := ef.mutates[f][r.idx]; !ok {
											ef.mutates[f][r.idx] = "passes it to " + ssaFuncName(callee) + " (" + how + ")"
											changed = true
										}
									}
								}
							}
						}
					case *ssa.Return:
						for _, res := range x.Results {
							if !sliceOrMap(res.Type()) {
								continue
							}
							if g := ef.globalWhy(res); g != "" {
								if _, ok := ef.retGlobal[f]; !ok {
									ef.retGlobal[f] = g
									changed = true
								}
							}
						}
					case *ssa.Store:
						fa, ok := x.Addr.(*ssa.FieldAddr)
						if !ok || !sliceOrMap(x.Val.Type()) {
							continue
						}
						if g := ef.globalWhy(x.Val); g != "" {
							fo := fa.X.Type().Underlying().(*types.Pointer).Elem().Underlying().(*types.Struct).Field(fa.Field)
							if _, ok := ef.fieldGlobal[fo]; !ok {
								ef.fieldGlobal[fo] = g + ", stored into field " + fo.Name() + " in " + ssaFuncName(f)
								changed = true
							}
						}
					}
				}
			}
		}
		if !changed {
			break
		}
	}
	// reachability from the run/compile entries
	cg := c.CallGraph()
	var entries []*ssa.Function
	for _, f := range ef.funcs {
		switch ssaFuncName(f) {
		case "yae.Eval", "yae.Debug", "yae.Expr.Compile", "yae.Expr.Parse", "yae.Expr.CompileExpr", "yae.Expr.MustCompile",
			"conv.TypeOf", "conv.ValOf", "conv.TypeEnvOf", "conv.ValEnvOf", "types.Infer", "types.Check", "ext.CompileToSql",
			"closure.Compile", "closure.DebugCompile", "interp.Interp", "vm.Compile", "ext/sql.Compile":
			entries = append(entries, f)
		}
		if strings.HasPrefix(ssaFuncName(f), "yae.Expr.makeCallable$") || strings.HasPrefix(ssaFuncName(f), "ext.CompileToSql$") {
			entries = append(entries, f)
		}
	}
	var visit func(n *callgraph.Node)
	visit = func(n *callgraph.Node) {
		if n == nil || ef.reach[n.Func] {
			return
		}
		ef.reach[n.Func] = true
		for _, e := range n.Out {
			if e.Callee.Func.Pkg != nil && !isMod(e.Callee.Func.Pkg.Pkg.Path()) {
				continue
			}
			visit(e.Callee)
		}
	}
	for _, e := range entries {
		visit(cg.Nodes[e])
	}
	// closures created by reachable functions run in the same phase
	for changed := true; changed; {
		changed = false
		for _, f := range ef.funcs {
			if ef.reach[f] {
				for _, a := range f.AnonFuncs {
					if !ef.reach[a] {
						visit(cg.Nodes[a])
						ef.reach[a] = true
						changed = true
					}
				}
			}
		}
	}
	// init-time functions: package initialisers and closures that are only ever called from init-time functions
	for _, f := range ef.funcs {
		if f.Name() == "init" || strings.HasPrefix(f.Name(), "init#") {
			ef.initOnly[f] = true
		}
	}
	for changed := true; changed; {
		changed = false
		for _, f := range ef.funcs {
			if ef.initOnly[f] || f.Parent() == nil || !inInit(f) {
				continue
			}
			n := cg.Nodes[f]
			if n == nil || len(n.In) == 0 {
				continue
			}
			all := true
			for _, e := range n.In {
				if !ef.initOnly[e.Caller.Func] {
					all = false
				}
			}
			if all {
				ef.initOnly[f] = true
				changed = true
			}
		}
	}
	effectCache = ef
	return ef
}

func pkgPathOf(f *ssa.Function) string {
	for g := f; g != nil; g = g.Parent() {
		if g.Pkg != nil {
			return g.Pkg.Pkg.Path()
		}
	}
	return ""
}

func sliceOrMap(t types.Type) bool {
	switch t.Underlying().(type) {
	case *types.Slice, *types.Map:
		return true
	}
	return false
}

// globalWhy says why v is (may be) a process-global slice/map, or "".
func (ef *effectFacts) globalWhy(v ssa.Value) string {
	for _, r := range rootsOf(v, map[ssa.Value]bool{}, 0) {
		switch r.kind {
		case rGlobal:
			if r.obj != nil && r.obj.Pkg() != nil && isMod(r.obj.Pkg().Path()) {
				return r.desc
			}
		case rCallRet:
			if r.fn != nil {
				if g, ok := ef.retGlobal[r.fn]; ok {
					return g + " (returned by " + ssaFuncName(r.fn) + ")"
				}
			}
		case rField:
			if g, ok := ef.fieldGlobal[r.obj]; ok {
				return g
			}
		case rFreeVar:
			if r.fn != nil && inInit(r.fn) {
				return r.desc + " of an init-time closure"
			}
		}
	}
	return ""
}

// ---------- EFFECT-2 ----------

// sameLenKinds: all Kind literals of the composite literal initialising a package-level []oper.Operator have equal length.
func (c *Ctx) sameLenKinds(sp, name string) bool {
	cl, ok := c.VarInit(sp, name).(*ast.CompositeLit)
	if !ok || len(cl.Elts) == 0 {
		return false
	}
	n := -1
	for _, e := range cl.Elts {
		el, ok := e.(*ast.CompositeLit)
		if !ok || len(el.Elts) == 0 {
			return false
		}
		k := el.Elts[0]
		if kv, ok := k.(*ast.KeyValueExpr); ok {
			k = kv.Value
		}
		v := c.constOf(k)
		if v == nil || v.Kind() != constant.String {
			return false
		}
		l := len(constant.StringVal(v))
		if n >= 0 && l != n {
			return false
		}
		n = l
	}
	return true
}

func (ef *effectFacts) guardedByMutex(in ssa.Instruction) bool {
	b := in.Block()
	f := b.Parent()
	// a Lock() on a package-level sync.Mutex dominating `in` with no Unlock in between
	type ev struct {
		lock bool
		blk  *ssa.BasicBlock
		pos  int
	}
	var evs []ev
	for _, bb := range f.Blocks {
		for i, x := range bb.Instrs {
			if call, ok := x.(*ssa.Call); ok {
				nm := calleeQual(call.Call)
				if nm == "sync.Mutex.Lock" || nm == "sync.Mutex.Unlock" {
					if len(call.Call.Args) > 0 {
						if _, isG := call.Call.Args[0].(*ssa.Global); isG {
							evs = append(evs, ev{nm == "sync.Mutex.Lock", bb, i})
						}
					}
				}
			}
		}
	}
	idxOf := func(x ssa.Instruction) int {
		for i, y := range x.Block().Instrs {
			if y == x {
				return i
			}
		}
		return -1
	}
	me := idxOf(in)
	before := func(e ev) bool { // e happens before `in` on every path
		if e.blk == b {
			return e.pos < me
		}
		return e.blk.Dominates(b)
	}
	for _, l := range evs {
		if !l.lock || !before(l) {
			continue
		}
		released := false
		for _, u := range evs {
			if u.lock || !before(u) {
				continue
			}
			// unlock after the lock?
			if u.blk == l.blk && u.pos > l.pos || u.blk != l.blk && l.blk.Dominates(u.blk) {
				released = true
			}
		}
		if !released {
			return true
		}
	}
	return false
}

// writers of process-global state that are NOT reachable from compile/invoke (one symbol each; re-checked against the call graph).
var effect2Unreachable = map[string]string{
	"parser/ast.init$1$1": "node-label counter of the Graphviz visualiser ast.Dot, a debugging utility outside the compile/invoke API that C14 quantifies over",
}

func ruleEffect2(c *Ctx) {
	c.R.Rule("EFFECT-2", 2, "no process-global state is written during compile or invoke: every in-place write (store, map update, append, copy, sort) in a function reachable from the run/compile entries whose target is a package-level variable, a variable captured by an init-time closure, or a value that can be one (through a field or a function result) is guarded by a package-level mutex, is an atomic operation, or is in the frozen table with a machine-checked side condition; reads of mutex-guarded globals are guarded too")
	ef := c.effects()
	guardedGlobals := map[types.Object]bool{}
	n := 0
	for _, f := range ef.funcs {
		if (!ef.reach[f] && !c.Thorough) || ef.initOnly[f] {
			continue
		}
		name := ssaFuncName(f)
		// mutable process-wide helpers (sync.Map / sync.Pool at package level) used during compile/invoke
		for _, b := range f.Blocks {
			for _, in := range b.Instrs {
				call, ok := in.(*ssa.Call)
				if !ok || len(call.Call.Args) == 0 {
					continue
				}
				nm := calleeQual(call.Call)
				if !strings.HasPrefix(nm, "sync.Map.") && !strings.HasPrefix(nm, "sync.Pool.") {
					continue
				}
				for _, r := range rootsOf(call.Call.Args[0], map[ssa.Value]bool{}, 0) {
					if r.kind == rGlobal && r.obj != nil && r.obj.Pkg() != nil && isMod(r.obj.Pkg().Path()) {
						n++
						c.R.Unk(name, nm+" on "+r.desc, in.Pos(), "a process-wide mutable cache/pool is used during compile/invoke: results of one evaluation can now depend on earlier ones (stale or poisoned entries, recycled state); race-free does not make it history-independent — review and add to the frozen table with the invariant that keeps it transparent")
					}
				}
			}
		}
		for _, w := range writesOf(f) {
			why := ""
			switch t := w.target.(type) {
			case *ssa.Global:
				if isMod(t.Object().Pkg().Path()) {
					why = "global " + qual(t.Object())
				}
			case *ssa.FreeVar:
				if inInit(f) || (f.Parent() != nil && inInit(f.Parent())) || inInit(t.Parent()) {
					why = "variable " + t.Name() + " captured by an init-time closure"
				}
			}
			if why == "" {
				why = ef.globalWhy(w.target)
			}
			if why == "" {
				// store through a pointer-typed global (e.g. types.Num.Kind = ..)
				for _, r := range rootsOf(w.target, map[ssa.Value]bool{}, 0) {
					if r.kind == rGlobal && r.obj != nil && r.obj.Pkg() != nil && isMod(r.obj.Pkg().Path()) {
						why = r.desc
					}
				}
			}
			if why == "" {
				continue
			}
			n++
			desc := w.what + " on " + why
			pos := w.instr.Pos()
			switch {
			case ef.guardedByMutex(w.instr):
				c.R.OK(name, desc, pos, "dominated by Lock() on a package-level mutex with no Unlock in between")
				for _, r := range rootsOf(w.target, map[ssa.Value]bool{}, 0) {
					if r.kind == rGlobal {
						guardedGlobals[r.obj] = true
					}
				}
			case !ef.reach[f] && effect2Unreachable[name] != "":
				c.R.OK(name, desc, pos, "frozen (thorough tier only): %s; the call graph shows it is not reachable from any compile/invoke entry", effect2Unreachable[name])
			default:
				c.R.Bad(name, desc, pos, "process-global state is written without synchronisation during compile/invoke: concurrent engines race on it (%s)", why)
			}
		}
		// calls that hand a process-global slice/map to a function that writes it in place
		for _, b := range f.Blocks {
			for _, in := range b.Instrs {
				call, ok := in.(*ssa.Call)
				if !ok {
					continue
				}
				callee := call.Call.StaticCallee()
				if callee == nil {
					continue
				}
				for i, how := range ef.mutates[callee] {
					if i >= len(call.Call.Args) {
						continue
					}
					g := ef.globalWhy(call.Call.Args[i])
					if g == "" {
						continue
					}
					n++
					desc := "passes " + g + " to " + ssaFuncName(callee) + " which writes it in place"
					if ssaFuncName(callee) == "parser/oper.Sort" && strings.HasPrefix(g, "global parser/lexer.builtInOpers") && c.sameLenKinds("parser/lexer", "builtInOpers") {
						c.R.OK(name, desc, in.Pos(), "frozen: all Kind literals of builtInOpers have equal length (constant-evaluated), so the length comparator never returns true and the stable sort never swaps: no write happens")
						continue
					}
					c.R.Bad(name, desc, in.Pos(), "a process-global table is modified in place (%s) during compile/invoke: engines compiling concurrently race on it and can corrupt it for every later engine", how)
				}
			}
		}
	}
	// atomic counters: record them (positive control that the scan sees the TyVar counter)
	atomics := 0
	for _, f := range ef.funcs {
		for _, b := range f.Blocks {
			for _, in := range b.Instrs {
				if call, ok := in.(*ssa.Call); ok && strings.HasPrefix(calleeQual(call.Call), "sync/atomic.") && !strings.HasSuffix(calleeQual(call.Call), ".init") {
					atomics++
					nm := calleeQual(call.Call)
					mono := strings.HasPrefix(nm, "sync/atomic.Load")
					if strings.HasPrefix(nm, "sync/atomic.Add") && len(call.Call.Args) == 2 {
						if k, ok := call.Call.Args[1].(*ssa.Const); ok && k.Value != nil && constant.Sign(k.Value) > 0 {
							mono = true
						}
					}
					if mono {
						c.R.OK(ssaFuncName(f), "atomic operation "+nm, in.Pos(), "atomic and monotone (positive constant increment / load): values handed out are unique across goroutines")
					} else {
						c.R.Unk(ssaFuncName(f), "atomic operation "+nm, in.Pos(), "a process-global counter is stored/swapped/reset atomically: race-free, but another goroutine's reset between two draws breaks the uniqueness the users of the counter rely on (fresh type variables) — outcomes then depend on the interleaving")
					}
				}
			}
		}
	}
	// reads of guarded globals
	for _, f := range ef.funcs {
		if !ef.reach[f] || ef.initOnly[f] {
			continue
		}
		for _, b := range f.Blocks {
			for _, in := range b.Instrs {
				lk, ok := in.(*ssa.Lookup)
				if !ok {
					continue
				}
				for _, r := range rootsOf(lk.X, map[ssa.Value]bool{}, 0) {
					if r.kind == rGlobal && guardedGlobals[r.obj] {
						c.R.Check(ef.guardedByMutex(in), ssaFuncName(f), "read of guarded "+r.desc, in.Pos(), "under the same mutex", "a map written under a mutex is read without it")
					}
				}
			}
		}
	}
	// uniqueness of minted names: types.TyVar appends the process-wide counter to the caller's base name without a separator,
	// so the encoding base+counter is injective only if no base name ends in a digit ("t1"+"15" == "t"+"115"); whether two
	// variables collide would depend on how many variables other compilations have drawn
	{
		minted := 0
		for _, pk := range c.sortedMod() {
			for _, f := range pk.Syntax {
				ast.Inspect(f, func(x ast.Node) bool {
					ce, ok := x.(*ast.CallExpr)
					if !ok || len(ce.Args) != 1 {
						return true
					}
					o := c.objOf(ce.Fun)
					if o == nil || qual(o) != "types.TyVar" {
						return true
					}
					v := c.constOf(ce.Args[0])
					if v == nil || v.Kind() != constant.String {
						return true
					}
					minted++
					name := constant.StringVal(v)
					endsDigit := name != "" && name[len(name)-1] >= '0' && name[len(name)-1] <= '9'
					if endsDigit {
						c.R.Bad(c.ownerOf(pk, f, ce.Pos()), "type-variable base name "+strconv.Quote(name)+" does not end in a digit", ce.Pos(), "TyVar mints base+counter without a separator: a base that ends in a digit makes distinct (base, counter) pairs spell the same variable name, and which compilation hits the collision depends on how many variables other compilations drew before")
					}
					return true
				})
			}
		}
		c.R.Check(minted >= 5, "types.TyVar", "minted names: base names inspected", token.NoPos, fmt.Sprintf("%d constant base names, none ends in a digit unless reported", minted), "fewer than five constant base names of type variables found")
	}
	if atomics+n == 0 {
		c.R.Bad("yae", "positive control", token.NoPos, "no global write, guarded write or atomic found at all: the scan is not seeing the program")
	}
}

// ---------- EFFECT-6 ----------

func payloadType(t types.Type) bool {
	s := typeStr(t)
	switch s {
	case "[]*val.Val", "map[val.Key]*val.Val", "[]*types.Type", "[]types.Field", "map[string]int":
		return s != "map[string]int"
	}
	return false
}

func valueStruct(t types.Type) bool {
	p, ok := t.Underlying().(*types.Pointer)
	if !ok {
		return false
	}
	s := typeStr(p.Elem())
	if !(strings.HasPrefix(s, "val.") || strings.HasPrefix(s, "types.")) {
		return false
	}
	return strings.HasSuffix(s, "Val") || strings.HasSuffix(s, "Ty") || s == "types.Type" || s == "types.TypeVariable"
}

var effect6Frozen = map[string]string{
	"val.ListVal.Set":    "mutator by design; every call site must own the list (checked: receiver fresh)",
	"val.ListVal.Add":    "mutator by design; every call site must own the list (checked: receiver fresh)",
	"val.MapVal.Put":     "mutator by design; every call site must own the map (checked: receiver fresh)",
	"val.ObjVal.Put":     "mutator by design; every call site must own the object (checked: receiver fresh)",
	"vm.stack.Push":      "the VM's own evaluation stack (per invocation: EFFECT-5)",
	"vm.stack.growStack": "the VM's own evaluation stack (per invocation: EFFECT-5)",
}

func ruleEffect6(c *Ctx) {
	c.R.Rule("EFFECT-6", 15, "values are immutable after construction: every in-place write to a value payload (list/object element slices, map payloads, type component slices, or a field of a val.*Val / types.*Ty struct) targets a value constructed in the same function (SSA provenance: make / constructor result / local), or happens inside one of the four mutator methods whose every call site owns the receiver; no built-in, opcode handler or back end writes into an operand, an environment value, a constant or a result that shares storage with an argument")
	ef := c.effects()
	for _, f := range ef.funcs {
		if ef.initOnly[f] {
			continue
		}
		name := ssaFuncName(f)
		for _, w := range writesOf(f) {
			isPayload := payloadType(w.ty)
			isField := strings.HasPrefix(w.what, "field store") && valueStruct(w.ty)
			if !isPayload && !isField {
				continue
			}
			rs := rootsOf(w.target, map[ssa.Value]bool{}, 0)
			foreign := ""
			for _, r := range rs {
				if r.kind != rFresh {
					foreign = r.desc
					break
				}
			}
			desc := w.what + " on " + typeStr(w.ty)
			if foreign == "" {
				c.R.OK(name, desc, w.instr.Pos(), "target constructed in this function")
				continue
			}
			if r, ok := effect6Frozen[name]; ok {
				c.R.OK(name, desc, w.instr.Pos(), "frozen: %s", r)
				continue
			}
			c.R.Bad(name, desc, w.instr.Pos(), "writes into storage it did not construct (%s): an argument, environment value, constant or shared result is modified in place (or a result aliases an argument's backing array)", foreign)
		}
		// call sites of the mutators: receiver must be fresh
		for _, b := range f.Blocks {
			for _, in := range b.Instrs {
				call, ok := in.(*ssa.Call)
				if !ok {
					continue
				}
				nm := calleeQual(call.Call)
				if !strings.HasPrefix(nm, "val.") || effect6Frozen[nm] == "" || len(call.Call.Args) == 0 {
					continue
				}
				if _, isMut := effect6Frozen[name]; isMut {
					continue
				}
				foreign := ""
				for _, r := range rootsOf(call.Call.Args[0], map[ssa.Value]bool{}, 0) {
					if r.kind != rFresh {
						foreign = r.desc
					}
				}
				c.R.Check(foreign == "", name, "call "+nm+" on an owned receiver", in.Pos(), "receiver constructed in this function", "mutator is applied to a value this function did not construct ("+foreign+")")
			}
		}
	}
}

// ---------- EFFECT-5 ----------

func ruleEffect5(c *Ctx) {
	c.R.Rule("EFFECT-5", 3, "a fresh VM per invocation and an immutable program: the closure returned by vm.Compile obtains its VM from NewVM() inside the closure and shares nothing else mutable; the functions that write bytecode.code / cp.data are not reachable from (*VM).Interp")
	c.reentrantClosures()
	fd := c.FuncDecl("vm", "Compile")
	if fd == nil {
		c.R.Anchor("vm.Compile")
		return
	}
	var lit *ast.FuncLit
	for _, r := range returnsOf(fd.Body) {
		if l, ok := unparen(r.Results[0]).(*ast.FuncLit); ok {
			lit = l
		}
	}
	if lit == nil {
		c.R.Bad("vm.Compile", "returns a closure literal", fd.Pos(), "not found")
		return
	}
	nv := c.callsTo(lit.Body, "vm.NewVM")
	ip := c.callsTo(lit.Body, "vm.VM.Interp")
	okVM := len(nv) == 1 && len(ip) == 1
	if okVM {
		recv := unparen(ip[0].Fun.(*ast.SelectorExpr).X)
		if recv != ast.Expr(nv[0]) {
			okVM = rootIsCallResult(c, lit.Body, recv, nv[0])
		}
	}
	c.R.Check(okVM, "vm.Compile$lit", "VM created by NewVM() inside the closure", lit.Pos(), "NewVM().Interp(bytecode, env): no VM state survives an invocation or is shared between goroutines", "the VM is not created per invocation inside the closure (pooled/captured VMs carry pc, stack and code between invocations and goroutines)")
	// captured variables of the closure: only the compiled bytecode
	captured := map[string]bool{}
	ast.Inspect(lit.Body, func(x ast.Node) bool {
		if id, ok := x.(*ast.Ident); ok {
			if v, ok := c.objOf(id).(*types.Var); ok && !v.IsField() && v.Pkg() != nil && v.Parent() != v.Pkg().Scope() {
				if !(lit.Pos() <= v.Pos() && v.Pos() <= lit.End()) {
					captured[v.Name()+" "+typeStr(v.Type())] = true
				}
			}
		}
		return true
	})
	okCap := len(captured) == 1
	for k := range captured {
		if !strings.HasSuffix(k, "*vm.bytecode") {
			okCap = false
		}
	}
	c.R.Check(okCap, "vm.Compile$lit", "closure captures only the compiled program", lit.Pos(), fmt.Sprint(sortedStr(captured)), "closure captures more than the program: "+fmt.Sprint(sortedStr(captured)))
	// package-level mutable helpers (pools, caches) in vm
	for _, f := range c.Mod["vm"].Syntax {
		for _, d := range f.Decls {
			gd, ok := d.(*ast.GenDecl)
			if !ok || gd.Tok != token.VAR {
				continue
			}
			for _, s := range gd.Specs {
				for _, n := range s.(*ast.ValueSpec).Names {
					t := typeStr(c.objOf(n).Type())
					if strings.HasPrefix(t, "sync.") || strings.HasPrefix(t, "*sync.") {
						c.R.Bad("vm."+n.Name, "package-level synchronisation object", n.Pos(), "a %s at package level in the VM: invocation state is being shared between invocations", t)
					}
				}
			}
		}
	}
	// writers of code/data not reachable from Interp
	ef := c.effects()
	codeF, dataF := c.Field("vm", "bytecode", "code"), c.Field("vm", "cp", "data")
	writers := map[*ssa.Function]bool{}
	for _, f := range ef.funcs {
		for _, b := range f.Blocks {
			for _, in := range b.Instrs {
				var addr ssa.Value
				switch x := in.(type) {
				case *ssa.Store:
					addr = x.Addr
				case *ssa.Call:
					if nm := calleeQual(x.Call); nm == "builtin.copy" {
						addr = x.Call.Args[0]
					}
				}
				if addr == nil {
					continue
				}
				for _, r := range rootsOf(addr, map[ssa.Value]bool{}, 0) {
					if r.kind == rField && (r.obj == types.Object(codeF) || r.obj == types.Object(dataF)) {
						writers[f] = true
					}
				}
				if fa, ok := addr.(*ssa.FieldAddr); ok {
					fo := fa.X.Type().Underlying().(*types.Pointer).Elem().Underlying().(*types.Struct).Field(fa.Field)
					if fo == codeF || fo == dataF {
						writers[f] = true
					}
				}
			}
		}
	}
	cg := c.CallGraph()
	var interp *ssa.Function
	for _, f := range ef.funcs {
		if ssaFuncName(f) == "vm.VM.Interp" {
			interp = f
		}
	}
	if interp == nil {
		c.R.Anchor("vm.VM.Interp (SSA)")
		return
	}
	reach := map[*ssa.Function]bool{}
	var visit func(n *callgraph.Node)
	visit = func(n *callgraph.Node) {
		if n == nil || reach[n.Func] {
			return
		}
		reach[n.Func] = true
		for _, e := range n.Out {
			visit(e.Callee)
		}
	}
	visit(cg.Nodes[interp])
	var ws []string
	bad := ""
	for w := range writers {
		ws = append(ws, ssaFuncName(w))
		if reach[w] {
			bad = ssaFuncName(w)
		}
	}
	sort.Strings(ws)
	c.R.Check(len(ws) >= 2 && bad == "", "vm.VM.Interp", "program bytes and constants are not written while running", token.NoPos, "writers "+fmt.Sprint(ws)+" are unreachable from Interp", "the writer "+bad+" of bytecode.code/cp.data is reachable from (*VM).Interp: a compiled expression shared between goroutines is modified while running")
	if nvd := c.FuncDecl("vm", "NewVM"); nvd != nil {
		c.R.Check(len(c.callsTo(nvd.Body, "vm.newStack")) == 1, "vm.NewVM", "fresh stack per VM", nvd.Pos(), "newStack()", "NewVM does not allocate its own stack")
	}
}

// ---------- EFFECT-3 ----------

func ruleEffect3(c *Ctx) {
	c.R.Rule("EFFECT-3", 4, "caller-owned environments are never written: outside the Env types themselves and the engine's registration API, Put / RegisterFun / field stores on a *types.Env or *val.Env target an environment that the same function created (NewEnv, Derive, Inherit, conv.*EnvOf, composite literal); Inherit returns a copy (SIBLING-9)")
	var freshEnv func(body ast.Node, e ast.Expr) (bool, string)
	depth := 0
	// freshResult: the k-th result of a module function is an environment that function created, on every return
	// (nil results — the error paths — are trivially not caller-owned)
	freshResult := func(ce *ast.CallExpr, k int) (bool, string) {
		f, _ := c.calleeObj(ce).(*types.Func)
		fd := c.declOf(f)
		if fd == nil || fd.Body == nil || depth > 2 {
			return false, "result of " + c.calleeName(ce)
		}
		depth++
		defer func() { depth-- }()
		rets := returnsIn(fd.Body)
		if len(rets) == 0 {
			return false, "result of " + c.calleeName(ce)
		}
		for _, r := range rets {
			if k >= len(r.Results) {
				return false, "result of " + c.calleeName(ce)
			}
			re := unparen(r.Results[k])
			if id, ok := re.(*ast.Ident); ok && id.Name == "nil" {
				continue
			}
			if ok, _ := freshEnv(fd.Body, re); !ok {
				return false, "result #" + fmt.Sprint(k) + " of " + c.calleeName(ce) + " is not an environment it created (" + src(re) + ")"
			}
		}
		return true, "result of " + c.calleeName(ce) + ", which creates it"
	}
	depthFresh := 0
	freshEnv = func(body ast.Node, e ast.Expr) (bool, string) {
		e = unparen(e)
		if ce, ok := e.(*ast.CallExpr); ok {
			switch nm := c.calleeName(ce); nm {
			case "types.NewEnv", "val.NewEnv", "types.Env.Derive", "val.Env.Derive", "types.Env.Inherit", "val.Env.Inherit", "conv.ValEnvOf", "conv.TypeEnvOf", "conv.MustValEnvOf", "conv.MustTypeEnvOf":
				return true, nm
			}
			return freshResult(ce, 0)
		}
		o := c.objOf(e)
		if o == nil {
			return false, src(e)
		}
		var defs []ast.Expr
		defIdx := map[ast.Expr]int{} // multi-value definitions: which result of the call
		isParam := true
		ast.Inspect(body, func(x ast.Node) bool {
			if as, ok := x.(*ast.AssignStmt); ok {
				for i, l := range as.Lhs {
					if c.objOf(l) == o {
						isParam = false
						if len(as.Rhs) == len(as.Lhs) {
							defs = append(defs, as.Rhs[i])
						} else {
							defs = append(defs, as.Rhs[0])
							defIdx[as.Rhs[0]] = i
						}
					}
				}
			}
			return true
		})
		if isParam || len(defs) == 0 {
			return false, "parameter/field " + src(e)
		}
		for _, d := range defs {
			d = unparen(d)
			if u, ok := d.(*ast.UnaryExpr); ok && u.Op == token.AND {
				if _, isLit := u.X.(*ast.CompositeLit); isLit {
					continue
				}
			}
			if id, ok := d.(*ast.Ident); ok {
				if id.Name == "nil" {
					continue // the error path of a conversion: no environment at all
				}
				if c.objOf(id) != o && depthFresh < 4 {
					depthFresh++
					ok2, _ := freshEnv(body, id)
					depthFresh--
					if ok2 {
						continue
					}
				}
			}
			ce, ok := d.(*ast.CallExpr)
			if !ok {
				return false, "defined as " + src(d)
			}
			switch c.calleeName(ce) {
			case "types.NewEnv", "val.NewEnv", "types.Env.Derive", "val.Env.Derive", "types.Env.Inherit", "val.Env.Inherit", "conv.ValEnvOf", "conv.TypeEnvOf", "conv.MustValEnvOf", "conv.MustTypeEnvOf":
			default:
				if ok, _ := freshResult(ce, defIdx[d]); ok {
					continue
				}
				return false, "defined as " + src(d)
			}
		}
		return true, "created in this function"
	}
	for _, pk := range c.sortedMod() {
		sp := short(pk.PkgPath)
		if strings.HasPrefix(sp, "test") {
			continue
		}
		for _, file := range pk.Syntax {
			for _, d := range file.Decls {
				fd, ok := d.(*ast.FuncDecl)
				if !ok || fd.Body == nil {
					continue
				}
				name := fnName(sp, fd)
				isEnvMethod := (sp == "types" || sp == "val") && strings.Contains(name, ".Env.")
				ast.Inspect(fd.Body, func(x ast.Node) bool {
					switch s := x.(type) {
					case *ast.CallExpr:
						nm := c.calleeName(s)
						if nm != "types.Env.Put" && nm != "val.Env.Put" && nm != "types.Env.RegisterFun" && nm != "val.Env.RegisterFun" {
							return true
						}
						recv := s.Fun.(*ast.SelectorExpr).X
						desc := "call " + nm + " on " + src(recv)
						if name == "yae.Expr.RegisterFun" {
							c.R.OK(name, desc, s.Pos(), "frozen: the engine's registration API writes the engine's own tables (configuration phase; ENGINE rule covers the compile phase)")
							return true
						}
						ok, why := freshEnv(fd.Body, recv)
						c.R.Check(ok, name, desc, s.Pos(), why, "an environment this function did not create is modified ("+why+")")
					case *ast.AssignStmt:
						if isEnvMethod {
							return true
						}
						for _, l := range s.Lhs {
							se, ok := l.(*ast.SelectorExpr)
							if !ok {
								continue
							}
							t := typeStr(c.typeOf(se.X))
							if t != "*types.Env" && t != "*val.Env" {
								continue
							}
							ok2, why := freshEnv(fd.Body, se.X)
							c.R.Check(ok2, name, "store "+src(l), l.Pos(), why, "a field of an environment this function did not create is written ("+why+")")
						}
					}
					return true
				})
			}
		}
	}
}

// ---------- ENGINE ----------

func ruleEngine(c *Ctx) {
	c.R.Rule("ENGINE", 5, "engine state during compilation: every store to a field of yae.Expr and every registration into the engine's tables that is reachable from Compile/Parse/CompileExpr happens in makeSureInit's callees, behind the `if e.init { return }` test that is makeSureInit's first statement and before `e.init = true`; the in-place oper.Sort of the engine's own operator slice is idempotent once sorted (frozen)")
	msi := c.FuncDecl("yae", "Expr.makeSureInit")
	if msi == nil {
		c.R.Anchor("yae.Expr.makeSureInit")
		return
	}
	// the guard flag is whichever bool field of the engine is tested first and set last (identified by object, not by name)
	okFirst := false
	var flag types.Object
	if len(msi.Body.List) > 0 {
		if is, ok := msi.Body.List[0].(*ast.IfStmt); ok && is.Init == nil && is.Else == nil && len(is.Body.List) == 1 {
			if se, ok := unparen(is.Cond).(*ast.SelectorExpr); ok && typeStr(c.typeOf(se.X)) == "*yae.Expr" && typeStr(c.typeOf(se)) == "bool" {
				if _, isRet := is.Body.List[0].(*ast.ReturnStmt); isRet {
					okFirst = true
					flag = c.objOf(se.Sel)
				}
			}
		}
	}
	c.R.Check(okFirst, "yae.Expr.makeSureInit", "first statement is `if e.init { return }`", msi.Pos(), "initialisation runs once", "initialisation is not guarded by the init flag")
	okLast := false
	if as, ok := msi.Body.List[len(msi.Body.List)-1].(*ast.AssignStmt); ok && len(as.Lhs) == 1 && len(as.Rhs) == 1 && as.Tok == token.ASSIGN {
		if se, ok := unparen(as.Lhs[0]).(*ast.SelectorExpr); ok && flag != nil && c.objOf(se.Sel) == flag {
			if v := c.constOf(as.Rhs[0]); v != nil && v.Kind() == constant.Bool && constant.BoolVal(v) {
				okLast = true
			}
		}
	}
	c.R.Check(okLast, "yae.Expr.makeSureInit", "`e.init = true` is the last statement", msi.Pos(), "flag set after the tables are complete", "the init flag is set before initialisation finished (or never)")
	// writers of Expr fields
	pk := c.Mod["yae"]
	writers := map[string]bool{}
	for _, f := range pk.Syntax {
		for _, d := range f.Decls {
			fd, ok := d.(*ast.FuncDecl)
			if !ok || fd.Body == nil {
				continue
			}
			name := fnName("yae", fd)
			ast.Inspect(fd.Body, func(x ast.Node) bool {
				if as, ok := x.(*ast.AssignStmt); ok {
					for _, l := range as.Lhs {
						if se, ok := l.(*ast.SelectorExpr); ok && typeStr(c.typeOf(se.X)) == "*yae.Expr" {
							writers[name] = true
						}
					}
				}
				return true
			})
			if len(c.allCallsDeepTo(fd.Body, "types.Env.RegisterFun")) > 0 {
				writers[name] = true
			}
		}
	}
	// compile-phase functions must not call a writer except through makeSureInit
	phase := []string{"Expr.Compile", "Expr.Parse", "Expr.CompileExpr", "Expr.makeCallable", "Expr.envCheck", "Expr.logf", "Expr.backStrace", "Eval", "Debug"}
	for _, fn := range phase {
		fd := c.FuncDecl("yae", fn)
		if fd == nil {
			continue
		}
		name := "yae." + fn
		c.R.Check(!writers[name], name, "does not write engine fields", fd.Pos(), "read-only on the engine", "a compile/invoke-phase function writes a field of the shared engine")
		for _, call := range c.allCallsDeep(fd.Body) {
			nm := c.calleeName(call)
			if !writers[nm] || nm == "yae.Expr.makeSureInit" {
				continue
			}
			// builder calls on a freshly created engine (Debug: NewExpr().UseCompiler) are configuration of a local engine
			if recv, ok := call.Fun.(*ast.SelectorExpr); ok {
				if fresh := rootedInCall(c, fd.Body, recv.X, "yae.NewExpr"); fresh {
					c.R.OK(name, "call "+nm+" on a local engine", call.Pos(), "engine created in this function")
					continue
				}
			}
			c.R.Bad(name, "call "+nm, call.Pos(), "a compile/invoke-phase function calls an engine writer outside makeSureInit: compiling on one engine from several goroutines races on it")
		}
	}
	// makeSureInit's callees are writers only of init-time state
	for _, call := range c.calls(msi.Body) {
		nm := c.calleeName(call)
		c.R.OK("yae.Expr.makeSureInit", "call "+nm+" behind the init flag", call.Pos(), "runs during the first compilation only")
	}
	// oper.Sort on the engine's own slice
	for _, fn := range []struct{ sp, f string }{{"parser/lexer", "newLexicon"}, {"parser", "newGrammar"}} {
		fd := c.FuncDecl(fn.sp, fn.f)
		if fd == nil {
			continue
		}
		for _, call := range c.callsTo(fd.Body, "parser/oper.Sort") {
			if _, isParam := c.objOf(call.Args[0]).(*types.Var); isParam && typeStr(c.typeOf(call.Args[0])) == "[]parser/oper.Operator" {
				c.R.OK(fn.sp+"."+fn.f, "oper.Sort(ops) on the engine's operator slice", call.Pos(), "frozen: the slice belongs to the engine (EFFECT-2 shows it is never a process-global table); after the first compilation it is sorted, and a stable insertion/merge sort of a sorted slice performs comparisons only")
			}
		}
	}
}

// reentrantClosures (clause of EFFECT-5): compiled code is re-entrant. A function literal of a back end that runs at
// evaluation time — it takes the run-time environment (`func(*val.Env) *val.Val`), or is a thunk / function value body
// (`func(...*val.Val) *val.Val`) — never assigns a local variable declared outside itself: such a variable belongs to
// the compile-time activation that built the literal and is shared by every evaluation of the compiled expression, so a
// write makes one evaluation visible to another (the environment of a lazy call, a result cache, a scratch cursor).
// Element stores into captured slices are EFFECT-6's; package-level variables EFFECT-2's.
func (c *Ctx) reentrantClosures() {
	examined := 0
	for _, sp := range []string{"closure", "interp", "vm", "ext/sql", "ext"} {
		pk := c.Mod[sp]
		if pk == nil {
			continue
		}
		for _, f := range pk.Syntax {
			for _, d := range f.Decls {
				fd, ok := d.(*ast.FuncDecl)
				if !ok || fd.Body == nil {
					continue
				}
				owner := fnName(sp, fd)
				ast.Inspect(fd.Body, func(x ast.Node) bool {
					lit, ok := x.(*ast.FuncLit)
					if !ok {
						return true
					}
					sig, ok := c.typeOf(lit).(*types.Signature)
					if !ok || sig.Results().Len() != 1 || !strings.HasSuffix(typeStr(sig.Results().At(0).Type()), "val.Val") || sig.Params().Len() != 1 {
						return true
					}
					pt := typeStr(sig.Params().At(0).Type())
					if !(strings.HasSuffix(pt, "val.Env") || (sig.Variadic() && strings.HasSuffix(pt, "val.Val"))) {
						return true
					}
					examined++
					ast.Inspect(lit.Body, func(y ast.Node) bool {
						var targets []ast.Expr
						switch st := y.(type) {
						case *ast.AssignStmt:
							if st.Tok != token.DEFINE {
								targets = st.Lhs
							}
						case *ast.IncDecStmt:
							targets = []ast.Expr{st.X}
						}
						for _, t := range targets {
							id, isID := unparen(t).(*ast.Ident)
							if !isID {
								continue
							}
							v, isVar := c.objOf(id).(*types.Var)
							if !isVar || v.Pkg() == nil || v.Parent() == v.Pkg().Scope() || v.IsField() {
								continue
							}
							if v.Pos() >= lit.Pos() && v.Pos() <= lit.End() {
								continue // the literal's own local (or that of a literal nested in it)
							}
							// named results / parameters of an enclosing *run-time* literal are per-evaluation too
							perEval := false
							for _, a := range ancestors(fd, lit) {
								if outer, isLit := a.(*ast.FuncLit); isLit && outer != lit && v.Pos() >= outer.Pos() && v.Pos() <= outer.End() {
									if osig, ok := c.typeOf(outer).(*types.Signature); ok && osig.Params().Len() == 1 {
										opt := typeStr(osig.Params().At(0).Type())
										if strings.HasSuffix(opt, "val.Env") || (osig.Variadic() && strings.HasSuffix(opt, "val.Val")) {
											perEval = true
										}
									}
								}
							}
							if perEval {
								continue
							}
							c.R.Bad(owner, "run-time closure assigns captured variable "+v.Name(), y.Pos(), "the variable belongs to the compile-time activation and is shared by every evaluation of the compiled expression: evaluations that overlap (goroutines, or a thunk forced after a nested evaluation started) see each other's value")
						}
						return true
					})
					return true
				})
			}
		}
	}
	c.R.Check(examined >= 20, "closure/interp/vm/ext", "run-time closures examined for writes to captured variables", token.NoPos, fmt.Sprintf("%d evaluation-time function literals, none assigns a variable of its compile-time activation", examined), fmt.Sprintf("only %d evaluation-time literals found: the clause would pass vacuously", examined))
}
