package main

import (
	"fmt"
	"go/ast"
	"go/constant"
	"go/token"
	"go/types"
	"golang.org/x/tools/go/packages"
	"os"
	"sort"
	"strings"
)

// SIBLING-1/4/6/7/9, BC-5, SIG-2: implementations of one thing must agree; tables must be complete.

func init() {
	reg("SIBLING-1", ruleSibling1)
	reg("SIBLING-4", ruleSibling4)
	reg("SIBLING-6", ruleSibling6)
	reg("SIBLING-7", ruleSibling7)
	reg("SIBLING-9", ruleSibling9)
	reg("BC-5", ruleBC5)
	reg("SIG-2", ruleSig2)
}

// ---------- opcode model shared by several rules ----------

type opModel struct {
	names    []string                   // opcode constant names below _END_, by value
	val      map[string]int64           // name -> value
	cases    map[string]*ast.CaseClause // case in switchThreading (keyed "vm.OP_X")
	sw       *ast.SwitchStmt
	swFn     *ast.FuncDecl
	handlers map[string]*ast.FuncDecl // instructions[OP_X] = H
	end      int64
}

func (c *Ctx) opcodes() *opModel {
	m := &opModel{val: map[string]int64{}, cases: map[string]*ast.CaseClause{}, handlers: map[string]*ast.FuncDecl{}}
	pk := c.Mod["vm"]
	if pk == nil {
		return nil
	}
	opT := c.Obj("vm", "opcode")
	if opT == nil {
		return nil
	}
	scope := pk.Types.Scope()
	for _, n := range scope.Names() {
		if cst, ok := scope.Lookup(n).(*types.Const); ok && types.Identical(cst.Type(), opT.Type()) {
			v, _ := constant.Int64Val(cst.Val())
			if n == "_END_" {
				m.end = v
				continue
			}
			m.val[n] = v
			m.names = append(m.names, n)
		}
	}
	sort.Slice(m.names, func(i, j int) bool { return m.val[m.names[i]] < m.val[m.names[j]] })
	m.swFn = c.FuncDecl("vm", "switchThreading")
	if m.swFn != nil {
		inspectNoLit(m.swFn.Body, func(x ast.Node) bool {
			if sw, ok := x.(*ast.SwitchStmt); ok && m.sw == nil && sw.Tag != nil {
				if t := c.typeOf(sw.Tag); t != nil && types.Identical(t, opT.Type()) {
					m.sw = sw
				}
			}
			return true
		})
	}
	if m.sw != nil {
		for k, cc := range c.switchCasesByConst(m.sw) {
			m.cases[strings.TrimPrefix(k, "vm.")] = cc
		}
	}
	// instructions[OP_X] = H in any function of vm
	for _, f := range pk.Syntax {
		ast.Inspect(f, func(x ast.Node) bool {
			as, ok := x.(*ast.AssignStmt)
			if !ok || len(as.Lhs) != 1 || len(as.Rhs) != 1 {
				return true
			}
			ix, ok := as.Lhs[0].(*ast.IndexExpr)
			if !ok {
				return true
			}
			if o := c.objOf(ix.X); o == nil || qual(o) != "vm.instructions" {
				return true
			}
			op := c.objOf(ix.Index)
			h := c.objOf(as.Rhs[0])
			if op == nil || h == nil {
				return true
			}
			if fd := c.FuncDecl("vm", h.Name()); fd != nil {
				m.handlers[op.Name()] = fd
			}
			return true
		})
	}
	return m
}

func ruleSibling1(c *Ctx) {
	c.R.Rule("SIBLING-1", 50, "the two VM dispatch loops agree: for every opcode the body of `case OP_X` in switchThreading is syntactically equal (positions/comments dropped) to the body of the handler stored in instructions[OP_X]; OP_RETURN is handled identically inline")
	m := c.opcodes()
	if m == nil || m.sw == nil {
		c.R.Anchor("vm.switchThreading switch over opcode")
		return
	}
	for _, op := range m.names {
		cc := m.cases[op]
		h := m.handlers[op]
		if op == "OP_RETURN" {
			// callThreading: if op == OP_RETURN { return v.Pop() }
			ct := c.FuncDecl("vm", "callThreading")
			okRet := false
			if ct != nil && cc != nil {
				inspectNoLit(ct.Body, func(x ast.Node) bool {
					if is, ok := x.(*ast.IfStmt); ok {
						if be, ok := unparen(is.Cond).(*ast.BinaryExpr); ok && be.Op == token.EQL {
							if o := c.objOf(be.Y); o != nil && o.Name() == "OP_RETURN" && sx(is.Body.List) == sx(cc.Body) {
								okRet = true
							}
						}
					}
					return true
				})
			}
			pos := token.NoPos
			if cc != nil {
				pos = cc.Pos()
			}
			c.R.Check(okRet, "vm.callThreading", "case "+op, pos, "both loops return v.Pop()", "OP_RETURN is handled differently in the two loops")
			continue
		}
		if cc == nil || h == nil {
			continue // reported by BC-5
		}
		a, b := sx(cc.Body), sx(h.Body.List)
		if a == b {
			c.R.OK("vm.switchThreading", "case "+op+" == "+h.Name.Name, cc.Pos(), "bodies equal (%d statements)", len(cc.Body))
		} else {
			c.R.Bad("vm.switchThreading", "case "+op+" == "+h.Name.Name, cc.Pos(), "the switch-threaded case and the call-threaded handler (%s) differ: the generated twin is stale or was edited by hand", c.pos(h.Pos()))
		}
	}
}

func ruleBC5(c *Ctx) {
	c.R.Rule("BC-5", 100, "every opcode constant below _END_ has a case in switchThreading, a handler in instructions (except OP_RETURN) and a row in the String() table at its own index; the switch's default panics")
	m := c.opcodes()
	if m == nil || m.sw == nil {
		c.R.Anchor("vm opcodes")
		return
	}
	c.R.Check(int64(len(m.names)) == m.end, "vm.opcode", "dense numbering", token.NoPos, "opcode values are 0.._END_-1 without gaps", "opcode constants are not dense below _END_")
	// String table
	var rows []string
	if fd := c.FuncDecl("vm", "opcode.String"); fd != nil {
		ast.Inspect(fd.Body, func(x ast.Node) bool {
			if cl, ok := x.(*ast.CompositeLit); ok && rows == nil {
				for _, e := range cl.Elts {
					if v := c.constOf(e); v != nil && v.Kind() == constant.String {
						rows = append(rows, constant.StringVal(v))
					}
				}
			}
			return true
		})
	} else {
		c.R.Anchor("vm.opcode.String")
	}
	for i, op := range m.names {
		_, hasCase := m.cases[op]
		c.R.Check(hasCase, "vm.switchThreading", "has case "+op, m.sw.Pos(), "handled", "no case for this opcode: executing it panics with 'unsupported opcode'")
		if op != "OP_RETURN" {
			_, hasH := m.handlers[op]
			c.R.Check(hasH, "vm.instructions", "has handler "+op, token.NoPos, "registered", "instructions["+op+"] is never assigned: callThreading would call a nil handler")
		}
		okRow := i < len(rows) && rows[i] == op
		c.R.Check(okRow, "vm.opcode.String", "row "+op, token.NoPos, "name table agrees", "String() table row does not match (stale vm/gen.go)")
	}
	def := m.cases["default"]
	okDef := def != nil && len(c.callsTo(&ast.BlockStmt{List: def.Body}, "builtin.panic")) > 0
	c.R.Check(okDef, "vm.switchThreading", "default panics", m.sw.Pos(), "unknown opcodes stop the VM", "default branch does not panic: an unknown byte would be skipped silently")
}

func ruleSibling7(c *Ctx) {
	c.R.Rule("SIBLING-7", 2, "neither dispatch loop has an iteration bound other than OP_RETURN (a bound makes long programs fail in one loop only)")
	bounded := map[string]bool{}
	for _, fn := range []string{"switchThreading", "callThreading"} {
		fd := c.FuncDecl("vm", fn)
		if fd == nil {
			c.R.Anchor("vm." + fn)
			continue
		}
		var loop *ast.ForStmt
		inspectNoLit(fd.Body, func(x ast.Node) bool {
			if f, ok := x.(*ast.ForStmt); ok && loop == nil {
				loop = f
			}
			return true
		})
		if loop == nil {
			c.R.Unk("vm."+fn, "dispatch loop", fd.Pos(), "no for loop found")
			continue
		}
		if loop.Cond == nil {
			c.R.OK("vm."+fn, "dispatch loop unbounded", loop.Pos(), "for { ... } ends only at OP_RETURN")
		} else {
			bounded[fn] = true
			c.R.Bad("vm."+fn, "dispatch loop unbounded", loop.Pos(), "loop condition %s bounds the number of executed instructions: programs longer than the bound fail in this loop but not in the other", src(loop.Cond))
		}
	}
	// whichever loop the API actually runs must be an unbounded one: every function value stored into VM.interp
	// (constructor literal or assignment) is checked, so that the recorded finding about the generated loop stays confined
	// to code no caller can reach
	installed := 0
	for _, f := range c.Mod["vm"].Syntax {
		ast.Inspect(f, func(x ast.Node) bool {
			var val ast.Expr
			switch n := x.(type) {
			case *ast.KeyValueExpr:
				if id, ok := n.Key.(*ast.Ident); ok && id.Name == "interp" {
					if fo, ok := c.objOf(id).(*types.Var); ok && fo.IsField() {
						val = n.Value
					}
				}
			case *ast.AssignStmt:
				for i, l := range n.Lhs {
					if se, ok := unparen(l).(*ast.SelectorExpr); ok && se.Sel.Name == "interp" && i < len(n.Rhs) && strings.HasSuffix(typeStr(c.typeOf(se.X)), "vm.VM") {
						val = n.Rhs[i]
					}
				}
			}
			if val == nil {
				return true
			}
			installed++
			name := "?"
			if o, ok := c.objOf(val).(*types.Func); ok {
				name = o.Name()
			}
			c.R.Check(name != "?" && !bounded[name] && (name == "switchThreading" || name == "callThreading"), "vm.NewVM", "installed dispatch loop "+name+" is unbounded", val.Pos(), "the loop every evaluation runs ends only at OP_RETURN", "the VM is given the dispatch loop "+name+", which stops after a fixed number of instructions (or is not one of the two checked loops): programs longer than the bound fail on the default back end only")
			return true
		})
	}
	c.R.Check(installed >= 1, "vm.NewVM", "a dispatch loop is installed", token.NoPos, "VM.interp is set by the constructor", "no store into VM.interp found")
}

// fieldsAssigned lists the receiver fields assigned in body (v.f = ...).
func (c *Ctx) fieldsAssigned(body ast.Node, recv types.Object) map[string]bool {
	out := map[string]bool{}
	inspectNoLit(body, func(x ast.Node) bool {
		if as, ok := x.(*ast.AssignStmt); ok {
			for _, l := range as.Lhs {
				if se, ok := l.(*ast.SelectorExpr); ok && c.objOf(se.X) == recv {
					out[se.Sel.Name] = true
				}
			}
		}
		return true
	})
	return out
}

func recvObj(c *Ctx, fd *ast.FuncDecl) types.Object {
	if fd.Recv == nil || len(fd.Recv.List) != 1 || len(fd.Recv.List[0].Names) != 1 {
		return nil
	}
	return c.objOf(fd.Recv.List[0].Names[0])
}

func ruleSibling6(c *Ctx) {
	c.R.Rule("SIBLING-6", 3, "thunk calls restore the VM: in call0, every VM field that is overwritten before the nested interpreter run (in call0 itself or in the method that starts the run) was first copied into a snapshot taken from the receiver, and is written back from that same snapshot after the run; the roles (snapshot taker, runner, restorer) are recognised by what the methods do, not by their names")
	c0 := c.FuncDecl("vm", "VM.call0")
	if c0 == nil {
		c.R.Anchor("vm.VM.call0")
		return
	}
	recv := recvObj(c, c0)
	vmMethod := func(call *ast.CallExpr) *ast.FuncDecl {
		f, ok := c.calleeObj(call).(*types.Func)
		if !ok || f.Pkg() == nil || short(f.Pkg().Path()) != "vm" {
			return nil
		}
		se, ok := call.Fun.(*ast.SelectorExpr)
		if !ok || c.objOf(se.X) != recv {
			return nil
		}
		return c.declOf(f)
	}
	runsInterp := func(body ast.Node, r types.Object) bool {
		found := false
		inspectNoLit(body, func(x ast.Node) bool {
			if ce, ok := x.(*ast.CallExpr); ok && c.calleeObj(ce) == nil {
				if se, ok := ce.Fun.(*ast.SelectorExpr); ok && se.Sel.Name == "interp" && c.objOf(se.X) == r {
					found = true
				}
			}
			return true
		})
		return found
	}
	// snapshot: a method whose result is a composite literal built from receiver fields  (saved key -> receiver field)
	snapshotOf := func(fd *ast.FuncDecl) map[string]string {
		r := recvObj(c, fd)
		out := map[string]string{}
		for _, ret := range returnsOf(fd.Body) {
			if len(ret.Results) != 1 {
				return nil
			}
			e := unparen(ret.Results[0])
			if u, ok := e.(*ast.UnaryExpr); ok && u.Op == token.AND {
				e = unparen(u.X)
			}
			cl, ok := e.(*ast.CompositeLit)
			if !ok {
				return nil
			}
			for _, el := range cl.Elts {
				kv, ok := el.(*ast.KeyValueExpr)
				if !ok {
					return nil
				}
				if se, ok := unparen(kv.Value).(*ast.SelectorExpr); ok && c.objOf(se.X) == r {
					out[src(kv.Key)] = se.Sel.Name
				}
			}
		}
		if len(out) == 0 {
			return nil
		}
		return out
	}
	// restorer: a method with one parameter that assigns receiver fields from that parameter's fields (field -> saved key)
	restoreOf := func(fd *ast.FuncDecl) map[string]string {
		r := recvObj(c, fd)
		if fd.Type.Params == nil || len(fd.Type.Params.List) != 1 || len(fd.Type.Params.List[0].Names) != 1 {
			return nil
		}
		p := c.objOf(fd.Type.Params.List[0].Names[0])
		out := map[string]string{}
		inspectNoLit(fd.Body, func(x ast.Node) bool {
			as, ok := x.(*ast.AssignStmt)
			if !ok || len(as.Lhs) != len(as.Rhs) {
				return true
			}
			for i, l := range as.Lhs {
				ls, lok := unparen(l).(*ast.SelectorExpr)
				rs, rok := unparen(as.Rhs[i]).(*ast.SelectorExpr)
				if lok && rok && c.objOf(ls.X) == r && c.objOf(rs.X) == p {
					out[ls.Sel.Name] = rs.Sel.Name
				}
			}
			return true
		})
		if len(out) == 0 {
			return nil
		}
		return out
	}
	g := c.buildCFG(c0.Body)
	var saveCall, restoreCall *ast.CallExpr
	var runNode ast.Node
	var snap, rest map[string]string
	written := c.fieldsAssigned(c0.Body, recv)
	var runner *ast.FuncDecl
	for _, call := range c.calls(c0.Body) {
		if ce := call; c.calleeObj(ce) == nil {
			if se, ok := ce.Fun.(*ast.SelectorExpr); ok && se.Sel.Name == "interp" && c.objOf(se.X) == recv && runNode == nil {
				runNode = ce
			}
			continue
		}
		md := vmMethod(call)
		if md == nil {
			continue
		}
		switch {
		case runsInterp(md.Body, recvObj(c, md)) && runNode == nil:
			runNode, runner = call, md
		case snapshotOf(md) != nil && saveCall == nil:
			saveCall, snap = call, snapshotOf(md)
		case restoreOf(md) != nil && restoreCall == nil:
			restoreCall, rest = call, restoreOf(md)
		}
	}
	if runner != nil {
		for f := range c.fieldsAssigned(runner.Body, recvObj(c, runner)) {
			written[f] = true
		}
	}
	if runNode == nil || saveCall == nil || restoreCall == nil {
		c.R.Bad("vm.VM.call0", "snapshot; run; restore(snapshot)", c0.Pos(), "call0 does not take a snapshot of the receiver, start a nested interpreter run and restore from the snapshot (found: snapshot=%v run=%v restore=%v)", saveCall != nil, runNode != nil, restoreCall != nil)
		return
	}
	for _, f := range sortedStr(written) {
		ok := false
		for k, from := range snap {
			if from == f && rest[f] == k {
				ok = true
			}
		}
		c.R.Check(ok, "vm.VM.doCall0", "field "+f+" saved and restored", c0.Pos(), "copied into the snapshot and written back from the same snapshot field", "the thunk call overwrites v."+f+" but the snapshot / restore do not both cover it: after a thunk returns the enclosing code runs on the thunk's state")
	}
	okOrder := g.dominates(saveCall, runNode) && g.dominates(runNode, restoreCall)
	// no receiver field is overwritten in call0 before the snapshot is taken
	inspectNoLit(c0.Body, func(x ast.Node) bool {
		if as, ok := x.(*ast.AssignStmt); ok {
			for _, l := range as.Lhs {
				if se, ok := unparen(l).(*ast.SelectorExpr); ok && c.objOf(se.X) == recv && !g.dominates(saveCall, as) {
					okOrder = false
				}
			}
		}
		return true
	})
	if okOrder && len(restoreCall.Args) == 1 {
		okOrder = rootIsCallResult(c, c0.Body, restoreCall.Args[0], saveCall)
	}
	c.R.Check(okOrder, "vm.VM.call0", "save; doCall0; reset(saved)", c0.Pos(), "state saved before and restored after the thunk body", "call0 does not bracket the nested run with snapshot / restore(snapshot)")
}

func rootIsCallResult(c *Ctx, body ast.Node, e ast.Expr, call *ast.CallExpr) bool {
	o := c.objOf(e)
	ok := false
	inspectNoLit(body, func(x ast.Node) bool {
		if as, isAs := x.(*ast.AssignStmt); isAs && len(as.Lhs) == 1 && len(as.Rhs) == 1 && c.objOf(as.Lhs[0]) == o && unparen(as.Rhs[0]) == ast.Expr(call) {
			ok = true
		}
		return true
	})
	return ok
}

// ---------- SIBLING-4: type switches over ast.Expr are exhaustive ----------

var sugarNodes = map[string]bool{"parser/ast.UnaryExpr": true, "parser/ast.BinaryExpr": true, "parser/ast.TenaryExpr": true, "parser/ast.GroupExpr": true}

func (c *Ctx) exprNodeTypes() []string {
	pk := c.Mod["parser/ast"]
	if pk == nil {
		return nil
	}
	iface, _ := c.Obj("parser/ast", "Expr").Type().Underlying().(*types.Interface)
	var out []string
	for _, n := range pk.Types.Scope().Names() {
		tn, ok := pk.Types.Scope().Lookup(n).(*types.TypeName)
		if !ok {
			continue
		}
		if _, isStruct := tn.Type().Underlying().(*types.Struct); !isStruct {
			continue
		}
		if iface != nil && types.Implements(types.NewPointer(tn.Type()), iface) {
			out = append(out, "parser/ast."+n)
		}
	}
	sort.Strings(out)
	return out
}

func ruleSibling4(c *Ctx) {
	c.R.Rule("SIBLING-4", 60, "every type switch over ast.Expr in the checker, the three back ends and the debug wrapper handles exactly the 11 core node types (Desugar: those plus the 4 sugar types) and its default fails; a missing case is an 'unreachable' failure for every program containing that node")
	all := c.exprNodeTypes()
	if len(all) != 15 {
		c.R.Unk("parser/ast", "node inventory", token.NoPos, "expected 15 node types implementing ast.Expr (11 core + 4 sugar), found %d: %v — classify the new node type in the checker's sugar table", len(all), all)
	}
	type target struct {
		pkg, fn string
		sugar   bool
	}
	for _, t := range []target{
		{"types", "Check", false}, {"closure", "compile0", false}, {"closure", "wrapForDebug", false},
		{"interp", "interp", false}, {"vm", "bytecode.compile", false}, {"trans", "Desugar", true},
	} {
		fd := c.FuncDecl(t.pkg, t.fn)
		name := t.pkg + "." + t.fn
		if fd == nil {
			c.R.Anchor(name)
			continue
		}
		var ts *ast.TypeSwitchStmt
		for _, s := range c.typeSwitches(fd.Body) {
			if e := tsScrutinee(s); e != nil && typeStr(c.typeOf(e)) == "parser/ast.Expr" && ts == nil {
				ts = s
			}
		}
		if ts == nil {
			c.R.Bad(name, "type switch over ast.Expr", fd.Pos(), "not found")
			continue
		}
		cases := c.tsCases(ts)
		for _, nt := range all {
			if sugarNodes[nt] && !t.sugar {
				if _, has := cases[nt]; has {
					c.R.Unk(name, "case "+nt, ts.Pos(), "sugar node handled after desugaring")
				}
				continue
			}
			_, has := cases[nt]
			c.R.Check(has, name, "case "+nt, ts.Pos(), "handled", "node type is not handled: falls into the default/unreachable branch")
		}
		def := cases["default"]
		okDef := def != nil && (len(c.callsTo(&ast.BlockStmt{List: def.Body}, "util.Unreachable", "builtin.panic")) > 0 || hasAssertFalse(c, def.Body))
		c.R.Check(okDef, name, "default fails", ts.Pos(), "unknown nodes are rejected loudly", "default branch missing or silent")
	}
}

func hasAssertFalse(c *Ctx, body []ast.Stmt) bool {
	for _, call := range c.callsTo(&ast.BlockStmt{List: body}, "util.Assert") {
		if c.noReturn(call) {
			return true
		}
	}
	return false
}

// ---------- SIBLING-9: the two function tables are registered in lock-step ----------

func ruleSibling9(c *Ctx) {
	c.R.Rule("SIBLING-9", 4, "types.Env and val.Env keep their function tables in lock-step: Expr.RegisterFun registers every value in both tables in one loop; RegisterFun / GetMonoFun / GetPolyFuns of the two environments are equal after renaming FunTy<->FunVal (same key function, mono = overwrite, poly = append) — CallExpr.Index means the same at check time and at run time")
	for _, m := range []string{"RegisterFun", "GetMonoFun", "GetPolyFuns"} {
		a, b := c.FuncDecl("types", "Env."+m), c.FuncDecl("val", "Env."+m)
		if a == nil || b == nil {
			c.R.Anchor("Env." + m)
			continue
		}
		// path summaries (decisions, effects, results) after renaming the value-level names to the type-level ones
		sigOf := func(fd *ast.FuncDecl, valSide bool) (string, bool) {
			sigs, ok := c.pathSigs(fd, fd.Body, false)
			if _, isLoop := fd.Body.List[0].(*ast.ForStmt); !ok || (len(fd.Body.List) == 1 && isLoop) {
				// a walk up the parent chain written as a loop, `for v := recv; ; v = v.F { BODY }`, is the tail recursion
				// `BODY[v:=recv]; return recv.F.M(params)`: summarise the body with v standing for the receiver and let the
				// paths that fall off its end stand for the recursive call
				if ls, lok := c.chainLoopSigs(fd); lok {
					sigs, ok = ls, true
				}
			}
			s := strings.Join(sigs, "\n")
			if valSide {
				r := strings.NewReplacer("val.FunVal", "types.FunTy", "p0:fun", "m:types.Type.Fun(p0)", "p0.Type", "p0", "val.Env.", "types.Env.")
				s = r.Replace(s)
			}
			return s, ok
		}
		sa, oka := sigOf(a, false)
		sb, okb := sigOf(b, true)
		// an assertion only one side makes (slotFree of a mono signature) is not part of the table discipline: dropped by pathSigs
		if os.Getenv("YAE_DEBUG") != "" {
			fmt.Println("A:", sa)
			fmt.Println("B:", sb)
		}
		if !oka || !okb {
			c.R.Unk("types.Env."+m, "equals val.Env."+m+" modulo renaming", a.Pos(), "one of the two functions is not loop-free: path summaries cannot be compared")
			continue
		}
		c.R.Check(sa == sb, "types.Env."+m, "equals val.Env."+m+" modulo renaming", a.Pos(),
			"same decisions, effects and results on every path after FunVal->FunTy, v.Type->v (assertions dropped)", "the type-level and value-level function tables are maintained differently: overload indices can disagree between check time and run time")
	}
	// facade loop
	rf := c.FuncDecl("yae", "Expr.RegisterFun")
	if rf == nil {
		c.R.Anchor("yae.Expr.RegisterFun")
		return
	}
	var loop *ast.RangeStmt
	inspectNoLit(rf.Body, func(x ast.Node) bool {
		if r, ok := x.(*ast.RangeStmt); ok && loop == nil {
			loop = r
		}
		return true
	})
	okLoop := false
	if loop != nil && len(loop.Body.List) == 2 {
		t := c.callsTo(loop.Body, "types.Env.RegisterFun")
		v := c.callsTo(loop.Body, "val.Env.RegisterFun")
		if len(t) == 1 && len(v) == 1 && len(t[0].Args) == 1 && len(v[0].Args) == 1 {
			// t arg is <elem>.Type and v arg is <elem>
			if se, ok := t[0].Args[0].(*ast.SelectorExpr); ok && se.Sel.Name == "Type" && c.objOf(se.X) == c.objOf(v[0].Args[0]) && c.objOf(se.X) == c.objOf(loop.Value) {
				okLoop = true
			}
		}
	}
	pos := rf.Pos()
	c.R.Check(okLoop, "yae.Expr.RegisterFun", "registers v.Type and v in the same iteration", pos,
		"one loop, two unconditional registrations of the same element", "the type table and the value table are not filled in lock-step")
	// Inherit preserves both tables
	for _, pk := range []string{"types", "val"} {
		fd := c.FuncDecl(pk, "Env.Inherit")
		if fd == nil {
			c.R.Anchor(pk + ".Env.Inherit")
			continue
		}
		shares := false
		inspectNoLit(fd.Body, func(x ast.Node) bool {
			if cl, ok := x.(*ast.CompositeLit); ok {
				s := sx(cl.Elts)
				if strings.Contains(s, "Sel:fnTbl") && strings.Contains(s, "Sel:ctx") {
					shares = true
				}
			}
			return true
		})
		mut := len(c.fieldsAssigned(fd.Body, recvObj(c, fd))) > 0
		c.R.Check(shares && !mut, pk+".Env.Inherit", "returns a copy sharing ctx and fnTbl", fd.Pos(),
			"receiver not written; copy shares the binding and function tables", "Inherit writes its receiver or does not carry ctx/fnTbl over (caller-owned environments must stay reusable)")
		// the environment that was checked is the environment that runs: envCheck resolves names in the caller's env with
		// Get (innermost level first), the compiled code resolves them in env.Inherit(engine). The two agree because every
		// result of Inherit *is* the receiver's own level (its very tables) on top of the engine's, and the receiver has no
		// other level: every returned literal takes ctx and fnTbl from the receiver, under the assertion parent == nil.
		// A result assembled from several levels has to reproduce Get's shadowing order, which nothing here checks.
		recv := recvObj(c, fd)
		okEvery, n := true, 0
		for _, r := range returnsOf(fd.Body) {
			if len(r.Results) != 1 {
				okEvery = false
				continue
			}
			n++
			e := unparen(r.Results[0])
			if u, ok := e.(*ast.UnaryExpr); ok && u.Op == token.AND {
				e = unparen(u.X)
			}
			cl, ok := e.(*ast.CompositeLit)
			if !ok {
				okEvery = false
				continue
			}
			own := 0
			for _, el := range cl.Elts {
				if kv, ok := el.(*ast.KeyValueExpr); ok {
					el = kv.Value
				}
				if se, ok := unparen(el).(*ast.SelectorExpr); ok && c.objOf(se.X) == recv && (se.Sel.Name == "ctx" || se.Sel.Name == "fnTbl") {
					own++
				}
			}
			if own != 2 {
				okEvery = false
			}
		}
		asserted := false
		for _, a := range c.asserted(fd.Body) {
			if be, ok := unparen(a.cond).(*ast.BinaryExpr); ok && be.Op == token.EQL {
				if se, ok := unparen(be.X).(*ast.SelectorExpr); ok && c.objOf(se.X) == recv && se.Sel.Name == "parent" && src(be.Y) == "nil" {
					asserted = true
				}
			}
		}
		c.R.Check(okEvery && n > 0 && asserted, pk+".Env.Inherit", "every result is the receiver's own single level", fd.Pos(),
			"asserts parent == nil; each returned Env takes ctx and fnTbl from the receiver", "a result of Inherit is not the receiver's own level (or the receiver may have further levels): names can resolve differently in the environment that runs than in the one envCheck verified (an outer binding of another type shadowing the checked inner one)")
	}
}

// ---------- SIG-2: registered built-ins == declared built-ins ----------

func ruleSig2(c *Ctx) {
	c.R.Rule("SIG-2", 70, "every package-level *val.Val declared in fun (and in ext/sql) is an element of the generated funs list exactly once, and nothing else is: the list is generated by a regular expression that silently drops names with digits or lower case")
	for _, sp := range []string{"fun", "ext/sql"} {
		pk := c.Mod[sp]
		if pk == nil {
			c.R.Anchor("package " + sp)
			continue
		}
		declared := map[string]token.Pos{}
		for _, n := range pk.Types.Scope().Names() {
			if v, ok := pk.Types.Scope().Lookup(n).(*types.Var); ok && typeStr(v.Type()) == "*val.Val" {
				declared[n] = v.Pos()
			}
		}
		listed := map[string]int{}
		init := c.VarInit(sp, "funs")
		cl, ok := init.(*ast.CompositeLit)
		if !ok {
			c.R.Anchor(sp + ".funs composite literal")
			continue
		}
		for _, e := range cl.Elts {
			if o := c.objOf(e); o != nil {
				listed[o.Name()]++
			} else {
				c.R.Unk(sp+".funs", "element "+src(e), e.Pos(), "element is not a package-level variable")
			}
		}
		var names []string
		for n := range declared {
			names = append(names, n)
		}
		sort.Strings(names)
		for _, n := range names {
			c.R.Check(listed[n] == 1, sp+".funs", "contains "+n, declared[n], "registered exactly once",
				"built-in "+n+" is declared but "+map[bool]string{true: "listed more than once", false: "missing from the registered list (never reachable from programs)"}[listed[n] > 1])
		}
		for n := range listed {
			if _, ok := declared[n]; !ok {
				c.R.Bad(sp+".funs", "contains "+n, cl.Pos(), "listed element is not a declared *val.Val of the package")
			}
		}
		// BuiltIn() returns funs
		if fd := c.FuncDecl(sp, "BuiltIn"); fd != nil {
			rets := returnsOf(fd.Body)
			okRet := len(rets) == 1 && len(rets[0].Results) == 1 && c.objOf(rets[0].Results[0]) == c.Obj(sp, "funs")
			c.R.Check(okRet, sp+".BuiltIn", "returns funs", fd.Pos(), "the registered set is the generated list", "BuiltIn does not return the generated list")
		} else {
			c.R.Anchor(sp + ".BuiltIn")
		}
	}
}

// chainLoopSigs: see ruleSibling9. ok=false unless the function body is exactly one such loop.
func (c *Ctx) chainLoopSigs(fd *ast.FuncDecl) ([]string, bool) {
	if fd.Recv == nil || len(fd.Recv.List) != 1 || len(fd.Recv.List[0].Names) != 1 || len(fd.Body.List) != 1 {
		return nil, false
	}
	loop, ok := fd.Body.List[0].(*ast.ForStmt)
	if !ok || loop.Cond != nil || loop.Init == nil || loop.Post == nil {
		return nil, false
	}
	recv := c.objOf(fd.Recv.List[0].Names[0])
	init, ok := loop.Init.(*ast.AssignStmt)
	if !ok || len(init.Lhs) != 1 || len(init.Rhs) != 1 || init.Tok != token.DEFINE {
		return nil, false
	}
	v := c.objOf(init.Lhs[0])
	if id, ok := unparen(init.Rhs[0]).(*ast.Ident); !ok || c.objOf(id) != recv || v == nil {
		return nil, false
	}
	post, ok := loop.Post.(*ast.AssignStmt)
	if !ok || len(post.Lhs) != 1 || len(post.Rhs) != 1 || post.Tok != token.ASSIGN || c.objOf(post.Lhs[0]) != v {
		return nil, false
	}
	se, ok := unparen(post.Rhs[0]).(*ast.SelectorExpr)
	if !ok || c.objOf(se.X) != v {
		return nil, false
	}
	// the loop variable is not assigned in the body
	assigned := false
	ast.Inspect(loop.Body, func(x ast.Node) bool {
		if as, ok := x.(*ast.AssignStmt); ok {
			for _, l := range as.Lhs {
				if c.objOf(l) == v {
					assigned = true
				}
			}
		}
		if b, ok := x.(*ast.BranchStmt); ok && b.Tok != token.CONTINUE {
			assigned = true // break / goto: not the plain chain walk
		}
		return true
	})
	if assigned {
		return nil, false
	}
	c.alias = map[types.Object]string{v: "r"}
	defer func() { c.alias = nil }()
	sigs, ok := c.pathSigs(fd, loop.Body, false)
	if !ok {
		return nil, false
	}
	// the recursive call the fall-through stands for
	var ps []string
	k := 0
	for _, fl := range fd.Type.Params.List {
		for range fl.Names {
			ps = append(ps, fmt.Sprintf("p%d", k))
			k++
		}
	}
	pk := c.pkgOfDecl(fd)
	callTerm := "m:" + fnName(pk, fd) + "(r." + se.Sel.Name
	for _, p := range ps {
		callTerm += "," + p
	}
	callTerm += ")"
	for i, s := range sigs {
		if strings.HasSuffix(s, " fall{}") {
			sigs[i] = strings.TrimSuffix(s, " fall{}") + " return{" + callTerm + "}"
		}
	}
	sort.Strings(sigs)
	return sigs, true
}

func (c *Ctx) pkgOfDecl(fd *ast.FuncDecl) string {
	res := ""
	c.eachFuncDecl(func(pk *packages.Package, d *ast.FuncDecl) {
		if d == fd {
			res = short(pk.PkgPath)
		}
	})
	return res
}
