package main

import (
	"go/ast"
	"go/types"
	"strings"

	"golang.org/x/tools/go/packages"
)

// LAYOUT-1/2: object values are positional (ObjVal.V []*Val) while object *types* are equal up to field order.
// An index into ObjVal.V is therefore only meaningful if it was derived from that very value's own type.

func init() {
	reg("LAYOUT", ruleLayout)
}

func ruleLayout(c *Ctx) {
	c.R.Rule("LAYOUT", 5, "every index into an object value's field slice (ObjVal.V) comes from that value's own layout (its own Type.Obj().Index / a range over its own V), or fills a freshly constructed object; an index taken from the static type (MemberExpr.Index, a bytecode operand) or from another object's layout is only sound if type equality were position-sensitive, which it is not (equalsObj matches fields by name)")
	c.objCtorLemma("LAYOUT-3")
	vField := c.Field("val", "ObjVal", "V")
	if vField == nil {
		c.R.Anchor("val.ObjVal.V")
		return
	}
	// LAYOUT-2: record that types.equalsObj matches by name (the other half of the contradiction)
	byName := false
	if eo := c.FuncDecl("types", "equalsObj"); eo != nil {
		byName = len(c.callsTo(eo.Body, "types.ObjTy.GetField")) > 0
	} else {
		c.R.Anchor("types.equalsObj")
	}
	c.eachFile(func(pk *packages.Package, file *ast.File) {
		for _, d := range file.Decls {
			fd, ok := d.(*ast.FuncDecl)
			if !ok || fd.Body == nil {
				continue
			}
			c.layoutInFunc(pk, file, fd, vField, byName)
		}
	})
}

func (c *Ctx) layoutInFunc(pk *packages.Package, file *ast.File, fd *ast.FuncDecl, vField *types.Var, byName bool) {
	owner := fnName(short(pk.PkgPath), fd)
	// definitions (all, incl. inside literals) and range bindings
	defs := map[types.Object][]ast.Expr{}
	rngKey := map[types.Object]ast.Expr{}
	rngVal := map[types.Object]ast.Expr{}
	elemStores := map[types.Object][][2]ast.Expr{} // slice obj -> (index, value)
	stores := map[*ast.IndexExpr]bool{}
	ast.Inspect(fd.Body, func(x ast.Node) bool {
		switch s := x.(type) {
		case *ast.AssignStmt:
			if len(s.Lhs) == len(s.Rhs) {
				for i, l := range s.Lhs {
					switch lv := l.(type) {
					case *ast.Ident:
						if o := c.objOf(lv); o != nil {
							defs[o] = append(defs[o], s.Rhs[i])
						}
					case *ast.IndexExpr:
						stores[lv] = true
						if o := c.objOf(lv.X); o != nil {
							elemStores[o] = append(elemStores[o], [2]ast.Expr{lv.Index, s.Rhs[i]})
						}
					}
				}
			} else if len(s.Rhs) == 1 {
				for _, l := range s.Lhs {
					if id, ok := l.(*ast.Ident); ok {
						if o := c.objOf(id); o != nil {
							defs[o] = append(defs[o], s.Rhs[0])
						}
					}
				}
			}
		case *ast.RangeStmt:
			if s.Key != nil {
				if o := c.objOf(s.Key); o != nil {
					rngKey[o] = s.X
				}
			}
			if s.Value != nil {
				if o := c.objOf(s.Value); o != nil {
					rngVal[o] = s.X
				}
			}
		}
		return true
	})
	// counted loops `for i := 0; i < len(X); i++` bind i to positions of X exactly like `for i := range X`
	for _, l := range c.absLoops(fd.Body, nil) {
		if _, isFor := l.stmt.(*ast.ForStmt); isFor && l.idx != nil && l.start == nil {
			if _, dup := rngKey[l.idx]; !dup {
				rngKey[l.idx] = l.seqRaw
			}
		}
	}
	single := func(o types.Object) ast.Expr {
		if len(defs[o]) == 1 {
			return defs[o][0]
		}
		return nil
	}
	// canonical name of the object expression an `X.V` selects from (locals inlined, casts dropped)
	var canon func(e ast.Expr, d int) string
	canon = func(e ast.Expr, d int) string {
		e = unparen(e)
		if d > 6 {
			return sx(e)
		}
		switch x := e.(type) {
		case *ast.Ident:
			if o := c.objOf(x); o != nil {
				if df := single(o); df != nil {
					if _, isCall := unparen(df).(*ast.CallExpr); isCall {
						// keep constructor results distinct by variable
						if nm := c.calleeName(unparen(df).(*ast.CallExpr)); strings.HasPrefix(nm, "val.Val.") || strings.HasSuffix(nm, ".Vl") {
							return canon(df, d+1)
						}
						return x.Name
					}
					return canon(df, d+1)
				}
			}
			return x.Name
		case *ast.CallExpr:
			if se, ok := x.Fun.(*ast.SelectorExpr); ok && len(x.Args) == 0 && castAccessors[se.Sel.Name] {
				return canon(se.X, d+1)
			}
		}
		return sx(e)
	}
	ast.Inspect(fd.Body, func(x ast.Node) bool {
		ix, ok := x.(*ast.IndexExpr)
		if !ok {
			return true
		}
		se, ok := unparen(ix.X).(*ast.SelectorExpr)
		var objExpr ast.Expr
		if ok && c.objOf(se) == types.Object(vField) {
			objExpr = se.X
		} else if id, isID := unparen(ix.X).(*ast.Ident); isID {
			// alias: lst := x.Obj().V
			if o := c.objOf(id); o != nil {
				if df := single(o); df != nil {
					if s2, ok := unparen(df).(*ast.SelectorExpr); ok && c.objOf(s2) == types.Object(vField) {
						objExpr = s2.X
					}
				}
			}
		}
		if objExpr == nil {
			return true
		}
		me := canon(objExpr, 0)
		desc := "index " + src(ix)
		isStore := stores[ix]

		// provenance of the index
		idx := unparen(ix.Index)
		verdict, why := "", ""
		classifyRange := func(ranged ast.Expr) (string, string) {
			r := unparen(ranged)
			if s2, ok := r.(*ast.SelectorExpr); ok && c.objOf(s2) == types.Object(vField) {
				if canon(s2.X, 0) == me {
					return "own", "range over the same object's V"
				}
				return "foreign", "index ranges over " + src(s2.X) + ".V but selects from " + src(objExpr) + ".V: positions of two objects of equal type need not correspond (field order is not part of type equality)"
			}
			if strings.HasSuffix(src(r), ".Fields") || strings.HasSuffix(src(r), "Fields") {
				return "", ""
			}
			return "", ""
		}
		switch e := idx.(type) {
		case *ast.Ident:
			o := c.objOf(e)
			if r, ok := rngKey[o]; ok {
				verdict, why = classifyRange(r)
				if verdict == "" && isStore {
					verdict, why = "fill", "fills a constructed object in step with its source sequence"
				}
			} else if r, ok := rngVal[o]; ok {
				// range value over a permutation slice whose elements are own indices
				if so := c.objOf(r); so != nil {
					okPerm := len(elemStores[so]) > 0
					for _, st := range elemStores[so] {
						ko := c.objOf(st[0])
						if ko == nil || c.objOf(st[1]) != ko {
							okPerm = false
							continue
						}
						if rr, ok := rngKey[ko]; ok {
							if v, _ := classifyRange(rr); v != "own" {
								// ranging over the permutation slice itself is as good when it was made with the object's own
								// length: `ord := make([]int, len(o.V)); for i := range ord { ord[i] = i }`
								ownLen := false
								if c.objOf(rr) == so {
									if df := single(so); df != nil {
										if mk, ok := unparen(df).(*ast.CallExpr); ok && c.calleeName(mk) == "builtin.make" && len(mk.Args) >= 2 {
											if ln, ok := unparen(mk.Args[1]).(*ast.CallExpr); ok && c.calleeName(ln) == "builtin.len" && len(ln.Args) == 1 {
												if s3, ok := unparen(ln.Args[0]).(*ast.SelectorExpr); ok && c.objOf(s3) == types.Object(vField) && canon(s3.X, 0) == me {
													ownLen = true
												}
											}
										}
									}
								}
								if !ownLen {
									okPerm = false
								}
							}
						} else {
							okPerm = false
						}
					}
					if okPerm {
						verdict, why = "own", "index is an element of a permutation of the same object's own positions"
					}
				}
			} else if df := single(o); df != nil {
				s := sx(df)
				switch {
				case strings.Contains(s, "Sel:Index) Index:") && strings.Contains(s, "Sel:Type"):
					// i, ok := o.Type.Obj().Index[field]
					verdict, why = "own", "looked up in the value's own type index"
				case strings.Contains(s, "Sel:Index)") && !strings.Contains(s, "Index:"):
					verdict, why = "static", "index is "+src(df)+": the field position in the *static* type of the expression"
				case strings.Contains(s, "readMediumInt") || strings.Contains(s, "readUint"):
					verdict, why = "static", "index is a bytecode operand (the field position in the static type, emitted from MemberExpr.Index)"
				}
			}
			if verdict == "" {
				// for-loop counters filling a fresh object: o.V[sz-1-i] = pop
				if isStore {
					verdict, why = "fill", "fills a constructed object"
				}
			}
		case *ast.SelectorExpr:
			if e.Sel.Name == "Index" && typeStr(c.typeOf(e.X)) == "*parser/ast.MemberExpr" {
				verdict, why = "static", "index is MemberExpr.Index: the field position in the *static* type of the expression"
			}
		case *ast.BinaryExpr:
			if isStore {
				verdict, why = "fill", "fills a constructed object (computed position)"
			}
		}
		// fills must target a freshly constructed object
		if verdict == "fill" {
			fresh := false
			if id, ok := unparen(objExpr).(*ast.Ident); ok {
				if df := single(c.objOf(id)); df != nil {
					s := sx(df)
					if strings.Contains(s, "Fun:(SelectorExpr val Sel:Obj)") || strings.Contains(s, "Fun:Obj ") {
						fresh = true
					}
				}
			}
			if !fresh {
				verdict, why = "", "store into an object that was not constructed in this function"
			}
		}
		// ObjVal.Get/Put themselves
		switch verdict {
		case "own", "fill":
			c.R.OK(owner, desc, ix.Pos(), "%s", why)
		case "static":
			if byName {
				c.R.Bad(owner, desc, ix.Pos(), "%s, while object types are equal up to field order (types.equalsObj matches by name): [{a:1,b:\"x\"},{b:\"y\",a:2}][1].a yields \"y\" at type num", why)
			} else {
				c.R.OK(owner, desc, ix.Pos(), "%s; sound because type equality is position-sensitive", why)
			}
		case "foreign":
			c.R.Bad(owner, desc, ix.Pos(), "%s", why)
		default:
			c.R.Unk(owner, desc, ix.Pos(), "provenance of the index not recognised (%s)", why)
		}
		return true
	})
}
