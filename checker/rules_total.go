package main

import (
	"fmt"
	"go/ast"
	"go/constant"
	"go/token"
	"go/types"
	"sort"
	"strings"
)

// TOTAL-1: built-ins that must not fail; SIG-1: a built-in's body inhabits its declared yae signature.

func init() {
	reg("TOTAL-1", ruleTotal1)
	reg("SIG-1", ruleSig1)
	reg("SETORD-1", ruleSetOrd)
	reg("IDENT-1", ruleIdent1)
	reg("IDENT-2", ruleIdent2)
}

// IDENT-1: per kind, equality, map-key identity and rendering must induce the same identity.
func ruleIdent1(c *Ctx) {
	c.R.Rule("IDENT-1", 5, "per primitive kind the operations used by value equality, by map-key construction and by rendering induce the same identity: bool ==/FormatBool, str ==/Quote (injective), num tolerance/exact decimal text (the property excludes the tolerance band), time: equality by instant requires keys and text derived from the instant")
	arm := func(sp, fn, kind string) (string, token.Pos) {
		fd := c.FuncDecl(sp, fn)
		if fd == nil {
			c.R.Anchor(sp + "." + fn)
			return "", token.NoPos
		}
		var sw *ast.SwitchStmt
		inspectNoLit(fd.Body, func(x ast.Node) bool {
			if s, ok := x.(*ast.SwitchStmt); ok && sw == nil && s.Tag != nil && strings.HasSuffix(src(s.Tag), "Kind") {
				sw = s
			}
			return true
		})
		if sw == nil {
			return "", fd.Pos()
		}
		cc := c.switchCasesByConst(sw)["types."+kind]
		if cc == nil {
			return "", sw.Pos()
		}
		return sx(cc.Body), cc.Pos()
	}
	type site struct{ sp, fn string }
	renderers := []site{{"val", "Val.Key"}, {"val", "stringify"}, {"fun", "stringify0"}}
	// bool / str
	if s, p := arm("val", "Equals", "KBool"); s != "" {
		c.R.Check(strings.Contains(s, "Op:=="), "val.Equals", "bool compared with ==", p, "exact", "bool equality is not ==")
	}
	if s, p := arm("val", "Equals", "KStr"); s != "" {
		c.R.Check(strings.Contains(s, "Op:=="), "val.Equals", "str compared with ==", p, "exact", "string equality is not ==")
	}
	for _, r := range renderers[:2] {
		if s, p := arm(r.sp, r.fn, "KStr"); s != "" {
			c.R.Check(strings.Contains(s, "(SelectorExpr strconv Sel:Quote)"), r.sp+"."+r.fn, "str rendered by strconv.Quote (injective)", p, "distinct strings never render alike", "strings are not rendered/keyed through an injective quoting")
		}
		if s, p := arm(r.sp, r.fn, "KBool"); s != "" {
			c.R.Check(strings.Contains(s, "Sel:FormatBool"), r.sp+"."+r.fn, "bool rendered by FormatBool", p, "true/false", "bools are not rendered by FormatBool")
		}
	}
	// time
	eq, _ := arm("val", "Equals", "KTime")
	byInstant := strings.Contains(eq, "Sel:Equal)")
	for _, r := range renderers {
		s, p := arm(r.sp, r.fn, "KTime")
		if s == "" {
			continue
		}
		usesWallText := strings.Contains(s, "Sel:String)") && !strings.Contains(s, "Unix") && !strings.Contains(s, "UTC")
		if byInstant && usesWallText {
			c.R.Bad(r.sp+"."+r.fn, "time identity agrees with equality", p, "values are equal when they denote the same instant (time.Time.Equal) but are keyed/rendered with time.Time.String(), which includes the zone, the wall-clock reading and the monotonic clock: one instant in two zones, or time.Now() vs time.Now().Round(0), are == yet render differently and select different map entries")
		} else {
			c.R.OK(r.sp+"."+r.fn, "time identity agrees with equality", p, "rendering is derived from what equality compares")
		}
	}
	c.rendersEverything()
}

// SETORD-1: union / intersect / diff keep the first operand's order (then, for union, the second's).
func ruleSetOrd(c *Ctx) {
	c.R.Rule("SETORD-1", 4, "the set helpers are order preserving: each result is built by ranging over the first operand's insertion-ordered key list (union: then the second operand's), the operands are never swapped or reassigned, and valSetOf records keys in first-occurrence order")
	for _, h := range []struct {
		fn    string
		loops []int
	}{{"union", []int{0, 1}}, {"intersect", []int{0}}, {"diff", []int{0}}} {
		fd := c.FuncDecl("fun", h.fn)
		if fd == nil {
			c.R.Anchor("fun." + h.fn)
			continue
		}
		var params []types.Object
		for _, f := range fd.Type.Params.List {
			for _, n := range f.Names {
				if typeStr(c.typeOf(f.Type)) == "*fun.valSet" {
					params = append(params, c.objOf(n))
				}
			}
		}
		reassigned := false
		inspectNoLit(fd.Body, func(x ast.Node) bool {
			if as, ok := x.(*ast.AssignStmt); ok {
				for _, l := range as.Lhs {
					for _, p := range params {
						if c.objOf(l) == p {
							reassigned = true
						}
					}
				}
			}
			return true
		})
		var ranged []types.Object
		for _, st := range fd.Body.List {
			if r, ok := st.(*ast.RangeStmt); ok {
				if se, ok := unparen(r.X).(*ast.SelectorExpr); ok && se.Sel.Name == "link" {
					ranged = append(ranged, c.objOf(se.X))
				} else {
					ranged = append(ranged, nil)
				}
			}
		}
		ok := !reassigned && len(params) == 2 && len(ranged) == len(h.loops)
		if ok {
			for i, pi := range h.loops {
				if ranged[i] != params[pi] {
					ok = false
				}
			}
		}
		c.R.Check(ok, "fun."+h.fn, "result follows the first operand's order", fd.Pos(), "ranges over x.link (then y.link for union); operands not reassigned", "the result is not built in the first operand's insertion order (operands swapped/reassigned or another iteration order): "+h.fn+"([3,2,1],[1,2]) changes element order")
	}
	// call sites: whoever applies a set helper to the arguments of a built-in (the built-in's own literal, or a shared literal
	// that receives the helper as a function value) hands the first argument's set first, the second argument's set second
	sites := 0
	if pk := c.Mod["fun"]; pk != nil {
		for _, f := range pk.Syntax {
			ast.Inspect(f, func(x ast.Node) bool {
				lit, ok := x.(*ast.FuncLit)
				if !ok || lit.Type.Params == nil || len(lit.Type.Params.List) != 1 || len(lit.Type.Params.List[0].Names) != 1 {
					return true
				}
				if typeStr(c.typeOf(lit.Type.Params.List[0].Names[0])) != "[]*val.Val" {
					return true
				}
				pname := lit.Type.Params.List[0].Names[0].Name
				defs := c.localDefs(lit.Body)
				for _, call := range c.calls(lit.Body) {
					if len(call.Args) != 2 {
						continue
					}
					nm := c.calleeName(call)
					isHelper := nm == "fun.union" || nm == "fun.intersect" || nm == "fun.diff"
					if !isHelper && c.calleeObj(call) == nil && typeStr(c.typeOf(call.Fun)) == "func(x *fun.valSet, y *fun.valSet) []*val.Val" {
						isHelper, nm = true, src(call.Fun)
					}
					if !isHelper && c.calleeObj(call) == nil {
						if sig, ok := c.typeOf(call.Fun).Underlying().(*types.Signature); ok && sig.Params().Len() == 2 && typeStr(sig.Params().At(0).Type()) == "*fun.valSet" && typeStr(sig.Params().At(1).Type()) == "*fun.valSet" {
							isHelper, nm = true, src(call.Fun)
						}
					}
					if !isHelper {
						continue
					}
					sites++
					uses := func(e ast.Expr, k string) bool {
						return strings.Contains(c.sxInl(e, defs), "(IndexExpr "+pname+" Index:"+k+")")
					}
					ok := uses(call.Args[0], "0") && !uses(call.Args[0], "1") && uses(call.Args[1], "1") && !uses(call.Args[1], "0")
					c.R.Check(ok, "fun."+enclosingVarName(f, lit)+"$init", "operands reach "+nm+" in argument order", call.Pos(), "helper(set of args[0], set of args[1])", "the set helper is not called with (set of the first argument, set of the second argument): the result follows the wrong operand's order (intersect([3,2,1],[1,2,3]) must be [3,2,1]) or, for diff, the operands' roles are exchanged")
				}
				return true
			})
		}
	}
	c.R.Check(sites >= 1, "fun", "set built-ins call the set helpers", token.NoPos, "call sites found", "no call site of the set helpers found in the built-ins")
	if fd := c.FuncDecl("fun", "valSetOf"); fd != nil {
		// range over the list; key := v.String(); if _, seen := m[key]; !seen { m[key] = v; l = append(l, key) }
		ok := c.hasNode(fd, fd.Body, "(RangeStmt Key:_ Value:$0 Tok::= $p0 Body:(BlockStmt [(AssignStmt Lhs:[$1] Tok::= Rhs:[(CallExpr Fun:(SelectorExpr $0 Sel:String))]) (IfStmt Init:(AssignStmt Lhs:[_ $2] Tok::= Rhs:[(IndexExpr $3 Index:$1)]) Cond:(UnaryExpr Op:! $2) Body:(BlockStmt [(AssignStmt Lhs:[(IndexExpr $3 Index:$1)] Tok:= Rhs:[$0]) (AssignStmt Lhs:[$4] Tok:= Rhs:[(CallExpr Fun:append Args:[$4 $1])])]))]))", false)
		c.R.Check(ok, "fun.valSetOf", "keys recorded at first occurrence, in list order", fd.Pos(), "range xs; if !seen { m[hash] = v; l = append(l, hash) }", "valSetOf no longer records each distinct element once, in list order")
		byString := len(c.callsTo(fd.Body, "val.Val.String")) == 1
		c.R.Check(byString, "fun.valSetOf", "elements keyed by their canonical rendering", fd.Pos(), "hash := v.String(): membership agrees with rendering (C18)", "set membership is not keyed by Val.String")
	} else {
		c.R.Anchor("fun.valSetOf")
	}
}

// documented partial operations (one symbol each).
var partialTable = map[string]string{
	"fun.MOD_NUM_NUM$init|integer %": "documented: modulo by zero fails",
	"fun.MATCH_STR_STR$init|panic":   "documented: an invalid regular expression fails",
}

type builtinDef struct {
	name  string
	lit   *ast.FuncLit
	sig   *ast.CallExpr
	lazy  bool
	arity int
}

func (c *Ctx) builtins(sp string) []builtinDef {
	pk := c.Mod[sp]
	var out []builtinDef
	for _, n := range pk.Types.Scope().Names() {
		v, ok := pk.Types.Scope().Lookup(n).(*types.Var)
		if !ok || typeStr(v.Type()) != "*val.Val" {
			continue
		}
		lit, sig, lazy := c.builtinLit(sp, n)
		if lit == nil {
			continue
		}
		ar := -1
		if sig != nil && len(sig.Args) == 3 {
			if cl, ok := unparen(sig.Args[1]).(*ast.CompositeLit); ok {
				ar = len(cl.Elts)
			}
		}
		out = append(out, builtinDef{n, lit, sig, lazy, ar})
	}
	sort.Slice(out, func(i, j int) bool { return out[i].name < out[j].name })
	return out
}

// guardFacts collects, for a node, the comparison facts established by dominating `if cond { return/panic }` guards
// and util.Assert calls: strings like "idx>=0", "idx<len(lst)", "len(lst)!=0".
func (c *Ctx) guardFacts(body *ast.BlockStmt, g *FnCFG, at ast.Node, defs map[types.Object]ast.Expr) map[string]bool {
	facts := map[string]bool{}
	norm := func(e ast.Expr) string { return c.sxInl(e, nil) }
	addNeg := func(e ast.Expr) { // the negation of e holds
		var split func(e ast.Expr)
		split = func(e ast.Expr) {
			e = unparen(e)
			if b, ok := e.(*ast.BinaryExpr); ok && b.Op == token.LOR {
				split(b.X)
				split(b.Y)
				return
			}
			if b, ok := e.(*ast.BinaryExpr); ok {
				switch b.Op {
				case token.LSS: // !(x < y)  =>  x >= y
					facts[norm(b.X)+">="+norm(b.Y)] = true
				case token.GEQ: // !(x >= y) =>  x < y
					facts[norm(b.X)+"<"+norm(b.Y)] = true
				case token.GTR: // !(x > y)  =>  x <= y
					facts[norm(b.X)+"<="+norm(b.Y)] = true
				case token.LEQ:
					facts[norm(b.X)+">"+norm(b.Y)] = true
				case token.EQL:
					facts[norm(b.X)+"!="+norm(b.Y)] = true
				}
			}
		}
		split(e)
	}
	addPos := func(e ast.Expr) {
		var split func(e ast.Expr)
		split = func(e ast.Expr) {
			e = unparen(e)
			if b, ok := e.(*ast.BinaryExpr); ok && b.Op == token.LAND {
				split(b.X)
				split(b.Y)
				return
			}
			if b, ok := e.(*ast.BinaryExpr); ok {
				op := map[token.Token]string{token.LSS: "<", token.GEQ: ">=", token.GTR: ">", token.LEQ: "<=", token.NEQ: "!="}[b.Op]
				if op != "" {
					facts[norm(b.X)+op+norm(b.Y)] = true
				}
			}
		}
		split(e)
	}
	inspectNoLit(body, func(x ast.Node) bool {
		switch s := x.(type) {
		case *ast.IfStmt:
			if s.Else != nil || len(s.Body.List) == 0 || !g.dominates(s.Cond, at) {
				return true
			}
			if s.Body.Pos() <= at.Pos() && at.End() <= s.Body.End() {
				return true
			}
			last := s.Body.List[len(s.Body.List)-1]
			exits := false
			switch l := last.(type) {
			case *ast.ReturnStmt:
				exits = true
			case *ast.ExprStmt:
				if ce, ok := l.X.(*ast.CallExpr); ok && c.noReturn(ce) {
					exits = true
				}
			}
			if exits {
				addNeg(s.Cond)
			}
		case *ast.CallExpr:
			if c.calleeName(s) == "util.Assert" && len(s.Args) > 0 && g.dominates(s, at) {
				addPos(s.Args[0])
			}
		}
		return true
	})
	return facts
}

// totalOps checks every may-panic operation in body.
func (c *Ctx) totalOps(owner string, body *ast.BlockStmt, arity int, argsObj types.Object) {
	g := c.buildCFG(body)
	defs := c.localDefs(body)
	// loops: index var -> ranged / bounded slice
	loopIdx := map[types.Object]string{}
	inspectNoLit(body, func(x ast.Node) bool {
		switch s := x.(type) {
		case *ast.RangeStmt:
			if s.Key != nil {
				if o := c.objOf(s.Key); o != nil {
					loopIdx[o] = sx(s.X)
				}
			}
		case *ast.ForStmt:
			init, ok1 := s.Init.(*ast.AssignStmt)
			cond, ok2 := s.Cond.(*ast.BinaryExpr)
			_, ok3 := s.Post.(*ast.IncDecStmt)
			if ok1 && ok2 && ok3 && cond.Op == token.LSS {
				if v := c.constOf(init.Rhs[0]); v != nil && constant.Sign(v) >= 0 {
					if ce, ok := unparen(cond.Y).(*ast.CallExpr); ok && c.calleeName(ce) == "builtin.len" {
						if o := c.objOf(init.Lhs[0]); o != nil {
							loopIdx[o] = sx(ce.Args[0])
						}
					}
				}
			}
		}
		return true
	})
	inspectNoLit(body, func(x ast.Node) bool {
		switch n := x.(type) {
		case *ast.IndexExpr:
			t := c.typeOf(n.X)
			if t == nil {
				return true
			}
			switch t.Underlying().(type) {
			case *types.Map, *types.Signature:
				return true
			}
			desc := "index " + src(n)
			// (a) args[k]
			if c.objOf(n.X) == argsObj && argsObj != nil {
				if v := c.constOf(n.Index); v != nil {
					k, _ := constant.Int64Val(v)
					c.R.Check(int(k) < arity, owner, desc, n.Pos(), fmt.Sprintf("constant %d < arity %d (lemma ARITY: the checker asserts the argument count)", k, arity), fmt.Sprintf("reads argument %d but the signature declares %d parameters", k, arity))
					return true
				}
			}
			// (b) loop index over the same slice
			if o := c.objOf(n.Index); o != nil {
				if over, ok := loopIdx[o]; ok && over == sx(n.X) {
					c.R.OK(owner, desc, n.Pos(), "loop index over the same slice")
					return true
				}
			}
			facts := c.guardFacts(body, g, n, defs)
			xs := c.sxInl(n.X, nil)
			lenX := "(CallExpr Fun:len Args:[" + xs + "])"
			// (c) constant index after a non-empty guard
			if v := c.constOf(n.Index); v != nil {
				k, _ := constant.Int64Val(v)
				if k == 0 && (facts[lenX+"!=0"] || facts[lenX+">0"]) {
					c.R.OK(owner, desc, n.Pos(), "guarded by `if len(x) == 0 { return }`")
					return true
				}
			}
			// (d) 0 <= e < len(x)
			es := c.sxInl(n.Index, nil)
			lower := facts[es+">=0"] || facts[es+">-1"]
			upper := facts[es+"<"+lenX]
			if lower && upper {
				c.R.OK(owner, desc, n.Pos(), "dominating guards give 0 <= index < len")
				return true
			}
			missing := []string{}
			if !lower {
				missing = append(missing, "index >= 0")
			}
			if !upper {
				missing = append(missing, "index < len")
			}
			c.R.Bad(owner, desc, n.Pos(), "index can be out of range: no dominating guard establishes %s on the (integer) index expression itself", strings.Join(missing, " and "))
		case *ast.SliceExpr:
			// x[k:] with a constant k is in range iff len(x) >= k: k == 0 always, k == 1 after a non-empty guard
			if n.High == nil && !n.Slice3 {
				k := int64(0)
				okK := n.Low == nil
				if n.Low != nil {
					if v := c.constOf(n.Low); v != nil {
						k, okK = constant.Int64Val(constant.ToInt(v))
					}
				}
				if okK {
					facts := c.guardFacts(body, g, n, defs)
					lenX := "(CallExpr Fun:len Args:[" + c.sxInl(n.X, nil) + "])"
					switch {
					case k == 0:
						c.R.OK(owner, "slice "+src(n), n.Pos(), "x[0:] is the whole slice")
						return true
					case k == 1 && (facts[lenX+"!=0"] || facts[lenX+">0"] || facts[lenX+">=1"]):
						c.R.OK(owner, "slice "+src(n), n.Pos(), "x[1:] after `if len(x) == 0 { return }`")
						return true
					}
				}
			}
			c.R.Unk(owner, "slice "+src(n), n.Pos(), "slice expression in a total function: bounds not analysed")
		case *ast.BinaryExpr:
			if n.Op == token.QUO || n.Op == token.REM {
				if bt, ok := c.typeOf(n).Underlying().(*types.Basic); ok && bt.Info()&types.IsInteger != 0 && c.constOf(n.Y) == nil {
					if r, ok := partialTable[owner+"|integer %"]; ok && n.Op == token.REM {
						c.R.OK(owner, "integer "+n.Op.String(), n.Pos(), "%s", r)
					} else {
						c.R.Bad(owner, "integer "+n.Op.String(), n.Pos(), "integer division by a run-time value in a function that must not fail")
					}
				}
			}
		case *ast.TypeAssertExpr:
			if n.Type != nil {
				single := true
				inspectNoLit(body, func(y ast.Node) bool {
					if as, ok := y.(*ast.AssignStmt); ok && len(as.Lhs) == 2 && len(as.Rhs) == 1 && unparen(as.Rhs[0]) == ast.Expr(n) {
						single = false
					}
					return true
				})
				if single {
					c.R.Bad(owner, "type assertion "+src(n), n.Pos(), "single-value type assertion can panic")
				}
			}
		case *ast.CallExpr:
			nm := c.calleeName(n)
			switch nm {
			case "builtin.panic", "util.Assert", "util.Unreachable":
				// one class: an explicit failure (after canonicalisation `if c { panic(x) }` is util.Assert(!c, x))
				if r, ok := partialTable[owner+"|panic"]; ok {
					c.R.OK(owner, "explicit failure", n.Pos(), "%s", r)
				} else {
					c.R.Bad(owner, "explicit failure "+nm, n.Pos(), "explicit panic / assertion in a function that is not in the documented-partial table")
				}
			case "regexp.MustCompile":
				c.R.Bad(owner, "call "+nm, n.Pos(), "can fail in a function that is not in the documented-partial table")
			}
		}
		return true
	})
}

func ruleTotal1(c *Ctx) {
	c.R.Rule("TOTAL-1", 100, "library functions fail only where documented: in every built-in and in the set/rendering helpers each index is a constant below the arity, a loop index over the same slice, or dominated by guards giving 0 <= index < len on the integer index expression itself; integer division, panics and assertions occur only in the documented-partial table (% by zero, invalid regular expression)")
	for _, b := range c.builtins("fun") {
		var argsObj types.Object
		if len(b.lit.Type.Params.List) == 1 && len(b.lit.Type.Params.List[0].Names) == 1 {
			argsObj = c.objOf(b.lit.Type.Params.List[0].Names[0])
		}
		c.totalOps("fun."+b.name+"$init", b.lit.Body, b.arity, argsObj)
	}
	for _, h := range []string{"valSetOf", "union", "intersect", "diff"} {
		if fd := c.FuncDecl("fun", h); fd != nil {
			c.totalOps("fun."+h, fd.Body, 0, nil)
		} else {
			c.R.Anchor("fun." + h)
		}
	}
	if fd := c.FuncDecl("val", "MaybeVal.GetOrDefault"); fd != nil {
		// MAYBE-1: nil payload -> default, otherwise payload (path enumeration: any arrangement of if/else/early return)
		tc := &termCtx{c: c, defs: c.localDefs(fd.Body), names: map[types.Object]string{}}
		if fd.Recv != nil && len(fd.Recv.List) == 1 && len(fd.Recv.List[0].Names) == 1 {
			tc.names[c.objOf(fd.Recv.List[0].Names[0])] = "r"
		}
		if len(fd.Type.Params.List) == 1 && len(fd.Type.Params.List[0].Names) == 1 {
			tc.names[c.objOf(fd.Type.Params.List[0].Names[0])] = "p0"
		}
		paths, pok := c.retPaths(fd.Body.List)
		got := map[string]string{}
		for _, p := range paths {
			if p.end != "return" || len(p.ret.Results) != 1 {
				pok = false
				continue
			}
			var cs []string
			for _, pc := range p.conds {
				t := tc.tr(pc.e)
				if !pc.pos {
					if strings.HasPrefix(t, "not(") {
						t = t[4 : len(t)-1]
					} else {
						t = "not(" + t + ")"
					}
				}
				cs = append(cs, t)
			}
			sort.Strings(cs)
			got[strings.Join(cs, "&")] = tc.tr(p.ret.Results[0])
		}
		ok := pok && len(got) == 2 && got["eq(nil,r.V)"] == "p0" && got["not(eq(nil,r.V))"] == "r.V"
		c.R.Check(ok, "val.MaybeVal.GetOrDefault", "MAYBE-1 absent -> default, present -> payload", fd.Pos(), "the sole eliminator of optionals is total", fmt.Sprintf("GetOrDefault must return the default exactly when the payload is nil and the payload otherwise; paths found: %v", got))
	} else {
		c.R.Anchor("val.MaybeVal.GetOrDefault")
	}
}

// ---------- SIG-1 ----------

// yae types of a signature, symbolically: "num", "str", "bool", "time", "var:<obj>", "list(<t>)", "map(<k>,<v>)", "maybe(<t>)".
func (c *Ctx) symType(e ast.Expr, scope ast.Node) string {
	e = unparen(e)
	switch x := e.(type) {
	case *ast.SelectorExpr:
		if o := c.objOf(x); o != nil {
			switch qual(o) {
			case "types.Num":
				return "num"
			case "types.Str":
				return "str"
			case "types.Bool":
				return "bool"
			case "types.Time":
				return "time"
			}
		}
	case *ast.Ident:
		o := c.objOf(x)
		// local alias: T := types.TyVar("a") ; listT := types.List(T)
		var def ast.Expr
		ast.Inspect(scope, func(y ast.Node) bool {
			if as, ok := y.(*ast.AssignStmt); ok && len(as.Lhs) == 1 && len(as.Rhs) == 1 && c.objOf(as.Lhs[0]) == o {
				def = as.Rhs[0]
			}
			return true
		})
		if def != nil {
			if ce, ok := unparen(def).(*ast.CallExpr); ok {
				if fo := c.objOf(ce.Fun); fo != nil && qual(fo) == "types.TyVar" {
					return "var:" + x.Name // one variable per Go object: two TyVar calls are two variables
				}
			}
			return c.symType(def, scope)
		}
	case *ast.CallExpr:
		switch c.calleeName(x) {
		case "types.List":
			return "list(" + c.symType(x.Args[0], scope) + ")"
		case "types.Map":
			return "map(" + c.symType(x.Args[0], scope) + "," + c.symType(x.Args[1], scope) + ")"
		case "types.Maybe":
			return "maybe(" + c.symType(x.Args[0], scope) + ")"
		}
	}
	return "?" + src(e)
}

func ruleSig1(c *Ctx) {
	c.R.Rule("SIG-1", 100, "every built-in's body inhabits its declared signature (the types are invisible to go build because everything is *val.Val): each accessor applied to args[k] matches the constructor of parameter k (thunks of it for lazy functions), and every returned value has the declared result type (constructed primitive, the argument/element/default of the right type, or a list built with an argument's own type)")
	for _, b := range c.builtins("fun") {
		owner := "fun." + b.name + "$init"
		if b.sig == nil || b.arity < 0 {
			c.R.Unk(owner, "signature literal", b.lit.Pos(), "types.Fun(name, []*types.Type{..}, ret) not found")
			continue
		}
		scope := c.VarInit("fun", b.name)
		var params []string
		for _, e := range unparen(b.sig.Args[1]).(*ast.CompositeLit).Elts {
			params = append(params, c.symType(e, scope))
		}
		ret := c.symType(b.sig.Args[2], scope)
		argsObj := c.objOf(b.lit.Type.Params.List[0].Names[0])
		defs := c.localDefs(b.lit.Body)

		// abstract type of a *val.Val-valued (or payload) expression
		var typeOf func(e ast.Expr, d int) string
		argIdx := func(e ast.Expr) int {
			if ix, ok := unparen(e).(*ast.IndexExpr); ok && c.objOf(ix.X) == argsObj {
				if v := c.constOf(ix.Index); v != nil {
					k, _ := constant.Int64Val(v)
					return int(k)
				}
			}
			return -1
		}
		typeOf = func(e ast.Expr, d int) string {
			e = unparen(e)
			if d > 10 {
				return "?deep"
			}
			if k := argIdx(e); k >= 0 && k < len(params) {
				if b.lazy {
					return "thunk(" + params[k] + ")"
				}
				return params[k]
			}
			switch x := e.(type) {
			case *ast.Ident:
				if df, ok := defs[c.objOf(x)]; ok {
					return typeOf(df, d+1)
				}
				// v, ok := m[k]
				var two ast.Expr
				ast.Inspect(b.lit.Body, func(y ast.Node) bool {
					if as, ok := y.(*ast.AssignStmt); ok && len(as.Lhs) == 2 && len(as.Rhs) == 1 && c.objOf(as.Lhs[0]) == c.objOf(x) {
						two = as.Rhs[0]
					}
					return true
				})
				if two != nil {
					return typeOf(two, d+1)
				}
				// range value over a list payload
				var over ast.Expr
				ast.Inspect(b.lit.Body, func(y ast.Node) bool {
					if r, ok := y.(*ast.RangeStmt); ok && r.Value != nil && c.objOf(r.Value) == c.objOf(x) {
						over = r.X
					}
					return true
				})
				if over != nil {
					if sl, ok := unparen(over).(*ast.SliceExpr); ok {
						over = sl.X // a sub-slice has the element type of the slice
					}
					t := typeOf(over, d+1)
					if strings.HasPrefix(t, "payload:list(") {
						return strings.TrimSuffix(strings.TrimPrefix(t, "payload:list("), ")")
					}
				}
			case *ast.SelectorExpr:
				if o := c.objOf(x); o != nil {
					switch qual(o) {
					case "val.True", "val.False":
						return "bool"
					}
				}
				// X.V : payload of an accessor result
				if x.Sel.Name == "V" {
					t := typeOf(x.X, d+1)
					if strings.HasPrefix(t, "acc:") {
						return "payload:" + strings.TrimPrefix(t, "acc:")
					}
				}
			case *ast.IndexExpr:
				t := typeOf(x.X, d+1)
				if strings.HasPrefix(t, "payload:list(") {
					return strings.TrimSuffix(strings.TrimPrefix(t, "payload:list("), ")")
				}
				if strings.HasPrefix(t, "payload:map(") {
					inner := strings.TrimSuffix(strings.TrimPrefix(t, "payload:map("), ")")
					if i := strings.Index(inner, ","); i >= 0 {
						return inner[i+1:]
					}
				}
			case *ast.CallExpr:
				nm := c.calleeName(x)
				switch nm {
				case "val.Num":
					return "num"
				case "val.Str":
					return "str"
				case "val.Bool":
					return "bool"
				case "val.Time":
					return "time"
				case "val.FunVal.Call":
					if len(x.Args) == 0 {
						t := typeOf(x.Fun.(*ast.SelectorExpr).X, d+1)
						if strings.HasPrefix(t, "acc:thunk(") {
							return strings.TrimSuffix(strings.TrimPrefix(t, "acc:thunk("), ")")
						}
					}
				case "val.MaybeVal.GetOrDefault":
					t := typeOf(x.Fun.(*ast.SelectorExpr).X, d+1)
					dt := typeOf(x.Args[0], d+1)
					if strings.HasPrefix(t, "acc:maybe(") {
						inner := strings.TrimSuffix(strings.TrimPrefix(t, "acc:maybe("), ")")
						if dt == inner {
							return inner
						}
						return "?default has type " + dt + " but the payload is " + inner
					}
				case "val.List":
					// val.List(<X>.List().Type.List(), n): a list of X's own type
					s := sx(x.Args[0])
					for k := range params {
						if s == fmt.Sprintf("(CallExpr Fun:(SelectorExpr (SelectorExpr (CallExpr Fun:(SelectorExpr (IndexExpr args Index:%d) Sel:List)) Sel:Type) Sel:List))", k) {
							return params[k]
						}
					}
				}
				// accessors
				if se, ok := x.Fun.(*ast.SelectorExpr); ok && len(x.Args) == 0 {
					want := map[string]string{"Num": "num", "Str": "str", "Bool": "bool", "Time": "time"}
					t := typeOf(se.X, d+1)
					switch se.Sel.Name {
					case "Num", "Str", "Bool", "Time":
						if t == want[se.Sel.Name] {
							return "acc:" + t
						}
						if strings.HasPrefix(t, "var:") || strings.HasPrefix(t, "?") {
							return "?accessor " + se.Sel.Name + "() on a value of type " + t
						}
						return "!accessor " + se.Sel.Name + "() on a value of type " + t
					case "List":
						if strings.HasPrefix(t, "list(") {
							return "acc:" + t
						}
						return "!accessor List() on a value of type " + t
					case "Map":
						if strings.HasPrefix(t, "map(") {
							return "acc:" + t
						}
						return "!accessor Map() on a value of type " + t
					case "Maybe":
						if strings.HasPrefix(t, "maybe(") {
							return "acc:" + t
						}
						return "!accessor Maybe() on a value of type " + t
					case "Fun":
						if strings.HasPrefix(t, "thunk(") {
							return "acc:" + t
						}
						return "!accessor Fun() on a value of type " + t
					case "Vl":
						if strings.HasPrefix(t, "acc:") {
							return strings.TrimPrefix(t, "acc:")
						}
						return t
					case "Key":
						return "key"
					}
				}
			}
			return "?" + src(e)
		}
		// accessor discipline: every accessor call in the body on an args[k]-rooted value
		nAcc := 0
		ast.Inspect(b.lit.Body, func(y ast.Node) bool {
			ce, ok := y.(*ast.CallExpr)
			if !ok || len(ce.Args) != 0 {
				return true
			}
			se, ok := ce.Fun.(*ast.SelectorExpr)
			if !ok {
				return true
			}
			switch se.Sel.Name {
			case "Num", "Str", "Bool", "Time", "List", "Map", "Maybe", "Fun":
			default:
				return true
			}
			if !strings.HasPrefix(c.calleeName(ce), "val.Val.") {
				return true
			}
			nAcc++
			t := typeOf(ce, 0)
			desc := "accessor " + src(ce)
			switch {
			case strings.HasPrefix(t, "acc:"):
				c.R.OK(owner, desc, ce.Pos(), "operand has type %s", strings.TrimPrefix(t, "acc:"))
			case strings.HasPrefix(t, "!"):
				c.R.Bad(owner, desc, ce.Pos(), "mis-typed value access: %s (the unsafe cast reinterprets memory)", strings.TrimPrefix(t, "!"))
			default:
				c.R.Unk(owner, desc, ce.Pos(), "cannot type the operand: %s", t)
			}
			return true
		})
		// results
		for _, r := range returnsOf(b.lit.Body) {
			if len(r.Results) != 1 {
				continue
			}
			t := typeOf(r.Results[0], 0)
			desc := "return " + src(r.Results[0])
			// res.Vl() where res is a list built with an argument's type, its V assigned from a set helper
			switch {
			case t == ret:
				c.R.OK(owner, desc, r.Pos(), "has the declared result type %s", ret)
			case strings.HasPrefix(t, "?") || strings.HasPrefix(t, "acc:") || strings.HasPrefix(t, "payload:"):
				c.R.Unk(owner, desc, r.Pos(), "cannot type the result (%s); declared %s", t, ret)
			default:
				c.R.Bad(owner, desc, r.Pos(), "returns a value of type %s but the signature declares %s: every caller reinterprets it through an unchecked cast", t, ret)
			}
		}
	}
	// optionals are consumed only by get(maybe[a], a)
	for _, b := range c.builtins("fun") {
		scope := c.VarInit("fun", b.name)
		if b.sig == nil {
			continue
		}
		for i, e := range unparen(b.sig.Args[1]).(*ast.CompositeLit).Elts {
			t := c.symType(e, scope)
			if strings.Contains(t, "maybe(") {
				c.R.Check(b.name == "GET_MAYBE" && i == 0, "fun."+b.name+"$init", fmt.Sprintf("parameter %d of optional type", i), e.Pos(), "get(maybe[a], a) is the sole eliminator", "a built-in other than get accepts an optional where... it declares maybe[..] as parameter: optionals must only be consumed through get with a default")
			}
		}
	}
}

// IDENT-2: number text is injective (own rule id: it also serves C15's map-key faithfulness and C04's string conversion,
// which the time clause of IDENT-1 does not).
func ruleIdent2(c *Ctx) {
	c.R.Rule("IDENT-2", 4, "the text by which numbers are rendered and keyed is injective: util.FmtFloat is strconv.FormatFloat(n, fmt, -1, 64) of the value itself (shortest form that round-trips), util.FmtInt is strconv.FormatInt(n, base), and Key / stringify / string() render numbers through exactly these two")
	arm := func(sp, fn, kind string) (string, token.Pos) {
		fd := c.FuncDecl(sp, fn)
		if fd == nil {
			c.R.Anchor(sp + "." + fn)
			return "", token.NoPos
		}
		var sw *ast.SwitchStmt
		inspectNoLit(fd.Body, func(x ast.Node) bool {
			if s, ok := x.(*ast.SwitchStmt); ok && sw == nil && s.Tag != nil && strings.HasSuffix(src(s.Tag), "Kind") {
				sw = s
			}
			return true
		})
		if sw == nil {
			return "", fd.Pos()
		}
		cc := c.switchCasesByConst(sw)["types."+kind]
		if cc == nil {
			return "", sw.Pos()
		}
		return sx(cc.Body), cc.Pos()
	}
	type site struct{ sp, fn string }
	renderers := []site{{"val", "Val.Key"}, {"val", "stringify"}, {"fun", "stringify0"}}
	// num: the text used for rendering and keying is injective on float64 (shortest round-trip form) and on int64
	{
		// fmtCall: on every return path the result is (a string conversion of) one call of strconv.<fmtName> / <appName>
		// on the function's own, never reassigned, parameter; returns the argument list after the value argument
		fmtCall := func(sp, fn, fmtName, appName string) (*ast.FuncDecl, [][]ast.Expr, string) {
			fd := c.FuncDecl(sp, fn)
			if fd == nil {
				c.R.Anchor(sp + "." + fn)
				return nil, nil, ""
			}
			var param types.Object
			if fd.Type.Params != nil && len(fd.Type.Params.List) == 1 && len(fd.Type.Params.List[0].Names) == 1 {
				param = c.objOf(fd.Type.Params.List[0].Names[0])
			}
			if param == nil {
				return fd, nil, "not a function of one parameter"
			}
			reassigned := false
			ast.Inspect(fd.Body, func(x ast.Node) bool {
				switch st := x.(type) {
				case *ast.AssignStmt:
					for _, l := range st.Lhs {
						if id, ok := unparen(l).(*ast.Ident); ok && c.objOf(id) == param {
							reassigned = true
						}
					}
				case *ast.IncDecStmt:
					if id, ok := unparen(st.X).(*ast.Ident); ok && c.objOf(id) == param {
						reassigned = true
					}
				case *ast.UnaryExpr:
					if st.Op == token.AND {
						if id, ok := unparen(st.X).(*ast.Ident); ok && c.objOf(id) == param {
							reassigned = true
						}
					}
				}
				return true
			})
			if reassigned {
				return fd, nil, "the value is modified before it is formatted"
			}
			defs := c.localDefs(fd.Body)
			var out [][]ast.Expr
			rets := returnsOf(fd.Body)
			if len(rets) == 0 {
				return fd, nil, "no return"
			}
			for _, r := range rets {
				if len(r.Results) != 1 {
					return fd, nil, "unexpected result list"
				}
				e := unparen(r.Results[0])
				for d := 0; d < 4; d++ {
					if id, ok := e.(*ast.Ident); ok {
						if def, ok := defs[c.objOf(id)]; ok {
							e = unparen(def)
							continue
						}
					}
					if ce, ok := e.(*ast.CallExpr); ok && len(ce.Args) == 1 {
						if tv, ok := c.infoAt(ce).Types[ce.Fun]; ok && tv.IsType() && typeStr(tv.Type) == "string" {
							e = unparen(ce.Args[0])
							continue
						}
					}
					break
				}
				ce, ok := e.(*ast.CallExpr)
				if !ok {
					return fd, nil, "result " + src(r.Results[0]) + " is not a formatter call"
				}
				var rest []ast.Expr
				switch c.calleeName(ce) {
				case "strconv." + fmtName:
					if len(ce.Args) < 1 {
						return fd, nil, "bad call"
					}
					if id, ok := unparen(ce.Args[0]).(*ast.Ident); !ok || c.objOf(id) != param {
						return fd, nil, "formats " + src(ce.Args[0]) + ", not the value itself"
					}
					rest = ce.Args[1:]
				case "strconv." + appName:
					if len(ce.Args) < 2 {
						return fd, nil, "bad call"
					}
					if id, ok := unparen(ce.Args[1]).(*ast.Ident); !ok || c.objOf(id) != param {
						return fd, nil, "formats " + src(ce.Args[1]) + ", not the value itself"
					}
					rest = ce.Args[2:]
				default:
					return fd, nil, "result comes from " + c.calleeName(ce)
				}
				out = append(out, rest)
			}
			return fd, out, ""
		}
		constInt := func(e ast.Expr) (int64, bool) {
			v := c.constOf(e)
			if v == nil {
				return 0, false
			}
			if i, ok := constant.Int64Val(constant.ToInt(v)); ok {
				return i, true
			}
			return 0, false
		}
		if fd, calls, why := fmtCall("util", "FmtFloat", "FormatFloat", "AppendFloat"); fd != nil {
			ok := why == "" && len(calls) > 0
			for _, a := range calls {
				if len(a) != 3 {
					ok = false
					continue
				}
				f, okF := constInt(a[0])
				prec, okP := constInt(a[1])
				bits, okB := constInt(a[2])
				if !(okF && strings.ContainsRune("feEgG", rune(f)) && okP && prec == -1 && okB && bits == 64) {
					ok = false
					why = "format arguments are not (one of f e E g G, -1, 64)"
				}
			}
			c.R.Check(ok, "util.FmtFloat", "float text is the shortest round-trip form of the value itself", fd.Pos(), "strconv.FormatFloat / AppendFloat(n, fmt, -1, 64) on every return: distinct float64 values give distinct text, so non-integral numbers never render alike or collide as map keys", "non-integral numbers are not rendered by strconv.FormatFloat(n, fmt, -1, 64) of the value itself ("+why+"): distinct numbers can render alike and collide as map keys, and host maps with float keys lose entries")
		}
		if fd, calls, why := fmtCall("util", "FmtInt", "FormatInt", "AppendInt"); fd != nil {
			ok := why == "" && len(calls) > 0
			for _, a := range calls {
				if len(a) != 1 {
					ok = false
					continue
				}
				base, okB := constInt(a[0])
				if !(okB && base >= 2 && base <= 36) {
					ok = false
				}
			}
			c.R.Check(ok, "util.FmtInt", "integer text is the exact positional form of the value itself", fd.Pos(), "strconv.FormatInt / AppendInt(n, base): injective", "integral numbers are not rendered by strconv.FormatInt of the value itself ("+why+")")
		}
		for _, r := range renderers {
			s, p := arm(r.sp, r.fn, "KNum")
			if s == "" {
				continue
			}
			okNum := strings.Contains(s, "(SelectorExpr util Sel:FmtFloat)") && strings.Contains(s, "(SelectorExpr util Sel:FmtInt)")
			if !okNum {
				// through a helper of the same package (a shared number formatter): the arm's calls, followed two levels deep
				if fd := c.FuncDecl(r.sp, r.fn); fd != nil {
					var sw *ast.SwitchStmt
					inspectNoLit(fd.Body, func(x ast.Node) bool {
						if s2, ok := x.(*ast.SwitchStmt); ok && sw == nil && s2.Tag != nil && strings.HasSuffix(src(s2.Tag), "Kind") {
							sw = s2
						}
						return true
					})
					if sw != nil {
						if cc := c.switchCasesByConst(sw)["types.KNum"]; cc != nil {
							seen := map[string]bool{}
							var follow func(n ast.Node, d int)
							follow = func(n ast.Node, d int) {
								for _, call := range c.allCallsDeep(n) {
									nm := c.calleeName(call)
									seen[nm] = true
									// helpers of the same package, or any helper that did not exist at the pinned commit (util.FmtNum)
									if f, ok := c.calleeObj(call).(*types.Func); ok && d < 2 && f.Pkg() != nil && (short(f.Pkg().Path()) == r.sp || (c.Mod[short(f.Pkg().Path())] != nil && !knownFuncs[qual(f)])) {
										if hd := c.declOf(f); hd != nil && hd.Body != nil && hd != fd {
											follow(hd.Body, d+1)
										}
									}
								}
							}
							follow(&ast.BlockStmt{List: cc.Body}, 0)
							okNum = seen["util.FmtFloat"] && seen["util.FmtInt"]
						}
					}
				}
			}
			c.R.Check(okNum, r.sp+"."+r.fn, "num rendered through util.FmtInt / util.FmtFloat", p, "the two injective formatters", "numbers are rendered/keyed by something other than util.FmtInt / util.FmtFloat")
			// .. applied to the number itself: the argument is a path into the value (casts, field selections, Int() / int64 of
			// such a path), never a computed number (rounded, snapped to a grid, scaled): f(g(x)) is injective only if g is
			if fd := c.FuncDecl(r.sp, r.fn); fd != nil && okNum {
				defs := c.localDefs(fd.Body)
				var isPath func(e ast.Expr, d int) bool
				isPath = func(e ast.Expr, d int) bool {
					if d > 8 {
						return false
					}
					switch x := unparen(e).(type) {
					case *ast.Ident:
						if def, ok := defs[c.objOf(x)]; ok {
							return isPath(def, d+1)
						}
						return true
					case *ast.SelectorExpr:
						return isPath(x.X, d+1)
					case *ast.StarExpr:
						return isPath(x.X, d+1)
					case *ast.CallExpr:
						if tv, ok := c.infoAt(x).Types[x.Fun]; ok && tv.IsType() && len(x.Args) == 1 {
							return isPath(x.Args[0], d+1)
						}
						if se, ok := x.Fun.(*ast.SelectorExpr); ok && len(x.Args) == 0 && (castAccessors[se.Sel.Name] || c.calleeName(x) == "val.NumVal.Int") {
							return isPath(se.X, d+1)
						}
					}
					return false
				}
				var sw *ast.SwitchStmt
				inspectNoLit(fd.Body, func(x ast.Node) bool {
					if s2, ok := x.(*ast.SwitchStmt); ok && sw == nil && s2.Tag != nil && strings.HasSuffix(src(s2.Tag), "Kind") {
						sw = s2
					}
					return true
				})
				if sw != nil {
					if cc := c.switchCasesByConst(sw)["types.KNum"]; cc != nil {
						for _, call := range c.callsTo(&ast.BlockStmt{List: cc.Body}, "util.FmtFloat", "util.FmtInt") {
							if len(call.Args) != 1 {
								continue
							}
							c.R.Check(isPath(call.Args[0], 0), r.sp+"."+r.fn, c.calleeName(call)+" applied to the number itself", call.Pos(), "a path into the value", "the formatter is applied to "+src(call.Args[0])+", a number computed from the value: distinct numbers that this computation maps together get one text / one map key, although == and the other renderers tell them apart")
						}
					}
				}
			}
		}
	}
}

// enclosingVarName names the package-level variable (or function) whose initialiser contains lit.
func enclosingVarName(f *ast.File, lit ast.Node) string {
	for _, d := range f.Decls {
		if d.Pos() <= lit.Pos() && lit.End() <= d.End() {
			switch x := d.(type) {
			case *ast.FuncDecl:
				return x.Name.Name
			case *ast.GenDecl:
				for _, sp := range x.Specs {
					if vs, ok := sp.(*ast.ValueSpec); ok && vs.Pos() <= lit.Pos() && lit.End() <= vs.End() && len(vs.Names) > 0 {
						return vs.Names[0].Name
					}
				}
			}
		}
	}
	return "?"
}

// rendersEverything (clause of IDENT-1): the canonical rendering is also the identity by which union / intersect / diff
// recognise an element (valSetOf keys by String()), and the text string() returns. It can only be injective on composite
// values if it renders *every* element: in the list, map and object arms of the renderers every loop that renders
// elements ranges over the whole payload (no sub-slice with an upper bound, no loop that starts late or stops early) and
// its body has no break / continue / return. A display limit ("... N more") makes long values that agree on a prefix equal.
func (c *Ctx) rendersEverything() {
	for _, r := range []struct{ sp, fn string }{{"val", "stringify"}, {"fun", "stringify0"}} {
		fd := c.FuncDecl(r.sp, r.fn)
		name := r.sp + "." + r.fn
		if fd == nil {
			continue // anchored by the other clauses
		}
		name = fnName(r.sp, fd)
		self := c.calleeObjOfDecl(fd)
		defs := c.localDefs(fd.Body)
		loops := c.absLoops(fd.Body, defs)
		n := 0
		inspectNoLit(fd.Body, func(x ast.Node) bool {
			var body *ast.BlockStmt
			switch l := x.(type) {
			case *ast.RangeStmt:
				body = l.Body
			case *ast.ForStmt:
				body = l.Body
			default:
				return true
			}
			rec := false
			for _, call := range c.calls(body) {
				if c.calleeObj(call) == self {
					rec = true
				}
			}
			if !rec {
				return true
			}
			n++
			ok, why := false, "a loop the checker cannot read as a walk over one sequence"
			for i := range loops {
				l := &loops[i]
				if l.stmt != x.(ast.Stmt) {
					continue
				}
				ok, why = true, ""
				if l.seq == nil {
					ok, why = false, "the loop bound is not the length of the payload"
					break
				}
				if l.start != nil {
					ok, why = false, "the loop does not start at the first element"
				}
				if se, isSl := unparen(l.seq).(*ast.SliceExpr); isSl && (se.High != nil || se.Low != nil) {
					ok, why = false, "the loop ranges over a sub-slice "+src(l.seq)+" of the payload"
				}
			}
			ast.Inspect(body, func(y ast.Node) bool {
				switch b := y.(type) {
				case *ast.FuncLit:
					return false
				case *ast.BranchStmt:
					if b.Tok == token.BREAK || b.Tok == token.CONTINUE || b.Tok == token.GOTO {
						ok, why = false, "the loop body can skip or stop ("+b.Tok.String()+")"
					}
				case *ast.ReturnStmt:
					ok, why = false, "the loop body returns early"
				}
				return true
			})
			what := "?"
			switch l := x.(type) {
			case *ast.RangeStmt:
				what = src(l.X)
			case *ast.ForStmt:
				if l.Cond != nil {
					what = src(l.Cond)
				}
			}
			c.R.Check(ok, name, "rendering loop over "+what+" renders every element", x.Pos(), "whole payload, no early exit", why+": composite values that differ only in an element that is not rendered get the same text, hence the same set identity and the same string() — while == tells them apart")
			return true
		})
		c.R.Check(n >= 2, name, "element-rendering loops found", fd.Pos(), fmt.Sprintf("%d loops", n), "fewer than two element-rendering loops found in the canonical renderer")
	}
}
