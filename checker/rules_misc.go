package main

import (
	"fmt"
	"go/ast"
	"go/constant"
	"go/token"
	"go/types"
	"os"
	"reflect"
	"strings"
)

// CONV-1..4 + SIBLING-10 (host data conversion), SQL-1..5, DB-1..5 (debug evaluation).

func init() {
	reg("CONV", ruleConv)
	reg("SQL", ruleSQL)
	reg("DEBUG", ruleDebug)
}

// ---------- CONV ----------

func ruleConv(c *Ctx) {
	c.R.Rule("CONV", 25, "host-data conversion: the type path and the value path classify every reflect.Kind alike and recognise time.Time after stripping pointers; both recursive converters test the depth limit on entry and recurse into components with lv+1; nil is tested before a reflected value is used and a nil field becomes Nothing of the field's static type; every later slice element / map key / map value is unconditionally compared with the first; struct values and field types are appended in lock-step under the tag name")
	tyOf, vlOf := c.FuncDecl("conv", "typeOf"), c.FuncDecl("conv", "valOf")
	if tyOf == nil || vlOf == nil {
		c.R.Anchor("conv.typeOf / conv.valOf")
		return
	}
	// SIBLING-10: kind tables
	cat := func(body []ast.Stmt) string {
		// classify by what the arm finally returns
		s := sx(body)
		rets := returnsOf(&ast.BlockStmt{List: body})
		if len(rets) > 0 {
			s = sx(rets[len(rets)-1].Results)
		}
		switch {
		case strings.Contains(s, "Sel:Bool)"):
			return "bool"
		case strings.Contains(s, "Sel:Num)"):
			return "num"
		case strings.Contains(s, "Sel:Str)"):
			return "str"
		case strings.Contains(s, "Sel:List)") || strings.Contains(s, "valOfSlice"):
			return "list"
		case strings.Contains(s, "Sel:Map)") || strings.Contains(s, "valOfMap"):
			return "map"
		case strings.Contains(s, "Sel:Obj)") || strings.Contains(s, "valOfStruct"):
			return "obj"
		case strings.Contains(s, "panic"):
			return "fail"
		}
		return "?"
	}
	table := func(fd *ast.FuncDecl) (map[string]string, *ast.SwitchStmt) {
		var sw *ast.SwitchStmt
		inspectNoLit(fd.Body, func(x ast.Node) bool {
			if s, ok := x.(*ast.SwitchStmt); ok && sw == nil && s.Tag != nil && strings.HasSuffix(src(s.Tag), ".Kind()") {
				sw = s
			}
			return true
		})
		out := map[string]string{}
		if sw == nil {
			return out, nil
		}
		for k, cc := range c.switchCasesByConst(sw) {
			out[k] = cat(cc.Body)
		}
		// kinds answered from a package-level table before the switch: `if t, ok := tbl[rt.Kind()]; ok { return t }`
		inspectNoLit(fd.Body, func(x ast.Node) bool {
			is, ok := x.(*ast.IfStmt)
			if !ok || is.Else != nil || len(is.Body.List) != 1 {
				return true
			}
			as, ok := is.Init.(*ast.AssignStmt)
			if !ok || len(as.Lhs) != 2 || len(as.Rhs) != 1 {
				return true
			}
			ix, ok := unparen(as.Rhs[0]).(*ast.IndexExpr)
			if !ok || !strings.HasSuffix(src(ix.Index), ".Kind()") || c.objOf(is.Cond) == nil || c.objOf(is.Cond) != c.objOf(as.Lhs[1]) {
				return true
			}
			r, ok := is.Body.List[0].(*ast.ReturnStmt)
			if !ok || len(r.Results) != 1 || c.objOf(r.Results[0]) != c.objOf(as.Lhs[0]) {
				return true
			}
			tv, ok := c.objOf(ix.X).(*types.Var)
			if !ok || tv.Pkg() == nil || tv.Parent() != tv.Pkg().Scope() {
				return true
			}
			for _, e := range c.tableEntries(short(tv.Pkg().Path()), tv.Name()) {
				if ko := c.objOf(e.key); ko != nil {
					if _, dup := out[qual(ko)]; !dup {
						out[qual(ko)] = cat([]ast.Stmt{&ast.ReturnStmt{Results: []ast.Expr{e.val}}})
					}
				}
			}
			return true
		})
		return out, sw
	}
	tt, tsw := table(tyOf)
	vt, vsw := table(vlOf)
	if tsw == nil || vsw == nil {
		c.R.Bad("conv", "SIBLING-10 kind switches", tyOf.Pos(), "kind switch not found in typeOf/valOf")
	} else {
		keys := map[string]bool{}
		for k := range tt {
			keys[k] = true
		}
		for k := range vt {
			keys[k] = true
		}
		for _, k := range sortedStr(keys) {
			c.R.Check(tt[k] == vt[k] && tt[k] != "" && tt[k] != "?", "conv.typeOf", "SIBLING-10 "+k+" classified alike", tsw.Pos(),
				"type path and value path both give "+tt[k], fmt.Sprintf("reflect kind %s is %q on the type path but %q on the value path: the type reported for a Go value differs from the type of its converted value", k, tt[k], vt[k]))
		}
		want := map[string]string{"reflect.Bool": "bool", "reflect.String": "str", "reflect.Int": "num", "reflect.Int64": "num", "reflect.Uint8": "num", "reflect.Float64": "num", "reflect.Float32": "num", "reflect.Slice": "list", "reflect.Array": "list", "reflect.Map": "map", "reflect.Struct": "obj"}
		for _, k := range []string{"reflect.Array", "reflect.Bool", "reflect.Float32", "reflect.Float64", "reflect.Int", "reflect.Int64", "reflect.Map", "reflect.Slice", "reflect.String", "reflect.Struct", "reflect.Uint8"} {
			c.R.Check(tt[k] == want[k], "conv.typeOf", "SIBLING-10 "+k+" -> "+want[k], tsw.Pos(), "documented mapping", "kind is mapped to "+tt[k])
		}
	}
	// time.Time recognised after stripping, before the kind switch
	for _, fd := range []*ast.FuncDecl{tyOf, vlOf} {
		name := "conv." + fd.Name.Name
		g := c.buildCFG(fd.Body)
		var strip *ast.ForStmt
		var timeTest *ast.IfStmt
		var sw *ast.SwitchStmt
		inspectNoLit(fd.Body, func(x ast.Node) bool {
			switch s := x.(type) {
			case *ast.ForStmt:
				if strings.Contains(sx(s.Cond), "Pointer") && strip == nil {
					strip = s
				}
			case *ast.IfStmt:
				if strings.Contains(sx(s.Cond), "typeOfTime") {
					timeTest = s
				}
			case *ast.SwitchStmt:
				if sw == nil && s.Tag != nil {
					sw = s
				}
			}
			return true
		})
		ok := strip != nil && timeTest != nil && sw != nil && g.dominates(strip, timeTest.Cond) && g.dominates(timeTest.Cond, sw.Tag)
		c.R.Check(ok, name, "SIBLING-10 time.Time recognised after pointer stripping, before the kind switch", fd.Pos(),
			"strip loop, then `rt == typeOfTime`, then the kind switch", "time.Time is compared before pointers are stripped (or after the kind switch): *time.Time is reflected as a struct on this path only")
	}
	// CONV-1 depth
	depth := func(fd *ast.FuncDecl, family []string) {
		name := "conv." + fd.Name.Name
		var lvObj types.Object
		for _, f := range fd.Type.Params.List {
			for _, n := range f.Names {
				if n.Name == "lv" {
					lvObj = c.objOf(n)
				}
			}
		}
		if lvObj == nil {
			c.R.Unk(name, "CONV-1 depth parameter", fd.Pos(), "no lv parameter")
			return
		}
		for _, call := range c.calls(fd.Body) {
			nm := c.calleeName(call)
			for _, fam := range family {
				if nm != fam {
					continue
				}
				arg := call.Args[len(call.Args)-1]
				s := sx(arg)
				sameLevelHelper := strings.HasSuffix(nm, "valOfSlice") || strings.HasSuffix(nm, "valOfMap") || strings.HasSuffix(nm, "valOfStruct")
				ok := s == "(BinaryExpr lv Op:+ Y:1)" || (sameLevelHelper && s == "lv")
				if nm == "conv.typeOf" && fd.Name.Name != "typeOf" {
					// type-only conversion of the same Go type from the value path: same level or a fresh count; typeOf guards itself
					ok = ok || s == "lv" || s == "0"
				}
				c.R.Check(ok, name, "CONV-1 "+strings.TrimPrefix(nm, "conv.")+"("+src(call.Args[0])+", "+src(arg)+") deepens the level", call.Pos(),
					"component conversion passes lv+1", "recursion into a component passes "+src(arg)+": the depth limit never triggers on this path (a self-referential struct type recurses until the Go stack is exhausted, which no recover can catch)")
			}
		}
	}
	guard := func(fd *ast.FuncDecl) {
		name := "conv." + fd.Name.Name
		// an assertion `lv <= maxLevel` (or `<`) on the level parameter that dominates every call of the function
		ok := false
		g := c.buildCFG(fd.Body)
		nodes, terms := c.assertedTerms(fd, fd.Body)
		lvName := fmt.Sprintf("p%d", fd.Type.Params.NumFields()-1)
		for i, tm := range terms {
			maxT := "conv.maxLevel"
			if mo, isC := c.Obj("conv", "maxLevel").(*types.Const); isC {
				maxT = "const:" + mo.Val().ExactString()
			}
			if tm == "le("+lvName+","+maxT+")" || tm == "lt("+lvName+","+maxT+")" {
				ok = true
				for _, call := range c.calls(fd.Body) {
					if call.Pos() >= nodes[i].Pos() && call.End() <= nodes[i].End() {
						continue
					}
					if nm := c.calleeName(call); nm == "util.Assert" && call.Pos() < nodes[i].Pos() {
						continue
					}
					if !g.dominates(nodes[i], call) {
						ok = false
					}
				}
			}
		}
		c.R.Check(ok, name, "CONV-1 depth limit tested on entry", fd.Pos(), "`if lv > maxLevel { panic }` is the first statement", "the converter does not test the depth limit before anything else")
	}
	guard(tyOf)
	guard(vlOf)
	depth(tyOf, []string{"conv.typeOf"})
	for _, fn := range []string{"valOf", "valOfSlice", "valOfMap", "valOfStruct"} {
		if fd := c.FuncDecl("conv", fn); fd != nil {
			depth(fd, []string{"conv.valOf", "conv.valOfSlice", "conv.valOfMap", "conv.valOfStruct", "conv.typeOf"})
		} else {
			c.R.Anchor("conv." + fn)
		}
	}
	// CONV-2 nil before use
	{
		g := c.buildCFG(vlOf.Body)
		var nilTest ast.Node
		{
			nodes, terms := c.assertedTerms(vlOf, vlOf.Body)
			for i, tm := range terms {
				if tm == "not(conv.isNil(p0))" && nilTest == nil {
					nilTest = nodes[i]
				}
			}
		}
		ok := nilTest != nil
		if ok {
			for _, call := range c.calls(vlOf.Body) {
				if nm := c.calleeName(call); strings.HasPrefix(nm, "reflect.Value.") && nm != "reflect.Value.IsValid" && !g.dominates(nilTest, call) {
					ok = false
				}
			}
		}
		c.R.Check(ok, "conv.valOf", "CONV-2 nil tested before the reflected value is used", vlOf.Pos(), "`if isNil(rv) { panic }` dominates every reflect accessor", "a reflect accessor can run on a nil/invalid value")
	}
	// CONV-2 what counts as absent: every nil-able kind the converters accept (pointer, interface, slice, map) is nil-tested
	if in := c.FuncDecl("conv", "isNil"); in != nil {
		covered := map[int64]bool{}
		invalidIsNil := false
		for _, a := range c.asserted(in.Body) {
			_ = a
		}
		inspectNoLit(in.Body, func(x ast.Node) bool {
			switch st := x.(type) {
			case *ast.IfStmt:
				if strings.Contains(src(st.Cond), "IsValid()") && strings.HasPrefix(strings.TrimSpace(src(st.Cond)), "!") && len(st.Body.List) == 1 {
					if r, ok := st.Body.List[0].(*ast.ReturnStmt); ok && len(r.Results) == 1 && src(r.Results[0]) == "true" {
						invalidIsNil = true
					}
				}
			case *ast.SwitchStmt:
				if st.Tag == nil || !strings.Contains(src(st.Tag), "Kind()") {
					return true
				}
				for _, cl := range st.Body.List {
					cc := cl.(*ast.CaseClause)
					retIsNil := false
					if len(cc.Body) == 1 {
						if r, ok := cc.Body[0].(*ast.ReturnStmt); ok && len(r.Results) == 1 {
							if ce, ok := unparen(r.Results[0]).(*ast.CallExpr); ok && c.calleeName(ce) == "reflect.Value.IsNil" {
								retIsNil = true
							}
						}
					}
					if !retIsNil {
						continue
					}
					for _, e := range cc.List {
						if v := c.constOf(e); v != nil {
							if k, ok := constant.Int64Val(constant.ToInt(v)); ok {
								covered[k] = true
							}
						}
					}
				}
			}
			return true
		})
		// an if-chain form: k == reflect.X || ... -> return v.IsNil()
		inspectNoLit(in.Body, func(x ast.Node) bool {
			is, ok := x.(*ast.IfStmt)
			if !ok || len(is.Body.List) != 1 {
				return true
			}
			r, ok := is.Body.List[0].(*ast.ReturnStmt)
			if !ok || len(r.Results) != 1 {
				return true
			}
			ce, ok := unparen(r.Results[0]).(*ast.CallExpr)
			if !ok || c.calleeName(ce) != "reflect.Value.IsNil" {
				return true
			}
			var walk func(e ast.Expr)
			walk = func(e ast.Expr) {
				e = unparen(e)
				// a predicate of the same package over the kind: the kinds for which it answers true
				if pc, ok := e.(*ast.CallExpr); ok && len(pc.Args) == 1 {
					if f, ok := c.calleeObj(pc).(*types.Func); ok && f.Pkg() != nil && short(f.Pkg().Path()) == "conv" {
						if pd := c.declOf(f); pd != nil && pd.Body != nil {
							for _, r := range returnsOf(pd.Body) {
								if len(r.Results) == 1 {
									if v := c.constOf(r.Results[0]); v == nil {
										walk(r.Results[0])
									}
								}
							}
							inspectNoLit(pd.Body, func(y ast.Node) bool {
								cc, ok := y.(*ast.CaseClause)
								if !ok || len(cc.Body) != 1 {
									return true
								}
								if r, ok := cc.Body[0].(*ast.ReturnStmt); ok && len(r.Results) == 1 {
									if v := c.constOf(r.Results[0]); v != nil && v.Kind() == constant.Bool && constant.BoolVal(v) {
										for _, ce := range cc.List {
											if kv := c.constOf(ce); kv != nil {
												if k, ok := constant.Int64Val(constant.ToInt(kv)); ok {
													covered[k] = true
												}
											}
										}
									}
								}
								return true
							})
						}
					}
					return
				}
				if b, ok := e.(*ast.BinaryExpr); ok {
					if b.Op == token.LOR {
						walk(b.X)
						walk(b.Y)
						return
					}
					if b.Op == token.EQL {
						for _, side := range []ast.Expr{b.X, b.Y} {
							if v := c.constOf(side); v != nil {
								if k, ok := constant.Int64Val(constant.ToInt(v)); ok {
									covered[k] = true
								}
							}
						}
					}
				}
			}
			walk(is.Cond)
			return true
		})
		need := map[string]int64{"Interface": int64(reflect.Interface), "Map": int64(reflect.Map), "Pointer": int64(reflect.Ptr), "Slice": int64(reflect.Slice)}
		missing := []string{}
		for _, nm := range []string{"Interface", "Map", "Pointer", "Slice"} {
			if !covered[need[nm]] {
				missing = append(missing, nm)
			}
		}
		c.R.Check(len(missing) == 0 && invalidIsNil, "conv.isNil", "CONV-2 every nil-able kind the converters accept is nil-tested", in.Pos(), "invalid -> nil; Interface, Map, Pointer, Slice -> v.IsNil()", "isNil does not test "+strings.Join(missing, ", ")+" values for nil (or an invalid value is not nil): a nil host "+strings.Join(missing, "/")+" is then converted as if present instead of becoming Nothing of its optional type, so programs over it are accepted without get(.., default) and fail or misbehave on the absence")
	} else {
		c.R.Anchor("conv.isNil")
	}
	if vs := c.FuncDecl("conv", "valOfStruct"); vs != nil {
		var nilIf *ast.IfStmt
		inspectNoLit(vs.Body, func(x ast.Node) bool {
			if is, ok := x.(*ast.IfStmt); ok && len(c.callsTo(is.Cond, "conv.isNil")) == 1 {
				nilIf = is
			}
			return true
		})
		ok := false
		if nilIf != nil && nilIf.Else != nil {
			thenNothing := false
			for _, n := range c.callsTo(nilIf.Body, "val.Nothing") {
				if len(c.callsTo(n.Args[0], "conv.typeOf")) == 1 {
					thenNothing = true
				}
			}
			elseJust := len(c.callsTo(nilIf.Else, "val.Just")) == 1 && len(c.callsTo(nilIf.Else, "conv.valOf")) == 1
			justUnderMaybe := false
			ast.Inspect(nilIf.Else, func(x ast.Node) bool {
				if is, ok := x.(*ast.IfStmt); ok && src(is.Cond) == "maybe" && len(c.callsTo(is.Body, "val.Just")) == 1 {
					justUnderMaybe = true
				}
				return true
			})
			ok = thenNothing && elseJust && justUnderMaybe
		}
		c.R.Check(ok, "conv.valOfStruct", "CONV-2 nil field -> Nothing(static field type); tagged non-nil field -> Just", vs.Pos(), "absence has a distinct optional type; presence is wrapped only when declared optional", "nil / optional struct fields are not converted to Nothing / Just as specified")
		// CONV-4 lock-step
		var loop *ast.ForStmt
		inspectNoLit(vs.Body, func(x ast.Node) bool {
			if f, ok := x.(*ast.ForStmt); ok && loop == nil {
				loop = f
			}
			return true
		})
		ok4 := false
		if loop != nil {
			var apps []string
			var appArgs []ast.Expr
			for _, st := range loop.Body.List {
				if as, ok := st.(*ast.AssignStmt); ok && len(as.Rhs) == 1 {
					if ce, ok := as.Rhs[0].(*ast.CallExpr); ok && c.calleeName(ce) == "builtin.append" {
						apps = append(apps, sx(ce.Args[1:]))
						appArgs = append(appArgs, ce.Args[1])
					}
				}
			}
			// vs = append(vs, X); ks = append(ks, types.Field{Name: <name from parseTag>, Val: X.Type}) with the same X
			tag := c.callsTo(loop.Body, "conv.parseTag")
			ok4 = len(apps) == 2 && len(tag) == 1
			if ok4 {
				xo := c.objOf(appArgs[0])
				var nameObj types.Object
				inspectNoLit(loop.Body, func(y ast.Node) bool {
					if as, ok := y.(*ast.AssignStmt); ok && len(as.Rhs) == 1 && unparen(as.Rhs[0]) == ast.Expr(tag[0]) && len(as.Lhs) >= 1 {
						nameObj = c.objOf(as.Lhs[0])
					}
					return true
				})
				cl, isLit := unparen(appArgs[1]).(*ast.CompositeLit)
				ok4 = xo != nil && nameObj != nil && isLit && len(cl.Elts) == 2
				if ok4 {
					var nm, vl ast.Expr
					for _, e := range cl.Elts {
						if kv, ok := e.(*ast.KeyValueExpr); ok {
							switch src(kv.Key) {
							case "Name":
								nm = kv.Value
							case "Val":
								vl = kv.Value
							}
						}
					}
					se, isSel := vl.(*ast.SelectorExpr)
					ok4 = nm != nil && c.objOf(nm) == nameObj && isSel && se.Sel.Name == "Type" && c.objOf(se.X) == xo
				}
			}
		}
		// obj.V = <the value slice>, built with types.Obj(<the field slice>)
		okInstall := false
		inspectNoLit(vs.Body, func(y ast.Node) bool {
			if as, ok := y.(*ast.AssignStmt); ok && len(as.Lhs) == 1 && len(as.Rhs) == 1 {
				if se, ok := as.Lhs[0].(*ast.SelectorExpr); ok && se.Sel.Name == "V" && strings.HasSuffix(typeStr(c.typeOf(se.X)), "val.ObjVal") {
					okInstall = typeStr(c.typeOf(as.Rhs[0])) == "[]*val.Val"
				}
			}
			return true
		})
		okTy := false
		for _, call := range c.callsTo(vs.Body, "types.Obj") {
			if len(call.Args) == 1 && typeStr(c.typeOf(call.Args[0])) == "[]types.Field" {
				if _, isIdent := unparen(call.Args[0]).(*ast.Ident); isIdent {
					okTy = true
				}
			}
		}
		ok4 = ok4 && okInstall && okTy
		// one Go field, one object field — on both paths: the loops over rt.NumField() in typeOf and valOfStruct run every
		// iteration to its end (no continue / break) and add exactly one entry per iteration (no `append(xs, ys...)`). A field
		// that is skipped, or expanded into several, on a condition that the two paths evaluate on different things (the static
		// field type there, the converted value here) gives one Go type two object types.
		for _, fn := range []string{"typeOf", "valOfStruct"} {
			fd := c.FuncDecl("conv", fn)
			if fd == nil {
				continue
			}
			nLoops := 0
			inspectNoLit(fd.Body, func(x ast.Node) bool {
				var body *ast.BlockStmt
				var hdr string
				switch l := x.(type) {
				case *ast.ForStmt:
					body = l.Body
					if l.Cond != nil {
						hdr = src(l.Cond)
					}
				case *ast.RangeStmt:
					body, hdr = l.Body, src(l.X)
				default:
					return true
				}
				if !strings.Contains(hdr, "NumField") && len(c.callsTo(body, "conv.parseTag")) == 0 {
					return true
				}
				nLoops++
				ok, why := true, ""
				ast.Inspect(body, func(y ast.Node) bool {
					switch b := y.(type) {
					case *ast.FuncLit:
						return false
					case *ast.BranchStmt:
						ok, why = false, "the loop over the struct's fields can "+b.Tok.String()
					case *ast.CallExpr:
						if id, isID := b.Fun.(*ast.Ident); isID && id.Name == "append" && b.Ellipsis.IsValid() {
							ok, why = false, "the loop splices a whole list of entries ("+src(b)+") for one Go field"
						}
					}
					return true
				})
				c.R.Check(ok, "conv."+fn, "CONV-4 one object field per Go field", x.Pos(), "every iteration runs to its end and appends one entry", why+": the set of object fields is no longer the set of Go fields on this path")
				return true
			})
			c.R.Check(nLoops >= 1, "conv."+fn, "CONV-4 struct-field loop found", fd.Pos(), "loop over rt.NumField()", "no loop over the struct's fields found")
		}
		c.R.Check(ok4, "conv.valOfStruct", "CONV-4 values and field types appended in lock-step under the tag name", vs.Pos(), "vs = append(vs, vl); ks = append(ks, Field{name, vl.Type}) in one iteration; obj.V = vs with type Obj(ks)", "struct values and their field types are not built in lock-step (a field's declared type can differ from its value's type)")
	}
	if tyOfStruct := tyOf; tyOfStruct != nil {
		tag := c.callsTo(tyOf.Body, "conv.parseTag")
		mb := false
		inspectNoLit(tyOf.Body, func(x ast.Node) bool {
			if is, ok := x.(*ast.IfStmt); ok && src(is.Cond) == "maybe" && len(c.callsTo(is.Body, "types.Maybe")) == 1 {
				mb = true
			}
			return true
		})
		c.R.Check(len(tag) == 1 && mb, "conv.typeOf", "SIBLING-10 struct fields named and marked optional by parseTag", tyOf.Pos(), "same tag parser as the value path", "type path does not take field names / the optional marker from parseTag")
	}
	// CONV-3 homogeneity, unconditional
	homog := func(fn string, wantAsserts int) {
		fd := c.FuncDecl("conv", fn)
		if fd == nil {
			c.R.Anchor("conv." + fn)
			return
		}
		// the loop over the later elements, however it is written (counted from 1, or range xs[1:])
		var loop *absLoop
		loops := c.absLoops(fd.Body, c.localDefs(fd.Body))
		for i := range loops {
			if len(c.callsTo(loops[i].body, "conv.assertTypeEquals")) > 0 && loop == nil {
				loop = &loops[i]
			}
		}
		ok := false
		why := "no loop over the later elements that calls assertTypeEquals"
		if loop != nil {
			k, known := loop.startsAt(c.Prog)
			startsAt1 := known && k == 1
			n := 0
			for _, st := range loop.body.List { // top-level statements of the loop body only: unconditional
				if es, ok := st.(*ast.ExprStmt); ok {
					if ce, ok := es.X.(*ast.CallExpr); ok && c.calleeName(ce) == "conv.assertTypeEquals" {
						n++
					}
				}
			}
			total := len(c.callsTo(loop.body, "conv.assertTypeEquals"))
			ok = startsAt1 && n == wantAsserts && total == wantAsserts
			why = fmt.Sprintf("starts at 1: %v; unconditional assertTypeEquals in the loop: %d of %d expected (total %d)", startsAt1, n, wantAsserts, total)
			// every iteration runs to its end: a skipped element leaves a hole (a nil *val.Val) in a container whose type says otherwise
			inspectNoLit(loop.body, func(x ast.Node) bool {
				switch x.(type) {
				case *ast.BranchStmt, *ast.ReturnStmt:
					ok = false
					why += "; the loop body can leave an iteration early (" + c.pos(x.Pos()) + "): that element is never converted or stored"
				}
				return true
			})
			// .. and stores the element it converted, unconditionally
			stores := 0
			for _, st := range loop.body.List {
				if es, isExpr := st.(*ast.ExprStmt); isExpr {
					if ce, isCall := es.X.(*ast.CallExpr); isCall {
						switch c.calleeName(ce) {
						case "val.ListVal.Set", "val.ListVal.Add", "val.MapVal.Put":
							stores++
						}
					}
				}
			}
			if stores != 1 {
				ok = false
				why += fmt.Sprintf("; %d unconditional stores of the converted element in the loop (expected 1)", stores)
			}
		}
		c.R.Check(ok, "conv."+fn, "CONV-3 every later element compared with the first, unconditionally", fd.Pos(), why, "homogeneity of converted containers is not asserted for every element: "+why+" — a container whose declared element type lies about some entries is produced instead of an error")
	}
	homog("valOfSlice", 1)
	homog("valOfMap", 2)
	if ate := c.FuncDecl("conv", "assertTypeEquals"); ate != nil {
		ok := false
		_, terms := c.assertedTerms(ate, ate.Body)
		for _, tm := range terms {
			if tm == "types.Equals(p0.Type,p1.Type)" || tm == "types.Equals(p1.Type,p0.Type)" {
				ok = true
			}
		}
		c.R.Check(ok, "conv.assertTypeEquals", "CONV-3 panics unless types.Equals", ate.Pos(), "structural equality", "assertTypeEquals does not fail on unequal types")
	}
	// the two map-environment builders agree modulo renaming
	a, b := c.FuncDecl("conv", "typeEnvOfMap"), c.FuncDecl("conv", "valEnvOfMap")
	if a != nil && b != nil {
		norm := func(fd *ast.FuncDecl) string {
			sigs, ok := c.pathSigs(fd, fd.Body, true)
			if !ok {
				return "?" + fd.Name.Name
			}
			r := strings.NewReplacer("conv.valOfRV", "conv.typeOfRV", "val.NewEnv", "types.NewEnv", "val.Env.", "types.Env.", "*val.Env", "*types.Env")
			return r.Replace(strings.Join(sigs, "\n"))
		}
		if os.Getenv("YAE_DEBUG") != "" {
			fmt.Println("A:", norm(a))
			fmt.Println("B:", norm(b))
		}
		c.R.Check(norm(a) == norm(b), "conv.typeEnvOfMap", "SIBLING-10 equals valEnvOfMap modulo renaming", a.Pos(), "same traversal of the host map", "the type and value environments of a host map are built differently")
	}
	// list/map fills go through the asserting setters
	if vsl := c.FuncDecl("conv", "valOfSlice"); vsl != nil {
		c.R.Check(len(c.callsTo(vsl.Body, "val.ListVal.Set")) == 2, "conv.valOfSlice", "CONV-3 elements stored through ListVal.Set", vsl.Pos(), "Set asserts the element type again", "list elements are stored without the asserting setter")
	}
}

// ---------- SQL ----------

func ruleSQL(c *Ctx) {
	c.R.Rule("SQL", 15, "SQL emitter: NOT binds tighter than AND, AND tighter than OR (constant-evaluated), only those three functions take part, parentheses are added iff the enclosing power exceeds the own power and children are compiled under the own power; every run-time value reaches the text only through fmtVal; strings are quoted by strconv.Quote alone; bool/num/time have their exact forms and anything else fails; the logical formatters put the connective in infix/prefix position; no SQL function is lazy")
	init := c.VarInit("ext/sql", "logicalFunPrecTbl")
	cl, ok := init.(*ast.CompositeLit)
	if !ok {
		c.R.Anchor("ext/sql.logicalFunPrecTbl")
		return
	}
	prec := map[string]constant.Value{}
	for _, e := range cl.Elts {
		kv, ok := e.(*ast.KeyValueExpr)
		if !ok {
			continue
		}
		if o := c.objOf(kv.Key); o != nil {
			prec[o.Name()] = c.constOf(kv.Value)
		}
	}
	okP := len(prec) == 3 && prec["LOGIC_NOT_BOOL"] != nil && prec["LOGIC_AND_BOOL_BOOL"] != nil && prec["LOGIC_OR_BOOL_BOOL"] != nil &&
		constant.Compare(prec["LOGIC_NOT_BOOL"], token.GTR, prec["LOGIC_AND_BOOL_BOOL"]) && constant.Compare(prec["LOGIC_AND_BOOL_BOOL"], token.GTR, prec["LOGIC_OR_BOOL_BOOL"])
	c.R.Check(okP, "ext/sql.logicalFunPrecTbl", "SQL-1 NOT > AND > OR, exactly these three", cl.Pos(), fmt.Sprintf("NOT=%v AND=%v OR=%v", prec["LOGIC_NOT_BOOL"], prec["LOGIC_AND_BOOL_BOOL"], prec["LOGIC_OR_BOOL_BOOL"]),
		fmt.Sprintf("precedence table is not NOT > AND > OR over exactly the three logical functions (NOT=%v AND=%v OR=%v, %d entries): a group under a tighter connective is emitted without parentheses and re-associates when read with SQL precedence", prec["LOGIC_NOT_BOOL"], prec["LOGIC_AND_BOOL_BOOL"], prec["LOGIC_OR_BOOL_BOOL"], len(prec)))
	comp := c.FuncDecl("ext/sql", "compile")
	if comp == nil {
		c.R.Anchor("ext/sql.compile")
		return
	}
	var ts *ast.TypeSwitchStmt
	for _, s := range c.typeSwitches(comp.Body) {
		if ts == nil {
			ts = s
		}
	}
	if ts == nil {
		c.R.Anchor("ext/sql.compile type switch")
		return
	}
	cases := c.tsCases(ts)
	if cc := cases["parser/ast.CallExpr"]; cc != nil {
		s := sx(cc.Body)
		blk := &ast.BlockStmt{List: cc.Body}
		// prec, ok := logicalFunPrecTbl[..]; parens := ok && outerPrec > prec; children compile(arg, env1, prec); if parens { "(" + .. + ")" }
		var precObj, okObj, parensObj types.Object
		okTbl := false
		inspectNoLit(blk, func(y ast.Node) bool {
			as, isAs := y.(*ast.AssignStmt)
			if !isAs || len(as.Rhs) != 1 {
				return true
			}
			if ix, isIx := unparen(as.Rhs[0]).(*ast.IndexExpr); isIx && len(as.Lhs) == 2 {
				if o := c.objOf(ix.X); o != nil && qual(o) == "ext/sql.logicalFunPrecTbl" {
					precObj, okObj, okTbl = c.objOf(as.Lhs[0]), c.objOf(as.Lhs[1]), true
				}
			}
			return true
		})
		okParen := false
		inspectNoLit(blk, func(y ast.Node) bool {
			as, isAs := y.(*ast.AssignStmt)
			if !isAs || len(as.Lhs) != 1 || len(as.Rhs) != 1 || precObj == nil {
				return true
			}
			if be, isB := unparen(as.Rhs[0]).(*ast.BinaryExpr); isB && be.Op == token.LAND && c.objOf(be.X) == okObj {
				if cmp, isC := unparen(be.Y).(*ast.BinaryExpr); isC && cmp.Op == token.GTR && c.objOf(cmp.Y) == precObj {
					if po, isParam := c.objOf(cmp.X).(*types.Var); isParam && typeStr(po.Type()) == "parser/oper.BP" && po != precObj {
						okParen, parensObj = true, c.objOf(as.Lhs[0])
					}
				}
			}
			return true
		})
		okChild := false
		for _, call := range c.callsTo(blk, "ext/sql.compile") {
			if len(call.Args) == 3 && c.objOf(call.Args[2]) == precObj && precObj != nil {
				okChild = true
			}
		}
		okWrap := false
		ast.Inspect(blk, func(y ast.Node) bool {
			if is, isIf := y.(*ast.IfStmt); isIf && parensObj != nil && c.objOf(is.Cond) == parensObj {
				w := sx(is.Body)
				okWrap = strings.Contains(w, "(BinaryExpr (BinaryExpr \"(\" Op:+ Y:") && strings.Contains(w, "Op:+ Y:\")\")")
			}
			return true
		})
		// the same decision however it is spelled (a flag tested at run time, or the wrapping closure chosen at compile time):
		// the one expression "(" + .. + ")" of the arm is control-dependent — through every enclosing literal — on
		// `ok && outerPrec > prec`, ok and prec being the results of the precedence-table lookup
		if !(okParen && okWrap) && precObj != nil {
			var wraps []ast.Node
			ast.Inspect(blk, func(y ast.Node) bool {
				if be, isB := y.(*ast.BinaryExpr); isB && be.Op == token.ADD {
					if inner, isB2 := unparen(be.X).(*ast.BinaryExpr); isB2 && inner.Op == token.ADD {
						if l, ok1 := c.constStr(inner.X); ok1 && l == "(" {
							if r, ok2 := c.constStr(be.Y); ok2 && r == ")" {
								wraps = append(wraps, be)
							}
						}
					}
				}
				return true
			})
			if len(wraps) == 1 {
				defs := c.localDefs(blk)
				var conj []ast.Expr
				var split func(e ast.Expr, d int)
				split = func(e ast.Expr, d int) {
					e = unparen(e)
					if be, isB := e.(*ast.BinaryExpr); isB && be.Op == token.LAND {
						split(be.X, d)
						split(be.Y, d)
						return
					}
					if id, isID := e.(*ast.Ident); isID && d < 3 {
						if def, has := defs[c.objOf(id)]; has {
							split(def, d+1)
							return
						}
					}
					conj = append(conj, e)
				}
				for _, pc := range c.condsThrough(comp, wraps[0]) {
					if pc.pos {
						split(pc.e, 0)
					}
				}
				hasOK, hasCmp := false, false
				for _, e := range conj {
					if c.objOf(e) == okObj && okObj != nil {
						hasOK = true
					}
					if cmp, isC := e.(*ast.BinaryExpr); isC {
						x, y, op := cmp.X, cmp.Y, cmp.Op
						if op == token.LSS {
							x, y, op = y, x, token.GTR
						}
						if op == token.GTR && c.objOf(y) == precObj {
							if po, isVar := c.objOf(x).(*types.Var); isVar && typeStr(po.Type()) == "parser/oper.BP" && po != precObj {
								hasCmp = true
							}
						}
					}
				}
				if hasOK && hasCmp {
					okParen, okWrap = true, true
				}
			}
		}
		c.R.Check(okParen && okChild && okWrap && okTbl, "ext/sql.compile", "SQL-1 parenthesise iff outerPrec > prec; children under prec", cc.Pos(), "structure of the criteria tree is preserved under SQL precedence", "parenthesisation rule changed (must be: parens := ok && outerPrec > prec; children compiled with prec; wrap in ( ) when parens)")
		okStatic := len(c.callsTo(&ast.BlockStmt{List: cc.Body}, "util.Assert")) >= 1 && strings.Contains(s, "Sel:Resolved")
		c.R.Check(okStatic, "ext/sql.compile", "SQL-5 only statically resolved calls", cc.Pos(), "dynamic dispatch is refused", "dynamic calls are not refused")
	}
	// SQL-2: run-time values only through fmtVal
	pk := c.Mod["ext/sql"]
	for _, f := range pk.Syntax {
		var stack []ast.Node
		ast.Inspect(f, func(x ast.Node) bool {
			if x == nil {
				stack = stack[:len(stack)-1]
				return false
			}
			stack = append(stack, x)
			ce, ok := x.(*ast.CallExpr)
			if !ok {
				return true
			}
			nm := c.calleeName(ce)
			if nm != "val.Env.Get" && nm != "val.Env.MustGet" {
				return true
			}
			// find the enclosing statement and check that the value's uses end in fmtVal(...)
			owner := "ext/sql.compile"
			okFlow := false
			for i := len(stack) - 1; i >= 0; i-- {
				if outer, ok := stack[i].(*ast.CallExpr); ok && c.calleeName(outer) == "ext/sql.fmtVal" && outer != ce {
					okFlow = true
				}
			}
			if !okFlow {
				// v, ok := env.Get(..) ; every later use of v is fmtVal(v) or v.Obj().Get(name) -> fmtVal
				for i := len(stack) - 1; i >= 0; i-- {
					as, ok := stack[i].(*ast.AssignStmt)
					if !ok || len(as.Rhs) != 1 || !(as.Rhs[0].Pos() <= ce.Pos() && ce.End() <= as.Rhs[0].End()) {
						continue
					}
					vo := c.objOf(as.Lhs[0])
					var lit ast.Node
					for j := i; j >= 0; j-- {
						if l, ok := stack[j].(*ast.FuncLit); ok {
							lit = l
							break
						}
					}
					if lit == nil || vo == nil {
						break
					}
					uses, good := 0, 0
					var st2 []ast.Node
					derived := map[types.Object]bool{vo: true}
					ast.Inspect(lit, func(y ast.Node) bool {
						if y == nil {
							st2 = st2[:len(st2)-1]
							return false
						}
						st2 = append(st2, y)
						if a2, ok := y.(*ast.AssignStmt); ok && len(a2.Rhs) == 1 && a2 != as {
							for o := range derived {
								if mentions(c, a2.Rhs[0], o) {
									if d := c.objOf(a2.Lhs[0]); d != nil {
										derived[d] = true
									}
								}
							}
						}
						id, ok := y.(*ast.Ident)
						if !ok || !derived[c.objOf(id)] || c.infoAt(id).Defs[id] != nil {
							return true
						}
						uses++
						for k := len(st2) - 1; k >= 0; k-- {
							if oc, ok := st2[k].(*ast.CallExpr); ok && c.calleeName(oc) == "ext/sql.fmtVal" {
								good++
								break
							}
							if a3, ok := st2[k].(*ast.AssignStmt); ok && a3 != as {
								good++ // flows into another derived variable
								break
							}
						}
						return true
					})
					okFlow = uses > 0 && uses == good
				}
			}
			c.R.Check(okFlow, owner, "SQL-2 value of "+src(ce)+" reaches the text only through fmtVal", ce.Pos(), "formatted and quoted by fmtVal", "a run-time value is used outside fmtVal: it can reach the SQL text unquoted")
			return true
		})
	}
	// fmtVal arms
	fv := c.FuncDecl("ext/sql", "fmtVal")
	if fv == nil {
		c.R.Anchor("ext/sql.fmtVal")
	} else {
		// case analysis by path enumeration: a switch over v.Type, an if/else chain and early returns are the same thing
		tc := c.fnTerms(fv)
		paths, pok := c.retPaths(fv.Body.List)
		type armT struct {
			extras []string
			ret    string
			end    string
		}
		arms := map[string][]armT{}
		for _, p := range paths {
			kind := "other"
			var extras []string
			for _, ct := range tc.pathTerms(p) {
				op, as := splitTerm(ct)
				if op == "eq" && len(as) == 2 && (as[0] == "p0.Type" || as[1] == "p0.Type") {
					k := as[0]
					if k == "p0.Type" {
						k = as[1]
					}
					kind = k
					continue
				}
				if op == "not" && strings.HasPrefix(as[0], "eq(") && strings.Contains(as[0], "p0.Type") {
					continue
				}
				extras = append(extras, ct)
			}
			a := armT{extras: extras, end: p.end}
			if p.ret != nil && len(p.ret.Results) == 1 {
				a.ret = tc.tr(p.ret.Results[0])
			}
			arms[kind] = append(arms[kind], a)
		}
		pos := fv.Pos()
		if !pok {
			c.R.Unk("ext/sql.fmtVal", "SQL-3 case analysis over the value's type", pos, "fmtVal is not loop-free: its paths cannot be enumerated")
		} else {
			retOf := func(kind string, extra string) (string, bool) {
				for _, a := range arms[kind] {
					if (extra == "" && len(a.extras) == 0) || (len(a.extras) == 1 && a.extras[0] == extra) {
						return a.ret, a.end == "return"
					}
				}
				return "", false
			}
			sr, ok1 := retOf("types.Str", "")
			c.R.Check(ok1 && sr == "ext/sql.escape(p0:str.V)" && len(arms["types.Str"]) == 1, "ext/sql.fmtVal", "SQL-2 strings go through escape", pos, "return escape(v.Str().V)", "a string value is emitted without escape(): "+sr)
			tv, fvv := c.Obj("ext/sql", "True"), c.Obj("ext/sql", "False")
			okTF, tT, tF := false, "?", "?"
			if t, ok := tv.(*types.Const); ok {
				if f, ok := fvv.(*types.Const); ok {
					okTF = constant.StringVal(t.Val()) == "1" && constant.StringVal(f.Val()) == "0"
					tT, tF = "const:"+t.Val().ExactString(), "const:"+f.Val().ExactString()
				}
			}
			bt, okb1 := retOf("types.Bool", "p0:bool.V")
			bf, okb2 := retOf("types.Bool", "not(p0:bool.V)")
			c.R.Check(okb1 && okb2 && bt == tT && bf == tF && len(arms["types.Bool"]) == 2, "ext/sql.fmtVal", "SQL-3 bool -> 1/0", pos, "True/False constants", "booleans are not emitted as the True/False constants")
			c.R.Check(okTF, "ext/sql.True/False", "SQL-3 True=\"1\" False=\"0\"", token.NoPos, "exact SQL form", "boolean constants changed")
			if os.Getenv("YAE_DEBUG") != "" {
				for _, a := range arms["types.Num"] {
					fmt.Println("SQL3 num arm:", a.extras, "=>", a.ret, a.end)
				}
			}
			ni, okn1 := retOf("types.Num", "m:val.NumVal.IsInt(p0:num)")
			nf, okn2 := retOf("types.Num", "not(m:val.NumVal.IsInt(p0:num))")
			okNumArm := okn1 && okn2 && ni == "util.FmtInt(m:val.NumVal.Int(p0:num))" && nf == "util.FmtFloat(p0:num.V)" && len(arms["types.Num"]) == 2
			if !okNumArm && len(arms["types.Num"]) == 2 {
				// the same case split with IsInt / Int written out on the float itself (a shared formatter taking the float):
				// int64(X) only where X is integral and |X| < 2^63, FmtFloat(X) on the complementary path
				const X = "p0:num.V"
				var intArm, floatArm *armT
				for i := range arms["types.Num"] {
					a := &arms["types.Num"][i]
					switch a.ret {
					case "util.FmtInt(conv:int64(" + X + "))":
						intArm = a
					case "util.FmtFloat(" + X + ")":
						floatArm = a
					}
				}
				if intArm != nil && floatArm != nil && intArm.end == "return" && floatArm.end == "return" {
					integral, bounded := false, false
					for _, e := range intArm.extras {
						if e == "eq(math.Trunc("+X+"),"+X+")" || e == "eq("+X+",math.Trunc("+X+"))" {
							integral = true
						}
						if strings.HasPrefix(e, "lt(math.Abs("+X+"),") {
							b := strings.TrimSuffix(strings.TrimPrefix(e, "lt(math.Abs("+X+"),"), ")")
							if b == "bin<<(const:1,const:63)" || b == "const:9223372036854775808" || b == "const:9.223372036854775808e+18" {
								bounded = true
							}
						}
					}
					okNumArm = integral && bounded && len(intArm.extras) == 2 && len(floatArm.extras) == 1
					ni, nf = intArm.ret, floatArm.ret
				}
			}
			c.R.Check(okNumArm, "ext/sql.fmtVal", "SQL-3 num -> exact decimal text", pos, "FmtInt under IsInt (INTGUARD-1), FmtFloat otherwise", "numbers are not formatted by FmtInt under IsInt / FmtFloat otherwise: "+ni+" / "+nf)
			tr, okt := retOf("types.Time", "")
			c.R.Check(okt && tr == "fmt.Sprintf(const:\"from_unixtime(%d)\",m:time.Time.Unix(p0:time.V))" && len(arms["types.Time"]) == 1, "ext/sql.fmtVal", "SQL-3 time -> from_unixtime(seconds)", pos, "instant as Unix seconds", "times are not emitted as from_unixtime(<Unix seconds>): "+tr)
			okDef := len(arms["other"]) > 0
			for _, a := range arms["other"] {
				if a.end != "panic" {
					okDef = false
				}
			}
			c.R.Check(okDef, "ext/sql.fmtVal", "SQL-3 other kinds fail", pos, "unsupported values are refused", "a value of another kind does not fail")
			c.R.Check(len(arms) == 5, "ext/sql.fmtVal", "SQL-3 exactly bool/num/str/time/default", pos, "no other kind is formatted", fmt.Sprintf("%d kinds", len(arms)))
		}
	}
	if es := c.FuncDecl("ext/sql", "escape"); es != nil {
		sigs, sok := c.pathSigs(es, es.Body, true)
		ok := sok && len(sigs) == 1 && sigs[0] == "if{} do{} return{strconv.Quote(p0)}"
		c.R.Check(ok, "ext/sql.escape", "SQL-2 escape is strconv.Quote and nothing else", es.Pos(), "quotes, backslashes and control characters are escaped: no character of the operand can end the literal", "escape() has a path that does not go through strconv.Quote (a hand-written fast path must escape at least \" and \\)")
	} else {
		c.R.Anchor("ext/sql.escape")
	}
	// literals in compile also go through fmtVal
	for _, k := range []string{"parser/ast.StrExpr", "parser/ast.NumExpr", "parser/ast.TimeExpr", "parser/ast.BoolExpr"} {
		if cc := cases[k]; cc != nil {
			c.R.Check(len(c.callsTo(&ast.BlockStmt{List: cc.Body}, "ext/sql.fmtVal")) == 1, "ext/sql.compile", "SQL-2 literal "+strings.TrimPrefix(k, "parser/ast.")+" formatted by fmtVal", cc.Pos(), "same formatter as run-time values", "literal is emitted without fmtVal")
		}
	}
	// SQL-4 formatters
	fmtShape := func(name, want string) {
		lit, _, _ := c.builtinLit("ext/sql", name)
		if lit == nil {
			c.R.Anchor("ext/sql." + name)
			return
		}
		got := sqlHelperRoles(c, c.sxN(lit, lit.Body.List))
		c.R.Check(got == want, "ext/sql."+name+"$init", "SQL-4 connective in position", lit.Pos(), "operands and connective in source order", "formatter changed: "+compact(got))
	}
	bin := func(conn string) string {
		return "[(ReturnStmt Results:[(CallExpr Fun:s Args:[\"%s %s %s\" (CallExpr Fun:ds Args:[(IndexExpr $p0 Index:0)]) " + conn + " (CallExpr Fun:ds Args:[(IndexExpr $p0 Index:1)])])])]"
	}
	fmtShape("LOGIC_AND_BOOL_BOOL", bin("AND"))
	fmtShape("LOGIC_OR_BOOL_BOOL", bin("OR"))
	fmtShape("LOGIC_NOT_BOOL", "[(ReturnStmt Results:[(CallExpr Fun:s Args:[\"%s %s\" NOT (CallExpr Fun:ds Args:[(IndexExpr $p0 Index:0)])])])]")
	if bi, ok := c.VarInit("ext/sql", "binary").(*ast.FuncLit); ok {
		c.R.Check(strings.Contains(sqlHelperRoles(c, c.sxN(bi, bi.Body)), "Args:[\"%s %s %s\" (CallExpr Fun:ds Args:[(IndexExpr $0 Index:0)]) $p0 (CallExpr Fun:ds Args:[(IndexExpr $0 Index:1)])]"), "ext/sql.binary", "SQL-4 comparison operator infix", bi.Pos(), "lhs op rhs", "binary formatter changed")
	}
	for _, n := range []string{"AND", "OR", "NOT"} {
		if cst, ok := c.Obj("ext/sql", n).(*types.Const); ok {
			c.R.Check(constant.StringVal(cst.Val()) == n, "ext/sql."+n, "SQL-4 connective text", token.NoPos, "keyword", "connective constant changed")
		}
	}
	// SQL-5 no lazy functions
	lazy := 0
	for _, f := range pk.Syntax {
		lazy += len(c.allCallsDeepTo(f, "val.LazyFun"))
	}
	c.R.Check(lazy == 0, "ext/sql", "SQL-5 no SQL function is lazy", token.NoPos, "the emitter's strict calls are right", "a lazy SQL function would receive values instead of thunks")
	// the check in CompileToSql mirrors envCheck
	if cts := c.FuncDecl("ext", "CompileToSql"); cts != nil {
		okChk := len(c.allCallsDeepTo(cts.Body, "types.Equals")) == 1 && len(c.allCallsDeepTo(cts.Body, "val.Env.ForEach")) == 1
		c.R.Check(okChk, "ext.CompileToSql", "SQL-2 bound values are type-checked against the model", cts.Pos(), "types.Equals per binding before emission", "run-time bindings are not compared with the model's types")
	}
	c.sqlCriteria()
	c.sqlConnectives()
}

// SQL-6: a criteria tree is lowered member by member. Every member is lowered by its own expr(); code that looks INTO a
// member (a type assertion / type switch on a Criteria value: flattening, collapsing, simplifying nested groups) changes the
// nesting, which the property permits only up to the associativity of AND and of OR — so the branch that uses the result of
// such an inspection must be control-dependent on the group's connective being AND/OR (`!= NOT`, `== AND`, `== OR`).
func (c *Ctx) sqlCriteria() {
	pk := c.Mod["ext"]
	if pk == nil {
		c.R.Anchor("ext")
		return
	}
	ge := c.FuncDecl("ext", "CondGroup.expr")
	if ge == nil {
		c.R.Anchor("ext.CondGroup.expr")
		return
	}
	// positive control: members are lowered through the interface method, the callee is the connective's name
	lowered := 0
	for _, call := range c.calls(ge.Body) {
		if se, ok := call.Fun.(*ast.SelectorExpr); ok && se.Sel.Name == "expr" && typeStr(c.typeOf(se.X)) == "ext.Criteria" {
			lowered++
		}
	}
	if lowered == 0 {
		// lowered through a helper in the same package
		for _, f := range pk.Syntax {
			for _, call := range c.calls(f) {
				if se, ok := call.Fun.(*ast.SelectorExpr); ok && se.Sel.Name == "expr" && typeStr(c.typeOf(se.X)) == "ext.Criteria" {
					lowered++
				}
			}
		}
	}
	c.R.Check(lowered >= 1, "ext.CondGroup.expr", "SQL-6 members are lowered by their own expr()", ge.Pos(), "each member contributes its own sub-tree", "no member of a group is lowered through Criteria.expr()")
	isRestr := func(pc pathCond) bool {
		for _, a := range andParts(pc.e) {
			b, ok := unparen(a).(*ast.BinaryExpr)
			if !ok {
				continue
			}
			lt, rt := typeStr(c.typeOf(b.X)), typeStr(c.typeOf(b.Y))
			if lt != "ext.LogicalOper" && rt != "ext.LogicalOper" {
				continue
			}
			k := ""
			for _, e := range []ast.Expr{b.X, b.Y} {
				if id, ok := unparen(e).(*ast.Ident); ok {
					if _, isConst := c.objOf(id).(*types.Const); isConst {
						k = id.Name
					}
				}
				if se, ok := unparen(e).(*ast.SelectorExpr); ok {
					if _, isConst := c.objOf(se.Sel).(*types.Const); isConst {
						k = se.Sel.Name
					}
				}
			}
			switch {
			case pc.pos && b.Op == token.NEQ && k == "NOT", pc.pos && b.Op == token.EQL && (k == "AND" || k == "OR"), !pc.pos && b.Op == token.EQL && k == "NOT" && len(andParts(pc.e)) == 1:
				return true
			}
		}
		return false
	}
	n := 0
	for _, f := range pk.Syntax {
		for _, d := range f.Decls {
			fd, ok := d.(*ast.FuncDecl)
			if !ok || fd.Body == nil {
				continue
			}
			name := fnName("ext", fd)
			var g *FnCFG
			check := func(at ast.Node, what string, body []ast.Stmt) {
				n++
				if g == nil {
					g = c.buildCFG(fd.Body)
				}
				if len(body) == 0 {
					c.R.OKTrivial(name, "SQL-6 "+what, at.Pos(), "result unused")
					return
				}
				ok := false
				for _, pc := range g.condsAt(body[0]) {
					if isRestr(pc) {
						ok = true
					}
				}
				c.R.Check(ok, name, "SQL-6 "+what+" only under an AND/OR connective", at.Pos(), "the branch is control-dependent on the connective being AND or OR, whose associativity licenses re-nesting", "a member of a group is taken apart ("+what+") on a path that is not restricted to AND/OR: splicing or collapsing nested groups is sound only for the associative connectives — NOT{NOT{x}} would lose a negation and the WHERE text no longer has the tree's nesting")
			}
			ast.Inspect(fd.Body, func(x ast.Node) bool {
				switch s := x.(type) {
				case *ast.IfStmt:
					if s.Init != nil {
						found := ""
						ast.Inspect(s.Init, func(y ast.Node) bool {
							if ta, ok := y.(*ast.TypeAssertExpr); ok && ta.Type != nil && typeStr(c.typeOf(ta.X)) == "ext.Criteria" {
								found = src(ta)
							}
							return true
						})
						if found != "" {
							check(s, "type assertion "+found, s.Body.List)
						}
					}
				case *ast.TypeSwitchStmt:
					if e := tsScrutinee(s); e != nil && typeStr(c.typeOf(e)) == "ext.Criteria" {
						for _, cc := range s.Body.List {
							cl := cc.(*ast.CaseClause)
							if cl.List == nil {
								continue
							}
							check(cl, "type switch case "+src(cl.List[0]), cl.Body)
						}
					}
				case *ast.AssignStmt:
					for _, r := range s.Rhs {
						if ta, ok := unparen(r).(*ast.TypeAssertExpr); ok && ta.Type != nil && typeStr(c.typeOf(ta.X)) == "ext.Criteria" {
							// plain assignment: everything after it depends on it
							n++
							if g == nil {
								g = c.buildCFG(fd.Body)
							}
							ok := false
							for _, pc := range g.condsAt(s) {
								if isRestr(pc) {
									ok = true
								}
							}
							c.R.Check(ok, name, "SQL-6 type assertion "+src(ta)+" only under an AND/OR connective", s.Pos(), "restricted to AND/OR", "a member of a group is taken apart outside an AND/OR-only path: re-nesting is sound only for the associative connectives")
						}
					}
				}
				return true
			})
		}
	}
	_ = n
}

// ---------- DEBUG ----------

func ruleDebug(c *Ctx) {
	c.R.Rule("DEBUG", 15, "debug evaluation: exactly identifier, call, subscript and member closures are wrapped by the recorder; the recorder evaluates the wrapped closure once, records after it returns and returns that same value; columns flow from the operator/bracket/dot token through desugaring to the recorder; Debug installs the debug compiler, checks the environment, attaches a fresh record that is cleared at the start of each run; the report's first line is the source and all column arithmetic of the renderer counts runes")
	wd := c.FuncDecl("closure", "wrapForDebug")
	if wd == nil {
		c.R.Anchor("closure.wrapForDebug")
		return
	}
	var ts *ast.TypeSwitchStmt
	for _, s := range c.typeSwitches(wd.Body) {
		if ts == nil {
			ts = s
		}
	}
	// DB-1 / DB-2 by partial evaluation of wrapForDebug for each node kind (not by the shape of its arms): which value does it
	// return for a node of kind K — the closure it was given (not recorded), or a recorder around that closure — and which
	// column does the recorder pass to Record.Rec. Locals, tuple assignments, guard clauses on known flags and helpers that the
	// normalisation layer inlined are all followed.
	if ts != nil {
		var nodeParam, clParam types.Object
		for _, fl := range wd.Type.Params.List {
			for _, nm := range fl.Names {
				switch typeStr(c.typeOf(fl.Type)) {
				case "parser/ast.Expr":
					nodeParam = c.objOf(nm)
				case "compiler.Closure":
					clParam = c.objOf(nm)
				}
			}
		}
		wantCol := map[string]string{"parser/ast.IdentExpr": "(CallExpr Fun:(SelectorExpr pos Sel:DBGCol) Args:[(SelectorExpr $e Sel:Col)])", "parser/ast.CallExpr": "(SelectorExpr $e Sel:DBGCol)", "parser/ast.SubscriptExpr": "(SelectorExpr $e Sel:DBGCol)", "parser/ast.MemberExpr": "(SelectorExpr $e Sel:DBGCol)"}
		okRecorder := 0
		for _, k := range c.exprNodeTypes() {
			if sugarNodes[k] {
				continue
			}
			env := map[types.Object]ast.Expr{}
			tsv := map[types.Object]bool{nodeParam: true}
			var result ast.Expr
			unknown := ""
			var resolveIdent func(e ast.Expr, d int) ast.Expr
			resolveIdent = func(e ast.Expr, d int) ast.Expr {
				e = unparen(e)
				if id, ok := e.(*ast.Ident); ok && d < 12 {
					if v, ok := env[c.objOf(id)]; ok {
						return resolveIdent(v, d+1)
					}
				}
				return e
			}
			boolOf := func(e ast.Expr) (bool, bool) {
				e = resolveIdent(e, 0)
				neg := false
				if u, ok := e.(*ast.UnaryExpr); ok && u.Op == token.NOT {
					neg = true
					e = resolveIdent(u.X, 0)
				}
				if v := c.constOf(e); v != nil && v.Kind() == constant.Bool {
					return constant.BoolVal(v) != neg, true
				}
				return false, false
			}
			var exec func(list []ast.Stmt) bool // true: returned
			exec = func(list []ast.Stmt) bool {
				for _, st := range list {
					switch x := st.(type) {
					case *ast.AssignStmt:
						if len(x.Lhs) == len(x.Rhs) {
							vals := make([]ast.Expr, len(x.Rhs))
							for i := range x.Rhs {
								vals[i] = x.Rhs[i]
							}
							for i, l := range x.Lhs {
								if id, ok := l.(*ast.Ident); ok {
									if o := c.objOf(id); o != nil {
										// keep the value expression with its own identifiers resolved later (single static assignment per path)
										env[o] = vals[i]
									}
								}
							}
						}
					case *ast.TypeSwitchStmt:
						scr := tsScrutinee(x)
						if scr == nil || !tsv[c.objOf(resolveIdent(scr, 0))] && c.objOf(scr) != nodeParam {
							unknown = "type switch over something else than the node"
							return true
						}
						var pick, def *ast.CaseClause
						for _, cs := range x.Body.List {
							cc := cs.(*ast.CaseClause)
							if cc.List == nil {
								def = cc
							}
							for _, te := range cc.List {
								t := c.typeOf(te)
								if pt, ok := t.(*types.Pointer); ok {
									t = pt.Elem()
								}
								if typeStr(t) == k {
									pick = cc
								}
							}
						}
						if pick == nil {
							pick = def
						}
						if pick == nil {
							continue
						}
						if o := c.tsVar(x, pick); o != nil {
							tsv[o] = true
						}
						if exec(pick.Body) {
							return true
						}
					case *ast.IfStmt:
						if x.Init != nil {
							if exec([]ast.Stmt{x.Init}) {
								return true
							}
						}
						b, known := boolOf(x.Cond)
						if !known {
							unknown = "condition " + src(x.Cond) + " is not decided by the node kind"
							return true
						}
						if b {
							if exec(x.Body.List) {
								return true
							}
						} else if x.Else != nil {
							switch e := x.Else.(type) {
							case *ast.BlockStmt:
								if exec(e.List) {
									return true
								}
							case *ast.IfStmt:
								if exec([]ast.Stmt{e}) {
									return true
								}
							}
						}
					case *ast.BlockStmt:
						if exec(x.List) {
							return true
						}
					case *ast.ReturnStmt:
						if len(x.Results) == 1 {
							result = x.Results[0]
						}
						return true
					case *ast.ExprStmt:
						if ce, ok := x.X.(*ast.CallExpr); ok && c.noReturn(ce) {
							unknown = "fails"
							return true
						}
					}
				}
				return false
			}
			exec(wd.Body.List)
			var subst func(n ast.Node) (string, bool)
			depth := 0
			subst = func(n ast.Node) (string, bool) {
				id, ok := n.(*ast.Ident)
				if !ok {
					return "", false
				}
				o := c.objOf(id)
				if tsv[o] {
					return "$e", true
				}
				if o == clParam {
					return "$cl", true
				}
				if v, ok := env[o]; ok && depth < 12 {
					depth++
					r := sxWith(v, subst)
					depth--
					return r, true
				}
				return "", false
			}
			desc := "DB-1 " + k
			if result == nil || unknown != "" {
				if unknown == "fails" && wantCol[k] == "" {
					c.R.Bad("closure.wrapForDebug", desc+" not recorded", wd.Pos(), "wrapForDebug fails for this node kind")
				} else {
					c.R.Unk("closure.wrapForDebug", desc, wd.Pos(), "what wrapForDebug returns for this kind could not be evaluated (%s)", unknown)
				}
				continue
			}
			res := resolveIdent(result, 0)
			if wantCol[k] == "" {
				c.R.Check(sxWith(res, subst) == "$cl", "closure.wrapForDebug", desc+" not recorded", result.Pos(), "literals and literal containers are returned unwrapped", "a literal kind is wrapped / replaced: it would show up in (or vanish from) the report")
				continue
			}
			// the recorder: a call of a function that returns a function literal, or (inlined) that literal itself
			var lit *ast.FuncLit
			if ce, ok := res.(*ast.CallExpr); ok {
				callee := resolveIdent(ce.Fun, 0)
				var ft *ast.FuncType
				var body *ast.BlockStmt
				if fl, ok := callee.(*ast.FuncLit); ok {
					ft, body = fl.Type, fl.Body
				} else if _, t, b := c.funcOf(ce.Fun); b != nil {
					ft, body = t, b
				}
				if body != nil && ft.Params != nil {
					i := 0
					for _, fl := range ft.Params.List {
						for _, nm := range fl.Names {
							if i < len(ce.Args) {
								env[c.objOf(nm)] = ce.Args[i]
							}
							i++
						}
					}
					for _, st := range body.List {
						if as, ok := st.(*ast.AssignStmt); ok && len(as.Lhs) == len(as.Rhs) {
							for i, l := range as.Lhs {
								if id, ok := l.(*ast.Ident); ok {
									env[c.objOf(id)] = as.Rhs[i]
								}
							}
						}
						if r, ok := st.(*ast.ReturnStmt); ok && len(r.Results) == 1 {
							lit, _ = unparen(r.Results[0]).(*ast.FuncLit)
						}
					}
				}
			} else if fl, ok := res.(*ast.FuncLit); ok {
				lit = fl
			}
			if lit == nil {
				c.R.Bad("closure.wrapForDebug", desc+" recorded at its own column", result.Pos(), "term kind is not wrapped by a recorder (returns %s)", src(result))
				continue
			}
			// inside the recorder: v := <cl>(env) exactly once; Rec(v, int(<column>)+1); return v
			for _, st := range lit.Body.List {
				if as, ok := st.(*ast.AssignStmt); ok && len(as.Lhs) == len(as.Rhs) {
					for i, l := range as.Lhs {
						if id, ok := l.(*ast.Ident); ok {
							env[c.objOf(id)] = as.Rhs[i]
						}
					}
				}
			}
			evals, recCol, retV := 0, "", ""
			ast.Inspect(lit.Body, func(y ast.Node) bool {
				switch n := y.(type) {
				case *ast.CallExpr:
					if c.calleeObj(n) == nil && sxWith(n.Fun, subst) == "$cl" {
						evals++
					}
					if c.calleeName(n) == "debug.Record.Rec" && len(n.Args) == 2 {
						recCol = sxWith(n.Args[1], subst)
						retV = sxWith(n.Args[0], subst)
					}
				}
				return true
			})
			wantRec := "(BinaryExpr (CallExpr Fun:int Args:[" + wantCol[k] + "]) Op:+ Y:1)"
			returnsV := false
			for _, r := range returnsOf(lit.Body) {
				if len(r.Results) == 1 && sxWith(r.Results[0], subst) == retV && retV != "" {
					returnsV = true
				} else {
					returnsV = false
					break
				}
			}
			c.R.Check(recCol == wantRec, "closure.wrapForDebug", desc+" recorded at its own column", result.Pos(), "the recorder passes int(<column of the term>)+1 to Record.Rec", "term kind is not wrapped with its own column (the recorder records at "+recCol+")")
			if evals == 1 && returnsV && strings.Contains(retV, "$cl") {
				okRecorder++
			} else {
				c.R.Bad("closure.wrapForDebug", "DB-2 "+k+": evaluate once, record after, return the same value", lit.Pos(), "the recorder does not evaluate the wrapped closure exactly once / record the evaluated value / return that same value")
			}
		}
		c.R.Check(okRecorder == 4, "closure.wrapForDebug", "DB-2 evaluate once, record after, return the same value", wd.Pos(), "v := cl(env); record(v, col+1); return v — for all four recorded kinds", fmt.Sprintf("only %d of the 4 recorded kinds get a recorder that evaluates once and returns the evaluated value", okRecorder))
	}
	if cp := c.FuncDecl("closure", "compile"); cp != nil {
		s := c.sxN(cp, cp.Body.List)
		ok := strings.Contains(s, "(IfStmt Cond:$p2 Body:(BlockStmt [(ReturnStmt Results:[(CallExpr Fun:wrapForDebug Args:[$p0 $0])])]))") && strings.Contains(s, "Rhs:[(CallExpr Fun:compile0 Args:[$p0 $p1 $p2])]")
		c.R.Check(ok, "closure.compile", "DB-1 every compiled sub-expression passes through wrapForDebug in debug mode", cp.Pos(), "compile = compile0 then wrap", "debug wrapping is not applied to every sub-expression")
	}
	if dc := c.FuncDecl("closure", "DebugCompile"); dc != nil {
		lits := funcLits(dc.Body)
		ok := false
		if len(lits) == 1 {
			s := c.sxN(dc, lits[0].Body.List)
			ok = s == "[(ExprStmt (CallExpr Fun:(SelectorExpr (TypeAssertExpr (SelectorExpr $0 Sel:Dgb) Type:(StarExpr (SelectorExpr debug Sel:Record))) Sel:Clear))) (ReturnStmt Results:[(CallExpr Fun:$1 Args:[$0])])]" && c.hasNode(dc, dc.Body, "(AssignStmt Lhs:[$0] Tok::= Rhs:[(CallExpr Fun:compile Args:[$p0 $p1 true])])", false)
		}
		c.R.Check(ok, "closure.DebugCompile", "DB-4 record cleared at the start of each run", dc.Pos(), "Clear(); return closure(env)", "the record is not cleared before each run (values of an earlier run would be reported)")
	}
	// DB-6 Clear leaves no state of an earlier run behind
	if cl := c.FuncDecl("debug", "Record.Clear"); cl != nil {
		pk := c.Mod["debug"]
		var st *types.Struct
		if o := pk.Types.Scope().Lookup("Record"); o != nil {
			st, _ = o.Type().Underlying().(*types.Struct)
		}
		// all assignments to fields of Record in the package: field -> [](function, rhs)
		type asg struct {
			fn  *ast.FuncDecl
			rhs ast.Expr
			lhs ast.Expr
		}
		stores := map[string][]asg{}
		for _, f := range pk.Syntax {
			for _, d := range f.Decls {
				fd, ok := d.(*ast.FuncDecl)
				if !ok || fd.Body == nil {
					continue
				}
				ast.Inspect(fd.Body, func(x ast.Node) bool {
					as, ok := x.(*ast.AssignStmt)
					if !ok || len(as.Lhs) != len(as.Rhs) {
						return true
					}
					for i, l := range as.Lhs {
						if se, ok := unparen(l).(*ast.SelectorExpr); ok && strings.HasSuffix(typeStr(c.typeOf(se.X)), "debug.Record") {
							stores[se.Sel.Name] = append(stores[se.Sel.Name], asg{fd, as.Rhs[i], l})
						}
					}
					return true
				})
			}
		}
		isFresh := func(e ast.Expr) bool {
			e = unparen(e)
			switch x := e.(type) {
			case *ast.CompositeLit:
				return true
			case *ast.Ident:
				return x.Name == "nil" || c.constOf(x) != nil
			case *ast.BasicLit:
				return true
			case *ast.CallExpr:
				nm := c.calleeName(x)
				return nm == "builtin.make" || nm == "builtin.new"
			}
			return c.constOf(e) != nil
		}
		if st != nil {
			for i := 0; i < st.NumFields(); i++ {
				fname := st.Field(i).Name()
				var inClear []asg
				for _, a := range stores[fname] {
					if a.fn == cl {
						inClear = append(inClear, a)
					}
				}
				desc := "DB-6 Clear resets field " + fname
				switch {
				case len(inClear) != 1:
					c.R.Bad("debug.Record.Clear", desc, cl.Pos(), "field %s of the record is not reset by Clear (exactly one assignment expected, found %d): state of an earlier evaluation survives into the next report", fname, len(inClear))
				case isFresh(inClear[0].rhs):
					c.R.OK("debug.Record.Clear", desc, inClear[0].rhs.Pos(), "assigned a fresh value: nothing of the earlier run is reachable")
				default:
					// truncation F = F[:0] keeps the old backing array: sound only if every other store to F is F = append(F, ..),
					// which overwrites before it exposes; any re-slice upwards would resurrect stale elements
					okTrunc := false
					if sl, ok := unparen(inClear[0].rhs).(*ast.SliceExpr); ok && sl.Low == nil && sl.High != nil && !sl.Slice3 && sx(unparen(sl.X)) == sx(unparen(inClear[0].lhs)) {
						if v := c.constOf(sl.High); v != nil && v.String() == "0" {
							okTrunc = true
						}
					}
					bad := ""
					if okTrunc {
						for _, a := range stores[fname] {
							if a.fn == cl {
								continue
							}
							ce, isCall := unparen(a.rhs).(*ast.CallExpr)
							if isFresh(a.rhs) {
								continue
							}
							if isCall && c.calleeName(ce) == "builtin.append" && len(ce.Args) >= 1 && sx(unparen(ce.Args[0])) == sx(unparen(a.lhs)) {
								continue
							}
							bad = fmt.Sprintf("%s = %s in %s", src(a.lhs), src(a.rhs), a.fn.Name.Name)
						}
					}
					if okTrunc && bad == "" {
						c.R.OK("debug.Record.Clear", desc, inClear[0].rhs.Pos(), "truncated to length 0 and afterwards only grown by append, which overwrites every slot before exposing it")
					} else if okTrunc {
						c.R.Bad("debug.Record.Clear", desc, inClear[0].rhs.Pos(), "Clear only truncates %s (the old backing array is kept) and %s grows it other than by append: elements written by an earlier evaluation become visible again, so later reports attribute values to wrong columns", fname, bad)
					} else {
						c.R.Bad("debug.Record.Clear", desc, inClear[0].rhs.Pos(), "Clear assigns %s = %s, which is neither a fresh value nor a truncation to length 0: state of an earlier evaluation survives", fname, src(inClear[0].rhs))
					}
				}
			}
		}
	} else {
		c.R.Anchor("debug.Record.Clear")
	}
	// DB-7 the debug flag reaches every sub-expression: inside the closure compiler a function that itself received the flag
	// passes it on unchanged to every function of the package that takes one (a constant there switches recording off — or on —
	// for a whole sub-tree, e.g. the callee of a dynamically dispatched call)
	if pk := c.Mod["closure"]; pk != nil {
		flagIdx := map[types.Object]int{}
		var decls []*ast.FuncDecl
		for _, f := range pk.Syntax {
			for _, d := range f.Decls {
				fd, ok := d.(*ast.FuncDecl)
				if !ok || fd.Body == nil || fd.Type.Params == nil {
					continue
				}
				decls = append(decls, fd)
				k := 0
				for _, fl := range fd.Type.Params.List {
					n := len(fl.Names)
					if n == 0 {
						n = 1
					}
					if typeStr(c.typeOf(fl.Type)) == "bool" && len(fl.Names) == 1 {
						flagIdx[pk.TypesInfo.Defs[fd.Name]] = k
					}
					k += n
				}
			}
		}
		sites := 0
		for _, fd := range decls {
			self := pk.TypesInfo.Defs[fd.Name]
			idx, has := flagIdx[self]
			if !has {
				continue
			}
			var flag types.Object
			k := 0
			for _, fl := range fd.Type.Params.List {
				for _, nm := range fl.Names {
					if k == idx {
						flag = c.objOf(nm)
					}
					k++
				}
				if len(fl.Names) == 0 {
					k++
				}
			}
			for _, call := range c.allCallsDeep(fd.Body) {
				ci, ok := flagIdx[c.calleeObj(call)]
				if !ok || ci >= len(call.Args) {
					continue
				}
				sites++
				a := unparen(call.Args[ci])
				id, isID := a.(*ast.Ident)
				c.R.Check(isID && c.objOf(id) == flag, fnName("closure", fd), "DB-7 debug flag passed on to "+c.calleeName(call), call.Pos(), "the callee compiles its sub-expressions in the caller's mode", "the debug flag handed to "+c.calleeName(call)+" is "+src(a)+", not the caller's own flag: the sub-expressions compiled there are recorded in the wrong mode (terms missing from the power-assert report, or recorded in normal evaluation)")
			}
		}
		c.R.Check(sites >= 3, "closure", "DB-7 flag-passing call sites found", token.NoPos, "compile0, dispatchers and argument compilation pass the flag", "fewer than three flag-passing call sites found in the closure compiler")
	}
	c.sourceIdentity("DB-8")
	// DB-3 column flow in the parser
	for fn, want := range map[string]string{"parseCall": "(CallExpr Fun:(SelectorExpr pos Sel:DBGCol) Args:[(SelectorExpr $p3 Sel:Col)])", "parseDot": "(CallExpr Fun:(SelectorExpr pos Sel:DBGCol) Args:[(SelectorExpr $p3 Sel:Col)])", "parseSubscript": "(CallExpr Fun:(SelectorExpr pos Sel:DBGCol) Args:[(SelectorExpr $p3 Sel:Col)])"} {
		fd := c.FuncDecl("parser", fn)
		if fd == nil {
			c.R.Anchor("parser." + fn)
			continue
		}
		ok := false
		for _, call := range c.callsTo(fd.Body, "parser/ast.Call", "parser/ast.Member", "parser/ast.Subscript") {
			if c.sxN(fd, call.Args[2]) == want {
				ok = true
			}
		}
		c.R.Check(ok, "parser."+fn, "DB-3 node carries the column of its own ( . [ token", fd.Pos(), "pos.DBGCol(t.Col)", "the debug column of the node is not its own token's column")
	}
	if ds := c.FuncDecl("trans", "Desugar"); ds != nil {
		s := c.sxN(ds, ds.Body)
		n := strings.Count(s, "Rhs:[(CallExpr Fun:(SelectorExpr pos Sel:DBGCol) Args:[(SelectorExpr (SelectorExpr $e Sel:IdentExpr) Sel:Col)])])")
		if sem := c.desugarSemOK(); sem["parser/ast.UnaryExpr"] && sem["parser/ast.BinaryExpr"] && sem["parser/ast.TenaryExpr"] {
			n = 3 // decided by abstract evaluation (DS-9): each rewritten call carries e.IdentExpr.Col
		}
		c.R.Check(n == 3, "trans.Desugar", "DB-3 rewritten operators keep the operator token's column", ds.Pos(), "unary, binary and ?: calls carry DBGCol(e.IdentExpr.Col)", fmt.Sprintf("%d of 3 operator rewrites carry the operator's column", n))
	}
	// DB-4 Debug
	if dbg := c.FuncDecl("yae", "Debug"); dbg != nil {
		g := c.buildCFG(dbg.Body)
		use := c.callsTo(dbg.Body, "yae.Expr.UseCompiler")
		okUse := len(use) == 1 && c.objOf(use[0].Args[0]) != nil && qual(c.objOf(use[0].Args[0])) == "closure.DebugCompile"
		nr := c.callsTo(dbg.Body, "debug.NewRecord")
		var attach *ast.AssignStmt
		inspectNoLit(dbg.Body, func(x ast.Node) bool {
			if as, ok := x.(*ast.AssignStmt); ok && len(as.Lhs) == 1 {
				if se, ok := as.Lhs[0].(*ast.SelectorExpr); ok && se.Sel.Name == "Dgb" {
					attach = as
				}
			}
			return true
		})
		var run *ast.CallExpr
		for _, call := range c.calls(dbg.Body) {
			if c.calleeObj(call) == nil && typeStr(c.typeOf(call.Fun)) == "yae.Callable" {
				run = call
			}
		}
		rd := c.callsTo(dbg.Body, "debug.Record.Render")
		ok := okUse && len(nr) == 1 && attach != nil && run != nil && len(rd) == 1 && g.dominates(nr[0], attach) && g.dominates(attach, run) && g.dominates(run, rd[0])
		if ok {
			ok = rootIsCallResult(c, dbg.Body, attach.Rhs[0], nr[0]) && c.objOf(attach.Lhs[0].(*ast.SelectorExpr).X) == c.objOf(run.Args[0])
		}
		c.R.Check(ok, "yae.Debug", "DB-4 debug compiler installed; fresh record attached to the evaluated env; rendered after the run", dbg.Pos(), "UseCompiler(DebugCompile); rcd := NewRecord(); env.Dgb = rcd; compiled(env); rcd.Render(input)", "Debug does not install the debug compiler / attach a fresh record to the environment it evaluates / render after the run")
		okLine := len(c.callsTo(dbg.Body, "strings.Contains")) == 1
		c.R.Check(okLine, "yae.Debug", "DB-4 multi-line sources refused", dbg.Pos(), "single-line report", "line breaks are not refused")
	}
	// renderer: first line is the source; rune arithmetic
	if ra := c.FuncDecl("debug", "render.renderAssertExpr"); ra != nil {
		// by data flow: the FIRST builder appended to r.lines is one whose first write is r.src (whether it is written before or
		// after it is appended does not matter — the slice holds the pointer)
		recv := recvObj(c, ra)
		var first ast.Expr
		inspectNoLit(ra.Body, func(x ast.Node) bool {
			as, ok := x.(*ast.AssignStmt)
			if !ok || len(as.Lhs) != 1 || len(as.Rhs) != 1 || first != nil {
				return true
			}
			if se, ok := unparen(as.Lhs[0]).(*ast.SelectorExpr); ok && se.Sel.Name == "lines" && c.objOf(se.X) == recv {
				if ce, ok := unparen(as.Rhs[0]).(*ast.CallExpr); ok && c.calleeName(ce) == "builtin.append" && len(ce.Args) == 2 {
					first = ce.Args[1]
				}
			}
			return true
		})
		ok := false
		if first != nil {
			alias := map[types.Object]bool{}
			if o := c.objOf(first); o != nil {
				alias[o] = true
			}
			for changed := true; changed; {
				changed = false
				inspectNoLit(ra.Body, func(x ast.Node) bool {
					as, isAs := x.(*ast.AssignStmt)
					if !isAs || len(as.Lhs) != len(as.Rhs) {
						return true
					}
					for i, l := range as.Lhs {
						lo, ro := c.objOf(l), c.objOf(as.Rhs[i])
						if lo != nil && ro != nil && alias[lo] != alias[ro] {
							alias[lo], alias[ro] = true, true
							changed = true
						}
					}
					return true
				})
			}
			var firstWrite *ast.CallExpr
			inspectNoLit(ra.Body, func(x ast.Node) bool {
				ce, isCall := x.(*ast.CallExpr)
				if !isCall || firstWrite != nil {
					return true
				}
				if se, isSel := ce.Fun.(*ast.SelectorExpr); isSel && strings.HasPrefix(c.calleeName(ce), "strings.Builder.Write") && alias[c.objOf(se.X)] {
					firstWrite = ce
				}
				return true
			})
			if firstWrite != nil && len(firstWrite.Args) == 1 {
				if se, isSel := unparen(firstWrite.Args[0]).(*ast.SelectorExpr); isSel && se.Sel.Name == "src" && c.objOf(se.X) == recv {
					ok = true
				}
			}
		}
		c.R.Check(ok, "debug.render.renderAssertExpr", "DB-4 first rendered line is the source", ra.Pos(), "lines[0] = src", "the source is not the first line of the report")
	}
	if rn := c.FuncDecl("debug", "render.render"); rn != nil {
		var order []string
		for _, call := range c.calls(rn.Body) {
			order = append(order, strings.TrimPrefix(c.calleeName(call), "debug.render."))
		}
		c.R.Check(strings.Join(order, ",") == "renderAssertExpr,sortValues,renderValues,linesToString", "debug.render.render", "DB-4 source line, sort, place values, join", rn.Pos(), "fixed pipeline", "render pipeline changed: "+strings.Join(order, ","))
	}
	pk := c.Mod["debug"]
	byteLens := 0
	for _, f := range pk.Syntax {
		ast.Inspect(f, func(x ast.Node) bool {
			ce, ok := x.(*ast.CallExpr)
			if !ok || c.calleeName(ce) != "builtin.len" || len(ce.Args) != 1 {
				return true
			}
			if bt, ok := c.typeOf(ce.Args[0]).Underlying().(*types.Basic); ok && bt.Info()&types.IsString != 0 {
				byteLens++
				c.R.Bad(c.ownerOf(pk, c.fileOf(ce), ce.Pos()), "DB-5 byte length "+src(ce), ce.Pos(), "the byte length of a string is used in the renderer: columns are counted in runes, so a value containing multi-byte characters overwrites its neighbours")
			}
			return true
		})
	}
	if ps := c.FuncDecl("debug", "render.placeString"); ps != nil {
		// (1) the line is padded with spaces to at least `col` runes BEFORE it is overwritten — as a loop that writes one space
		// while runeCount(line) < col, or as one write of Repeat(" ", col - runeCount(line)) under pad > 0; (2) the overwritten
		// range is [col-1, col-1+runeCount(str)), handed to replace together with the line and the text
		tc := c.fnTerms(ps)
		var params []string
		for i := 0; i < 3; i++ {
			params = append(params, fmt.Sprintf("p%d", i))
		}
		line, str, col := params[0], params[1], params[2]
		count := "debug.runeCount(m:strings.Builder.String(" + line + "))"
		var padAt, replAt token.Pos
		okPad, okRepl := false, false
		inspectNoLit(ps.Body, func(x ast.Node) bool {
			switch n := x.(type) {
			case *ast.ForStmt:
				if n.Cond != nil && n.Init == nil && n.Post == nil {
					ct := tc.condTerm(pathCond{e: n.Cond, pos: true})
					if ct == "lt("+count+","+col+")" && len(n.Body.List) == 1 {
						t := tc.stmtTerm(n.Body.List[0])
						if t == "m:strings.Builder.WriteByte("+line+",const:32)" || t == "m:strings.Builder.WriteString("+line+",const:\" \")" || t == "m:strings.Builder.WriteRune("+line+",const:32)" {
							okPad, padAt = true, n.Pos()
						}
					}
				}
			case *ast.IfStmt:
				// if pad := col - runeCount(line); pad > 0 { line.WriteString(strings.Repeat(" ", pad)) }
				full := tc.tr(n.Cond)
				if n.Init != nil {
					if as, ok := n.Init.(*ast.AssignStmt); ok && len(as.Lhs) == 1 && len(as.Rhs) == 1 {
						tc.defs[c.objOf(as.Lhs[0])] = as.Rhs[0]
						full = tc.tr(n.Cond)
					}
				}
				padExpr := "sub(" + col + "," + count + ")"
				if (full == "gt("+padExpr+",const:0)" || full == "lt(const:0,"+padExpr+")" || full == "lt("+count+","+col+")" || full == "gt("+col+","+count+")") && len(n.Body.List) == 1 {
					t := tc.stmtTerm(n.Body.List[0])
					if t == "m:strings.Builder.WriteString("+line+",strings.Repeat(const:\" \","+padExpr+"))" {
						okPad, padAt = true, n.Pos()
					}
				}
			case *ast.CallExpr:
				if c.calleeName(n) == "debug.replace" && len(n.Args) == 4 {
					a := []string{tc.tr(n.Args[0]), tc.tr(n.Args[1]), tc.tr(n.Args[2]), tc.tr(n.Args[3])}
					start := "sub(" + col + ",const:1)"
					if a[0] == line && a[1] == start && (a[2] == "add("+start+",debug.runeCount("+str+"))" || a[2] == "add(debug.runeCount("+str+"),"+start+")") && a[3] == str {
						okRepl, replAt = true, n.Pos()
					}
				}
			}
			return true
		})
		ok := okPad && okRepl && padAt < replAt && byteLens == 0
		c.R.Check(ok, "debug.render.placeString", "DB-5 pad to the column, overwrite [col-1, col-1+runes(str))", ps.Pos(), "rune arithmetic; the line is padded before it is sliced", "placeString no longer pads to the column and overwrites exactly the runes of the value")
	} else {
		c.R.Anchor("debug.render.placeString")
	}
	if rp := c.FuncDecl("debug", "replace"); rp != nil {
		// by paths: whatever the arrangement, the line becomes runes[0:start] + str (+ runes[end:] iff end <= len(runes))
		tc := c.fnTerms(rp)
		paths, pok := c.retPaths(rp.Body.List)
		ok := pok && len(paths) == 2
		const R = "conv:[]rune(m:strings.Builder.String(p0))"
		seen := map[string]bool{}
		for _, p := range paths {
			var writes []string
			for _, st := range p.stmts {
				t := tc.stmtTerm(st)
				if op, as := splitTerm(t); op == "m:strings.Builder.WriteString" && len(as) == 2 && as[0] == "p0" {
					writes = append(writes, as[1])
				}
			}
			conds := strings.Join(tc.pathTerms(p), "&")
			w := strings.Join(writes, "+")
			if os.Getenv("YAE_DEBUG") != "" {
				fmt.Println("DB-5 path:", conds, "=>", w)
			}
			switch conds {
			case "lt(builtin.len(" + R + "),p2)":
				seen["over"] = w == "conv:string(slice("+R+",const:0,p1))+p3"
			case "le(p2,builtin.len(" + R + "))":
				seen["in"] = w == "conv:string(slice("+R+",const:0,p1))+p3+conv:string(slice("+R+",p2,))"
			default:
				ok = false
			}
		}
		c.R.Check(ok && seen["over"] && seen["in"], "debug.replace", "DB-5 replaces a rune range, clamped to the line", rp.Pos(), "[]rune slicing with the end clamped", "replace no longer writes runes[0:start] + str + runes[end:] with the suffix dropped when end exceeds the line")
	}
	if rc := c.FuncDecl("debug", "Record.Rec"); rc != nil {
		s := c.sxN(rc, rc.Body)
		ok := strings.Contains(s, "Fun:append Args:[(SelectorExpr $r Sel:vs) (CompositeLit Type:Val Elts:[$p0 $p1])]")
		c.R.Check(ok, "debug.Record.Rec", "DB-2 every recorded value is kept, in evaluation order", rc.Pos(), "appended to the record", "a recorded value is dropped or reordered")
	}
}

// sqlHelperRoles renames, in a printed formatter body, the two tiny helpers of package ext/sql to the names the expected
// shapes use, whatever they are called in the tree: the one that unwraps a string value (`return v.Str().V`) is "ds", the one
// that formats into a string value (`return val.Str(fmt.Sprintf(format, a...))`) is "s".
func sqlHelperRoles(c *Ctx, printed string) string {
	pk := c.Mod["ext/sql"]
	if pk == nil {
		return printed
	}
	for _, f := range pk.Syntax {
		for _, d := range f.Decls {
			fd, ok := d.(*ast.FuncDecl)
			if !ok || fd.Body == nil || fd.Recv != nil || len(fd.Body.List) != 1 {
				continue
			}
			switch c.sxN(fd, fd.Body.List) {
			case "[(ReturnStmt Results:[(SelectorExpr (CallExpr Fun:(SelectorExpr $p0 Sel:Str)) Sel:V)])]":
				printed = strings.ReplaceAll(printed, "Fun:"+fd.Name.Name+" ", "Fun:ds ")
			case "[(ReturnStmt Results:[(CallExpr Fun:(SelectorExpr val Sel:Str) Args:[(CallExpr Fun:(SelectorExpr fmt Sel:Sprintf) Args:[$p0 $p1])])])]":
				printed = strings.ReplaceAll(printed, "Fun:"+fd.Name.Name+" ", "Fun:s ")
			}
		}
	}
	return printed
}

// sourceIdentity: token positions (Idx, Col, Line) are offsets into the string the lexer was given, and the debug report
// prints the string Debug was given with values placed at those columns. The two agree only if the very same, unmodified
// string travels Debug -> Expr.Compile -> Expr.Parse -> lexer.Lex -> []rune(..), starting at the zero position, and the
// renderer is handed that same string. Each hop is checked: the argument is the function's own string parameter, which is
// never assigned (trimmed, normalised, re-sliced) in that function.
func (c *Ctx) sourceIdentity(tag string) {
	unmodified := func(fd *ast.FuncDecl, o types.Object) bool {
		ok := true
		ast.Inspect(fd.Body, func(x ast.Node) bool {
			switch s := x.(type) {
			case *ast.AssignStmt:
				for _, l := range s.Lhs {
					if c.objOf(l) == o {
						ok = false
					}
				}
			case *ast.UnaryExpr:
				if s.Op == token.AND && c.objOf(s.X) == o {
					ok = false
				}
			case *ast.IncDecStmt:
				if c.objOf(s.X) == o {
					ok = false
				}
			}
			return ok
		})
		return ok
	}
	strParam := func(fd *ast.FuncDecl) types.Object {
		for _, fl := range fd.Type.Params.List {
			for _, n := range fl.Names {
				if o := c.objOf(n); o != nil && typeStr(o.Type()) == "string" {
					return o
				}
			}
		}
		return nil
	}
	hops := []struct {
		pkg, fn string
		callees []string
	}{
		{"yae", "Debug", []string{"yae.Expr.Compile", "debug.Record.Render"}},
		{"yae", "Expr.Compile", []string{"yae.Expr.Parse"}},
		{"yae", "Expr.Parse", []string{"parser/lexer.lexer.Lex"}},
	}
	for _, h := range hops {
		fd := c.FuncDecl(h.pkg, h.fn)
		name := h.pkg + "." + h.fn
		if fd == nil {
			c.R.Anchor(name)
			continue
		}
		p := strParam(fd)
		if p == nil {
			c.R.Unk(name, tag+" source string handed on unchanged", fd.Pos(), "no string parameter")
			continue
		}
		for _, cn := range h.callees {
			calls := c.callsTo(fd.Body, cn)
			ok := len(calls) > 0 && unmodified(fd, p)
			why := "the source parameter is reassigned before it is handed on"
			if len(calls) == 0 {
				why = "no call of " + cn
			}
			for _, call := range calls {
				found := false
				for _, a := range call.Args {
					if id, isID := unparen(a).(*ast.Ident); isID && c.objOf(id) == p {
						found = true
					}
				}
				if !found {
					ok = false
					why = "the string handed to " + cn + " is not the caller's own source parameter"
				}
			}
			c.R.Check(ok, name, tag+" source string handed unchanged to "+cn, fd.Pos(), "the parameter itself, never assigned", why+": token columns and the rendered source line no longer refer to the same string")
		}
	}
	lx := c.FuncDecl("parser/lexer", "lexer.Lex")
	if lx == nil {
		c.R.Anchor("parser/lexer.lexer.Lex")
		return
	}
	p := strParam(lx)
	okIn, okPos := false, false
	whyIn := "no assignment of []rune(<parameter>) to the lexer's rune buffer"
	inspectNoLit(lx.Body, func(x ast.Node) bool {
		as, ok := x.(*ast.AssignStmt)
		if !ok || len(as.Lhs) != 1 || len(as.Rhs) != 1 {
			return true
		}
		lt := c.typeOf(as.Lhs[0])
		if lt == nil {
			return true
		}
		if _, isSel := unparen(as.Lhs[0]).(*ast.SelectorExpr); !isSel {
			return true
		}
		switch typeStr(lt) {
		case "[]rune", "[]int32":
			if ce, ok := unparen(as.Rhs[0]).(*ast.CallExpr); ok && len(ce.Args) == 1 {
				if tv, ok := c.infoAt(ce).Types[ce.Fun]; ok && tv.IsType() {
					if id, ok := unparen(ce.Args[0]).(*ast.Ident); ok && p != nil && c.objOf(id) == p {
						okIn = true
					} else {
						whyIn = "the rune buffer is built from " + src(ce.Args[0]) + ", not from the parameter"
					}
				}
			}
		case "parser/pos.Pos":
			if cl, ok := unparen(as.Rhs[0]).(*ast.CompositeLit); ok && len(cl.Elts) == 0 {
				okPos = true
			}
		}
		return true
	})
	if p != nil && !unmodified(lx, p) {
		okIn = false
		whyIn = "the input parameter is reassigned (trimmed / normalised) before it is lexed"
	}
	c.R.Check(okIn, "parser/lexer.lexer.Lex", tag+" the lexed runes are the caller's string", lx.Pos(), "l.input = []rune(input), input never assigned", whyIn+": every token position is then an offset into a different string than the one the caller holds")
	c.R.Check(okPos, "parser/lexer.lexer.Lex", tag+" lexing starts at the zero position", lx.Pos(), "l.Pos = pos.Pos{}", "the cursor is not reset to the zero position at the start of Lex")
}

// sqlConnectives (SQL-7): the boolean structure of the output is the structure of the criteria tree because the only code
// that writes a connective is the code compile() knows how to parenthesise. The constants AND / OR / NOT (and string
// literals spelling them as words) occur only in the definitions of the functions listed in logicalFunPrecTbl, as a
// function's registered name, or — AND — inside the BETWEEN form, which binds tighter than any connective. Any other
// function that joins fragments with OR / AND (an IN list split into several predicates, say) produces a group that no
// enclosing AND / NOT will wrap.
func (c *Ctx) sqlConnectives() {
	pk := c.Mod["ext/sql"]
	if pk == nil {
		return
	}
	logical := map[string]bool{}
	for _, e := range c.tableEntries("ext/sql", "logicalFunPrecTbl") {
		if o := c.objOf(e.key); o != nil {
			logical[o.Name()] = true
		}
	}
	conn := map[types.Object]string{}
	for _, n := range []string{"AND", "OR", "NOT"} {
		if o := c.Obj("ext/sql", n); o != nil {
			conn[o] = n
		}
	}
	between := c.Obj("ext/sql", "BETWEEN")
	n := 0
	for _, f := range pk.Syntax {
		for _, d := range f.Decls {
			owner := "?"
			var scopes []ast.Node // one per top-level definition
			switch x := d.(type) {
			case *ast.FuncDecl:
				owner = x.Name.Name
				scopes = []ast.Node{x}
			case *ast.GenDecl:
				if x.Tok == token.CONST {
					continue
				}
				for _, sp := range x.Specs {
					scopes = append(scopes, sp)
				}
			}
			for _, sc := range scopes {
				if vs, ok := sc.(*ast.ValueSpec); ok && len(vs.Names) > 0 {
					owner = vs.Names[0].Name
				}
				if owner == "logicalFunPrecTbl" {
					continue
				}
				var stack []ast.Node
				ast.Inspect(sc, func(x ast.Node) bool {
					if x == nil {
						stack = stack[:len(stack)-1]
						return false
					}
					stack = append(stack, x)
					word := ""
					switch e := x.(type) {
					case *ast.Ident:
						if w, ok := conn[c.objOf(e)]; ok && c.infoAt(e).Uses[e] != nil {
							word = w
						}
					case *ast.BasicLit:
						if e.Kind == token.STRING {
							if v, ok := c.constStr(e); ok {
								for _, w := range strings.Fields(strings.ToUpper(v)) {
									if w == "AND" || w == "OR" || w == "NOT" {
										word = w
									}
								}
								if strings.Contains(strings.ToUpper(v), "BETWEEN") || strings.Contains(strings.ToUpper(v), "IS NOT") || strings.Contains(strings.ToUpper(v), "NOT IN") || strings.Contains(strings.ToUpper(v), "NOT LIKE") {
									word = ""
								}
							}
						}
					}
					if word == "" {
						return true
					}
					n++
					// the registered name of a function: first argument of types.Fun
					for i := len(stack) - 2; i >= 0; i-- {
						if ce, ok := stack[i].(*ast.CallExpr); ok {
							if c.calleeName(ce) == "types.Fun" && len(ce.Args) > 0 && ce.Args[0].Pos() <= x.Pos() && x.End() <= ce.Args[0].End() {
								return true
							}
							// AND inside the BETWEEN form
							if word == "AND" && between != nil {
								hasBetween := false
								ast.Inspect(ce, func(y ast.Node) bool {
									if id, ok := y.(*ast.Ident); ok && c.objOf(id) == between {
										hasBetween = true
									}
									return !hasBetween
								})
								if hasBetween {
									return true
								}
							}
						}
					}
					c.R.Check(logical[owner], "ext/sql."+owner, "SQL-7 connective "+word+" written by a function of the precedence table", x.Pos(), "compile() parenthesises this function's output by precedence", "the connective "+word+" is written by "+owner+", which logicalFunPrecTbl does not list: its output is never parenthesised, so under an enclosing AND / NOT it regroups (a = 1 AND x IN (..) OR x IN (..))")
					return true
				})
			}
		}
	}
	c.R.Check(n >= 3, "ext/sql", "SQL-7 connective sites found", token.NoPos, fmt.Sprintf("%d", n), "fewer than three uses of AND / OR / NOT found in ext/sql")
}
