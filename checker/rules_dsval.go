package main

import (
	"fmt"
	"go/ast"
	"go/token"
	"go/types"
	"sort"
	"strings"
)

// Denotation of trans.Desugar by abstract evaluation.
//
// For every node kind K the body of Desugar is executed symbolically on a node `e` of that kind: node expressions are terms
// (`e.LHS`, `D(e.LHS)` for Desugar(e.LHS), `Var(e.Name,e.IdentExpr.Pos)`, …), slices under construction are sequences of
// single elements and element-wise maps over a source slice — however they are built (composite literal, make + indexed
// stores, stores through a sub-slice, append, loops, helpers of package trans that are given the node, a slice or variadic
// operands). Branches whose condition the kind does not decide fork the evaluation. The result per path is one term, e.g.
//
//	Call(Var(e.Name,e.IdentExpr.Pos),[D(e.LHS),D(e.RHS)],e.IdentExpr.Col,e.Pos)
//
// which is compared with the term the language definition assigns to the form (C10: x op y means op(x, y), receiver first,
// arguments in source order, every sub-tree desugared, the operator's column kept). The shape clauses DS-1 / DS-4 / DS-5 / DB-3
// are consulted only for kinds this evaluation cannot decide.

type dsData struct {
	fixed map[int]string
	maps  []dsMap
	app   []string // appended elements; a map segment is "*<template>{<-}<source>"
	made  bool
}

type dsMap struct {
	off      int
	template string
	over     string
}

type dsVal struct {
	term string  // node / scalar term ("" when this is a sequence)
	data *dsData // sequence under construction
	off  int     // view offset into data (sub-slices)
}

type dsPath struct {
	env    map[types.Object]*dsVal
	conds  []string
	result string
	resVal *dsVal
	done   bool
	fail   bool
	why    string // non-empty: evaluation gave up
}

type dsEval struct {
	c     *Ctx
	pk    string
	depth int
}

func (p *dsPath) clone() *dsPath {
	q := &dsPath{env: map[types.Object]*dsVal{}, conds: append([]string{}, p.conds...), result: p.result, resVal: p.resVal, done: p.done, fail: p.fail, why: p.why}
	cp := map[*dsData]*dsData{}
	for o, v := range p.env {
		nv := &dsVal{term: v.term, off: v.off}
		if v.data != nil {
			d, ok := cp[v.data]
			if !ok {
				d = &dsData{fixed: map[int]string{}, maps: append([]dsMap{}, v.data.maps...), app: append([]string{}, v.data.app...), made: v.data.made}
				for k, t := range v.data.fixed {
					d.fixed[k] = t
				}
				cp[v.data] = d
			}
			nv.data = d
		}
		q.env[o] = nv
	}
	return q
}

func (d *dsData) render() string {
	var parts []string
	var idx []int
	for k := range d.fixed {
		idx = append(idx, k)
	}
	sort.Ints(idx)
	next := 0
	for _, k := range idx {
		if k != next {
			return "?sparse"
		}
		parts = append(parts, d.fixed[k])
		next++
	}
	ms := append([]dsMap{}, d.maps...)
	sort.Slice(ms, func(i, j int) bool { return ms[i].off < ms[j].off })
	for i, m := range ms {
		if m.off != next || i > 0 {
			return "?overlapping"
		}
		parts = append(parts, "*"+m.template+"<-"+m.over)
		next = -1 << 30
	}
	parts = append(parts, d.app...)
	return "[" + strings.Join(parts, ",") + "]"
}

func (v *dsVal) String() string {
	if v == nil {
		return "?"
	}
	if v.data != nil {
		if v.off != 0 {
			return "?view"
		}
		return v.data.render()
	}
	return v.term
}

func normTerm(s string) string {
	// a promoted field: e.IdentExpr.Pos.Col is e.IdentExpr.Col
	for _, f := range []string{".Col", ".Line", ".Idx", ".IdxEnd"} {
		s = strings.ReplaceAll(s, ".Pos"+f, f)
	}
	return s
}

// eval evaluates an expression to a value on path p.
func (ev *dsEval) eval(p *dsPath, e ast.Expr) *dsVal {
	c := ev.c
	e = unparen(e)
	switch x := e.(type) {
	case *ast.Ident:
		if x.Name == "nil" {
			return &dsVal{term: "nil"}
		}
		if v, ok := p.env[c.objOf(x)]; ok {
			return v
		}
		if k := c.constOf(x); k != nil {
			return &dsVal{term: "const:" + k.ExactString()}
		}
		if o := c.objOf(x); o != nil && o.Pkg() != nil && o.Parent() == o.Pkg().Scope() {
			return &dsVal{term: short(o.Pkg().Path()) + "." + o.Name()}
		}
		return &dsVal{term: "?" + x.Name}
	case *ast.BasicLit:
		return &dsVal{term: "const:" + x.Value}
	case *ast.SelectorExpr:
		if o := c.objOf(x.Sel); o != nil {
			if _, isPkg := c.objOf(x.X).(*types.PkgName); isPkg {
				return &dsVal{term: short(o.Pkg().Path()) + "." + o.Name()}
			}
		}
		b := ev.eval(p, x.X)
		if b.data != nil {
			return &dsVal{term: "?field-of-seq"}
		}
		t := b.term
		// field of a freshly built identifier: Var(name, pos).Col is pos.Col
		if strings.HasPrefix(t, "Var(") && strings.HasSuffix(t, ")") {
			args := splitTop(t[4 : len(t)-1])
			if len(args) == 2 {
				switch x.Sel.Name {
				case "Name":
					return &dsVal{term: args[0]}
				case "Pos":
					return &dsVal{term: args[1]}
				case "Col", "Line", "Idx", "IdxEnd":
					return &dsVal{term: normTerm(args[1] + "." + x.Sel.Name)}
				}
			}
		}
		return &dsVal{term: normTerm(t + "." + x.Sel.Name)}
	case *ast.TypeAssertExpr:
		return ev.eval(p, x.X)
	case *ast.StarExpr:
		return ev.eval(p, x.X)
	case *ast.UnaryExpr:
		if x.Op == token.AND {
			return ev.eval(p, x.X)
		}
		return &dsVal{term: x.Op.String() + ev.eval(p, x.X).String()}
	case *ast.BinaryExpr:
		return &dsVal{term: "(" + ev.eval(p, x.X).String() + x.Op.String() + ev.eval(p, x.Y).String() + ")"}
	case *ast.IndexExpr:
		b := ev.eval(p, x.X)
		if b.data == nil {
			// element of a source slice: a[i] inside a loop over a is the loop's element
			if id, ok := unparen(x.Index).(*ast.Ident); ok {
				if iv, ok := p.env[c.objOf(id)]; ok && strings.HasPrefix(iv.term, "IDX(") && iv.term == "IDX("+b.term+")" {
					return &dsVal{term: "#"}
				}
			}
			if k := c.constOf(x.Index); k != nil {
				return &dsVal{term: b.term + "[" + k.ExactString() + "]"}
			}
			return &dsVal{term: b.term + "[?]"}
		}
		return &dsVal{term: "?index-of-built-seq"}
	case *ast.SliceExpr:
		b := ev.eval(p, x.X)
		if b.data != nil && x.High == nil && !x.Slice3 {
			off := 0
			if x.Low != nil {
				k := c.constOf(x.Low)
				if k == nil {
					return &dsVal{term: "?slice"}
				}
				fmt.Sscanf(k.ExactString(), "%d", &off)
			}
			return &dsVal{data: b.data, off: b.off + off}
		}
		return &dsVal{term: "?slice"}
	case *ast.CompositeLit:
		t := c.typeOf(x)
		if _, isSlice := t.Underlying().(*types.Slice); isSlice {
			d := &dsData{fixed: map[int]string{}, made: true}
			for i, el := range x.Elts {
				d.fixed[i] = ev.eval(p, el).String()
			}
			return &dsVal{data: d}
		}
		if st, isStruct := t.Underlying().(*types.Struct); isStruct {
			var fs []string
			for i, el := range x.Elts {
				name := ""
				v := el
				if kv, ok := el.(*ast.KeyValueExpr); ok {
					name = src(kv.Key)
					v = kv.Value
				} else if i < st.NumFields() {
					name = st.Field(i).Name()
				}
				fs = append(fs, name+":"+ev.eval(p, v).String())
			}
			sort.Strings(fs)
			tn := typeStr(t)
			if i := strings.LastIndex(tn, "."); i >= 0 {
				tn = tn[i+1:]
			}
			return &dsVal{term: tn + "{" + strings.Join(fs, ",") + "}"}
		}
		return &dsVal{term: "?lit"}
	case *ast.CallExpr:
		return ev.call(p, x)
	}
	return &dsVal{term: "?" + src(e)}
}

func splitTop(s string) []string {
	var out []string
	depth, start := 0, 0
	for i := 0; i < len(s); i++ {
		switch s[i] {
		case '(', '[', '{':
			depth++
		case ')', ']', '}':
			depth--
		case ',':
			if depth == 0 {
				out = append(out, s[start:i])
				start = i + 1
			}
		}
	}
	return append(out, s[start:])
}

func (ev *dsEval) call(p *dsPath, x *ast.CallExpr) *dsVal {
	c := ev.c
	if tv, ok := c.infoAt(x).Types[x.Fun]; ok && tv.IsType() && len(x.Args) == 1 {
		return ev.eval(p, x.Args[0]) // conversion
	}
	nm := c.calleeName(x)
	argTerms := func() []string {
		var as []string
		for _, a := range x.Args {
			as = append(as, ev.eval(p, a).String())
		}
		return as
	}
	switch {
	case nm == "trans.Desugar" && len(x.Args) == 1:
		a := ev.eval(p, x.Args[0]).String()
		if strings.HasPrefix(a, "Var(") {
			// Desugar of a freshly built identifier node is that node (the IdentExpr denotation, which this rule checks, is `e`)
			return &dsVal{term: a}
		}
		return &dsVal{term: "D(" + a + ")"}
	case nm == "builtin.make":
		return &dsVal{data: &dsData{fixed: map[int]string{}, made: true}}
	case nm == "builtin.len", nm == "builtin.cap":
		return &dsVal{term: "len"}
	case nm == "builtin.append":
		if len(x.Args) == 0 {
			return &dsVal{term: "?append"}
		}
		b := ev.eval(p, x.Args[0])
		if b.data == nil {
			if b.term == "nil" {
				b = &dsVal{data: &dsData{fixed: map[int]string{}, made: true}}
			} else {
				return &dsVal{term: "?append-to-source"}
			}
		}
		if b.off != 0 {
			return &dsVal{term: "?append-to-view"}
		}
		if x.Ellipsis.IsValid() && len(x.Args) == 2 {
			s := ev.eval(p, x.Args[1])
			if s.data != nil {
				return &dsVal{term: "?append-seq"}
			}
			b.data.app = append(b.data.app, "*#<-"+s.term) // elements of a source slice, as they are
			return b
		}
		for _, a := range x.Args[1:] {
			b.data.app = append(b.data.app, ev.eval(p, a).String())
		}
		return b
	case strings.HasPrefix(nm, "parser/ast."):
		return &dsVal{term: strings.TrimPrefix(nm, "parser/ast.") + "(" + strings.Join(argTerms(), ",") + ")"}
	case nm == "parser/pos.DBGCol":
		return &dsVal{term: "DBGCol(" + strings.Join(argTerms(), ",") + ")"}
	}
	// helper of the same package: evaluated on the abstract values
	if f, ok := c.calleeObj(x).(*types.Func); ok && f.Pkg() != nil && short(f.Pkg().Path()) == ev.pk && ev.depth < 6 {
		if hd := c.declOf(f); hd != nil && hd.Body != nil {
			sub := &dsPath{env: map[types.Object]*dsVal{}}
			i := 0
			for _, fl := range hd.Type.Params.List {
				_, variadic := fl.Type.(*ast.Ellipsis)
				for _, n := range fl.Names {
					switch {
					case variadic && !x.Ellipsis.IsValid():
						d := &dsData{fixed: map[int]string{}, made: true}
						for k, a := range x.Args[i:] {
							d.fixed[k] = ev.eval(p, a).String()
						}
						sub.env[c.objOf(n)] = &dsVal{data: d}
					case i < len(x.Args):
						sub.env[c.objOf(n)] = ev.eval(p, x.Args[i])
					}
					i++
				}
			}
			ev.depth++
			outs := ev.exec([]*dsPath{sub}, hd.Body.List, "")
			ev.depth--
			if len(outs) == 1 && outs[0].why == "" && !outs[0].fail {
				// the helper shares sequence data with the caller through the values it was given: nothing to copy back
				if outs[0].result != "" {
					return &dsVal{term: outs[0].result, data: nil}
				}
				if outs[0].resVal != nil {
					return outs[0].resVal
				}
				return &dsVal{term: "void"}
			}
			why := fmt.Sprintf("%d paths", len(outs))
			for _, o := range outs {
				if o.why != "" {
					why = o.why
				}
			}
			return &dsVal{term: "?helper " + f.Name() + " (" + strings.TrimPrefix(why, "?") + ")"}
		}
	}
	return &dsVal{term: "?call " + nm}
}

// exec runs a statement list on every open path; kind is the node kind being evaluated ("" inside helpers).
func (ev *dsEval) exec(paths []*dsPath, list []ast.Stmt, kind string) []*dsPath {
	c := ev.c
	for _, st := range list {
		var next []*dsPath
		for _, p := range paths {
			if p.done || p.why != "" {
				next = append(next, p)
				continue
			}
			switch x := st.(type) {
			case *ast.ReturnStmt:
				if len(x.Results) == 1 {
					v := ev.eval(p, x.Results[0])
					p.resVal = v
					if v.data == nil {
						p.result = v.term
					}
				}
				p.done = true
				next = append(next, p)
			case *ast.ExprStmt:
				if ce, ok := x.X.(*ast.CallExpr); ok {
					if c.noReturn(ce) {
						p.done, p.fail = true, true
						next = append(next, p)
						continue
					}
					if c.calleeName(ce) == "util.Assert" {
						next = append(next, p)
						continue
					}
					v := ev.call(p, ce)
					if strings.HasPrefix(v.term, "?") {
						p.why = v.term
					}
				}
				next = append(next, p)
			case *ast.AssignStmt:
				next = append(next, ev.assign(p, x)...)
			case *ast.DeclStmt:
				// var x T  /  var x []T
				if gd, ok := x.Decl.(*ast.GenDecl); ok {
					for _, sp := range gd.Specs {
						if vs, ok := sp.(*ast.ValueSpec); ok {
							for i, n := range vs.Names {
								if i < len(vs.Values) {
									p.env[c.objOf(n)] = ev.eval(p, vs.Values[i])
								} else if _, isSlice := c.typeOf(n).Underlying().(*types.Slice); isSlice {
									p.env[c.objOf(n)] = &dsVal{data: &dsData{fixed: map[int]string{}, made: true}}
								} else {
									p.env[c.objOf(n)] = &dsVal{term: "nil"}
								}
							}
						}
					}
				}
				next = append(next, p)
			case *ast.IncDecStmt:
				next = append(next, p)
			case *ast.BlockStmt:
				next = append(next, ev.exec([]*dsPath{p}, x.List, kind)...)
			case *ast.IfStmt:
				ps := []*dsPath{p}
				if x.Init != nil {
					ps = ev.exec(ps, []ast.Stmt{x.Init}, kind)
				}
				for _, q := range ps {
					if q.done || q.why != "" {
						next = append(next, q)
						continue
					}
					cv := ev.eval(q, x.Cond).String()
					neg := false
					for strings.HasPrefix(cv, "!") {
						neg = !neg
						cv = cv[1:]
					}
					var thenP, elseP *dsPath
					switch cv {
					case "const:true", "true":
						if !neg {
							thenP = q
						} else {
							elseP = q
						}
					case "const:false", "false":
						if neg {
							thenP = q
						} else {
							elseP = q
						}
					default:
						thenP, elseP = q, q.clone()
						label := cv
						if neg {
							thenP.conds = append(thenP.conds, "!"+label)
							elseP.conds = append(elseP.conds, label)
						} else {
							thenP.conds = append(thenP.conds, label)
							elseP.conds = append(elseP.conds, "!"+label)
						}
					}
					if thenP != nil {
						next = append(next, ev.exec([]*dsPath{thenP}, x.Body.List, kind)...)
					}
					if elseP != nil {
						switch e := x.Else.(type) {
						case nil:
							next = append(next, elseP)
						case *ast.BlockStmt:
							next = append(next, ev.exec([]*dsPath{elseP}, e.List, kind)...)
						case *ast.IfStmt:
							next = append(next, ev.exec([]*dsPath{elseP}, []ast.Stmt{e}, kind)...)
						}
					}
				}
			case *ast.TypeSwitchStmt:
				scr := tsScrutinee(x)
				if scr == nil || kind == "" {
					p.why = "?type switch"
					next = append(next, p)
					continue
				}
				var pick, def *ast.CaseClause
				for _, cs := range x.Body.List {
					cc := cs.(*ast.CaseClause)
					if cc.List == nil {
						def = cc
					}
					for _, te := range cc.List {
						t := c.typeOf(te)
						if pt, ok := t.(*types.Pointer); ok {
							t = pt.Elem()
						}
						if typeStr(t) == kind {
							pick = cc
						}
					}
				}
				if pick == nil {
					pick = def
				}
				if pick == nil {
					next = append(next, p)
					continue
				}
				if o := c.tsVar(x, pick); o != nil {
					p.env[o] = ev.eval(p, scr)
				}
				next = append(next, ev.exec([]*dsPath{p}, pick.Body, kind)...)
			case *ast.RangeStmt:
				next = append(next, ev.loop(p, x.Key, x.Value, x.X, x.Body, kind)...)
			case *ast.ForStmt:
				// for i := 0; i < len(S); i++ { .. S[i] .. }
				var idx ast.Expr
				var over ast.Expr
				if as, ok := x.Init.(*ast.AssignStmt); ok && len(as.Lhs) == 1 && len(as.Rhs) == 1 {
					if k := c.constOf(as.Rhs[0]); k != nil && k.ExactString() == "0" {
						idx = as.Lhs[0]
					}
				}
				if be, ok := x.Cond.(*ast.BinaryExpr); ok && be.Op == token.LSS && idx != nil && c.objOf(be.X) == c.objOf(idx) {
					if ce, ok := unparen(be.Y).(*ast.CallExpr); ok && c.calleeName(ce) == "builtin.len" && len(ce.Args) == 1 {
						over = ce.Args[0]
					}
				}
				if idx == nil || over == nil {
					p.why = "?loop form"
					next = append(next, p)
					continue
				}
				next = append(next, ev.loop(p, idx, nil, over, x.Body, kind)...)
			case *ast.SwitchStmt, *ast.BranchStmt, *ast.LabeledStmt, *ast.GoStmt, *ast.DeferStmt, *ast.SelectStmt:
				p.why = "?statement " + fmt.Sprintf("%T", st)
				next = append(next, p)
			default:
				next = append(next, p)
			}
		}
		paths = next
		if len(paths) > 16 {
			for _, p := range paths {
				p.why = "?too many paths"
			}
			return paths
		}
	}
	return paths
}

func (ev *dsEval) assign(p *dsPath, x *ast.AssignStmt) []*dsPath {
	c := ev.c
	// comma-ok type assertion forks the path
	if len(x.Lhs) == 2 && len(x.Rhs) == 1 {
		if ta, ok := unparen(x.Rhs[0]).(*ast.TypeAssertExpr); ok && ta.Type != nil {
			v := ev.eval(p, ta.X)
			tn := typeStr(c.typeOf(ta.Type))
			yes, no := p, p.clone()
			if id, ok := x.Lhs[0].(*ast.Ident); ok && id.Name != "_" {
				yes.env[c.objOf(id)] = v
				no.env[c.objOf(id)] = &dsVal{term: "nil"}
			}
			if id, ok := x.Lhs[1].(*ast.Ident); ok && id.Name != "_" {
				yes.env[c.objOf(id)] = &dsVal{term: "true"}
				no.env[c.objOf(id)] = &dsVal{term: "false"}
			}
			yes.conds = append(yes.conds, v.term+" is "+tn)
			no.conds = append(no.conds, "!"+v.term+" is "+tn)
			return []*dsPath{yes, no}
		}
		p.why = "?multi-value assignment"
		return []*dsPath{p}
	}
	if len(x.Lhs) != len(x.Rhs) {
		p.why = "?assignment"
		return []*dsPath{p}
	}
	vals := make([]*dsVal, len(x.Rhs))
	for i, r := range x.Rhs {
		vals[i] = ev.eval(p, r)
		if vals[i].data == nil && strings.HasPrefix(vals[i].term, "?") {
			p.why = vals[i].term
		}
	}
	for i, l := range x.Lhs {
		switch lv := unparen(l).(type) {
		case *ast.Ident:
			if lv.Name != "_" {
				p.env[c.objOf(lv)] = vals[i]
			}
		case *ast.IndexExpr:
			b := ev.eval(p, lv.X)
			if b.data == nil {
				p.why = "?store into " + b.term + ": a slice of the input tree is written"
				continue
			}
			// position: constant, loop index, loop index + constant
			pos, isLoop, over := ev.position(p, lv.Index)
			switch {
			case pos < 0:
				p.why = "?store position " + src(lv.Index)
			case isLoop:
				b.data.maps = append(b.data.maps, dsMap{off: b.off + pos, template: vals[i].String(), over: over})
			default:
				b.data.fixed[b.off+pos] = vals[i].String()
			}
		default:
			p.why = "?store target " + src(l)
		}
	}
	return []*dsPath{p}
}

// position decodes an index expression: k, i, i+k, k+i (i the index of the enclosing abstract loop over `over`).
func (ev *dsEval) position(p *dsPath, e ast.Expr) (int, bool, string) {
	c := ev.c
	e = unparen(e)
	if k := c.constOf(e); k != nil {
		n := -1
		fmt.Sscanf(k.ExactString(), "%d", &n)
		return n, false, ""
	}
	if id, ok := e.(*ast.Ident); ok {
		if v, ok := p.env[c.objOf(id)]; ok && strings.HasPrefix(v.term, "const:") {
			n := -1
			fmt.Sscanf(strings.TrimPrefix(v.term, "const:"), "%d", &n)
			return n, false, ""
		}
	}
	base := 0
	loopVar := func(e ast.Expr) (string, bool) {
		if id, ok := unparen(e).(*ast.Ident); ok {
			if v, ok := p.env[c.objOf(id)]; ok && strings.HasPrefix(v.term, "IDX(") {
				base = v.off
				return strings.TrimSuffix(strings.TrimPrefix(v.term, "IDX("), ")"), true
			}
		}
		return "", false
	}
	if o, ok := loopVar(e); ok {
		return base, true, o
	}
	if be, ok := e.(*ast.BinaryExpr); ok && be.Op == token.ADD {
		for _, pr := range [][2]ast.Expr{{be.X, be.Y}, {be.Y, be.X}} {
			if o, ok := loopVar(pr[0]); ok {
				if k := c.constOf(pr[1]); k != nil {
					n := -1
					fmt.Sscanf(k.ExactString(), "%d", &n)
					if n >= 0 {
						n += base
					}
					return n, true, o
				}
			}
		}
	}
	return -1, false, ""
}

// loop executes a loop body once with symbolic index / element; a loop over a built sequence is unrolled over its single
// elements, and run once symbolically for every spliced segment (`append(lit, xs...)`): there the index is the segment's
// offset plus the position in xs and the element is the segment's template.
func (ev *dsEval) loop(p *dsPath, key, value, over ast.Expr, body *ast.BlockStmt, kind string) []*dsPath {
	c := ev.c
	src0 := ev.eval(p, over)
	bindConst := func(q *dsPath, i int, elem string) {
		if key != nil {
			if id, ok := key.(*ast.Ident); ok && id.Name != "_" {
				q.env[c.objOf(id)] = &dsVal{term: fmt.Sprintf("const:%d", i)}
			}
		}
		if value != nil {
			if id, ok := value.(*ast.Ident); ok && id.Name != "_" {
				q.env[c.objOf(id)] = &dsVal{term: elem}
			}
		}
	}
	if src0.data != nil {
		// built sequence (variadic operands, literal, literal + spliced source): unroll over its single elements
		d := src0.data
		if len(d.maps) > 0 || src0.off != 0 {
			p.why = "?loop over a sequence that is not a plain literal"
			return []*dsPath{p}
		}
		for i := 0; i < len(d.fixed); i++ {
			if _, ok := d.fixed[i]; !ok {
				p.why = "?loop over a sparse sequence"
				return []*dsPath{p}
			}
		}
		fixed := make([]string, len(d.fixed))
		for i := range fixed {
			fixed[i] = d.fixed[i]
		}
		items := append([]string{}, d.app...)
		paths := []*dsPath{p}
		n := 0
		for _, el := range fixed {
			for _, q := range paths {
				bindConst(q, n, el)
			}
			paths = ev.exec(paths, body.List, kind)
			n++
		}
		for _, item := range items {
			if strings.HasPrefix(item, "*") {
				k := strings.LastIndex(item, "<-")
				if k < 0 || n < 0 {
					for _, q := range paths {
						q.why = "?loop over a sequence with an element after a spliced segment"
					}
					return paths
				}
				tmpl, seg := item[1:k], item[k+2:]
				var next []*dsPath
				for _, q := range paths {
					if q.done || q.why != "" {
						next = append(next, q)
						continue
					}
					next = append(next, ev.symbolicIter(q, key, value, body, kind, seg, n, tmpl)...)
				}
				paths = next
				n = -1
				continue
			}
			if n < 0 {
				for _, q := range paths {
					q.why = "?loop over a sequence with an element after a spliced segment"
				}
				return paths
			}
			for _, q := range paths {
				bindConst(q, n, item)
			}
			paths = ev.exec(paths, body.List, kind)
			n++
		}
		return paths
	}
	if strings.HasPrefix(src0.term, "?") {
		p.why = "?loop source"
		return []*dsPath{p}
	}
	return ev.symbolicIter(p, key, value, body, kind, src0.term, 0, "#")
}

// symbolicIter runs the body once for "the i-th element of seg": the index is base+i, the element is tmpl (in which # is
// seg's element). Elements appended inside become map segments over seg.
func (ev *dsEval) symbolicIter(p *dsPath, key, value ast.Expr, body *ast.BlockStmt, kind, seg string, base int, tmpl string) []*dsPath {
	c := ev.c
	if key != nil {
		if id, ok := key.(*ast.Ident); ok && id.Name != "_" {
			p.env[c.objOf(id)] = &dsVal{term: "IDX(" + seg + ")", off: base}
		}
	}
	if value != nil {
		if id, ok := value.(*ast.Ident); ok && id.Name != "_" {
			p.env[c.objOf(id)] = &dsVal{term: tmpl}
		}
	}
	// appends inside the loop become map segments: mark by executing and rewriting what was appended
	before := map[*dsData]int{}
	for _, v := range p.env {
		if v.data != nil {
			before[v.data] = len(v.data.app)
		}
	}
	outs := ev.exec([]*dsPath{p}, body.List, kind)
	if len(outs) != 1 {
		for _, q := range outs {
			q.why = "?branching loop body"
		}
		return outs
	}
	q := outs[0]
	for _, v := range q.env {
		if v.data != nil {
			n, seen := before[v.data]
			if !seen {
				n = 0
			}
			for i := n; i < len(v.data.app); i++ {
				if !strings.HasPrefix(v.data.app[i], "*") {
					v.data.app[i] = "*" + v.data.app[i] + "<-" + seg
				}
			}
			before[v.data] = len(v.data.app)
		}
	}
	if q.done && !q.fail {
		q.why = "?return inside a loop"
	}
	return outs
}

// desugarDenotation evaluates trans.Desugar for every node kind. Result: kind -> (terms of the non-failing paths with their
// conditions, decided). decided=false when some path could not be evaluated.
var dsDenCache = map[*Prog]map[string][]string{}

func (c *Ctx) desugarDenotation() map[string][]string {
	if d, ok := dsDenCache[c.Prog]; ok {
		return d
	}
	fd := c.FuncDecl("trans", "Desugar")
	if fd == nil {
		return nil
	}
	out := map[string][]string{}
	defer func() { dsDenCache[c.Prog] = out }()
	param := c.objOf(fd.Type.Params.List[0].Names[0])
	for _, k := range c.exprNodeTypes() {
		ev := &dsEval{c: c, pk: "trans"}
		p := &dsPath{env: map[types.Object]*dsVal{param: {term: "e"}}}
		paths := ev.exec([]*dsPath{p}, fd.Body.List, k)
		var res []string
		decided := true
		for _, q := range paths {
			if q.why != "" {
				decided = false
				res = append(res, "UNDECIDED "+q.why)
				continue
			}
			if q.fail {
				res = append(res, strings.Join(q.conds, " & ")+" => FAIL")
				continue
			}
			r := q.result
			if q.resVal != nil {
				r = q.resVal.String()
			}
			if strings.Contains(r, "?") {
				decided = false
			}
			res = append(res, strings.Join(q.conds, " & ")+" => "+r)
		}
		sort.Strings(res)
		if !decided {
			res = append([]string{"UNDECIDED"}, res...)
		}
		out[k] = res
	}
	return out
}

// expected denotations (the language definition of the sugar forms, C10).
var desugarExpected = map[string][]string{
	"parser/ast.StrExpr":       {" => e"},
	"parser/ast.NumExpr":       {" => e"},
	"parser/ast.BoolExpr":      {" => e"},
	"parser/ast.TimeExpr":      {" => e"},
	"parser/ast.IdentExpr":     {" => e"},
	"parser/ast.ListExpr":      {" => List([*D(#)<-e.Elems],e.Pos)"},
	"parser/ast.MapExpr":       {" => Map([*Pair{Key:D(#.Key),Val:D(#.Val)}<-e.Pairs],e.Pos)"},
	"parser/ast.ObjExpr":       {" => Obj([*Field{Name:#.Name,Val:D(#.Val)}<-e.Fields],e.Pos)"},
	"parser/ast.UnaryExpr":     {" => Call(Var(e.Name,e.IdentExpr.Pos),[D(e.LHS)],e.IdentExpr.Col,e.Pos)"},
	"parser/ast.BinaryExpr":    {" => Call(Var(e.Name,e.IdentExpr.Pos),[D(e.LHS),D(e.RHS)],e.IdentExpr.Col,e.Pos)"},
	"parser/ast.SubscriptExpr": {" => Subscript(D(e.Var),D(e.Idx),e.DBGCol,e.Pos)"},
	"parser/ast.MemberExpr":    {" => Member(D(e.Obj),e.Field,e.DBGCol,e.Pos)"},
	"parser/ast.GroupExpr":     {" => D(e.SubExpr)"},
}

func init() {
	reg("DS-9", ruleDS9)
}

// DS-9: see the file comment. One obligation per node kind.
func ruleDS9(c *Ctx) {
	c.R.Rule("DS-9", 10, "denotation of trans.Desugar by abstract evaluation, per node kind: leaves are returned as they are; list / map / object literals are rebuilt from the element-wise desugared members in order; x op y, op x, c ? a : b become Call(Var(<operator name | fun.IF>, <operator position>), [desugared operands in source order], <operator column>, <span>); o.f(args) becomes Call(Var(f), [D(o), D(args)...]) and f(args) Call(D(f), [D(args)...]); subscript and member keep their operands, field and column; (e) is D(e)")
	den := c.desugarDenotation()
	fd := c.FuncDecl("trans", "Desugar")
	if den == nil || fd == nil {
		c.R.Anchor("trans.Desugar")
		return
	}
	exp := desugarExpectedAll()
	var kinds []string
	for k := range den {
		kinds = append(kinds, k)
	}
	sort.Strings(kinds)
	for _, k := range kinds {
		got := den[k]
		want := append([]string{}, exp[k]...)
		sort.Strings(want)
		desc := "denotation for " + strings.TrimPrefix(k, "parser/ast.")
		switch {
		case len(got) > 0 && got[0] == "UNDECIDED":
			c.R.Unk("trans.Desugar", desc, fd.Pos(), "could not be evaluated: %s", strings.Join(got[1:], " | "))
		case strings.Join(got, " | ") == strings.Join(want, " | "):
			c.R.OK("trans.Desugar", desc, fd.Pos(), "%s", strings.Join(got, " | "))
		default:
			c.R.Bad("trans.Desugar", desc, fd.Pos(), "Desugar of this form is %s — the form stands for %s", strings.Join(got, " | "), strings.Join(want, " | "))
		}
	}
}

func desugarExpectedAll() map[string][]string {
	exp := map[string][]string{}
	for k, v := range desugarExpected {
		exp[k] = v
	}
	exp["parser/ast.TenaryExpr"] = []string{"!(e.Name==parser/token.QUESTION) => FAIL", "(e.Name==parser/token.QUESTION) => Call(Var(fun.IF,e.IdentExpr.Pos),[D(e.Left),D(e.Mid),D(e.Right)],e.IdentExpr.Col,e.Pos)"}
	exp["parser/ast.CallExpr"] = []string{"!e.Callee is *parser/ast.MemberExpr => Call(D(e.Callee),[*D(#)<-e.Args],e.DBGCol,e.Pos)", "e.Callee is *parser/ast.MemberExpr => Call(Var(e.Callee.Field.Name,e.Callee.Field.Pos),[D(e.Callee.Obj),*D(#)<-e.Args],e.DBGCol,e.Pos)"}
	return exp
}
