package main

import (
	"encoding/json"
	"fmt"
	"go/token"
	"os"
	"sort"
	"strings"
)

type Verdict string

const (
	Discharged Verdict = "discharged"
	Violated   Verdict = "violated"
	Undecided  Verdict = "undecided"
)

type Obligation struct {
	Key        string  `json:"key"`
	Rule       string  `json:"rule"`
	At         string  `json:"at"`
	Verdict    Verdict `json:"verdict"`
	Why        string  `json:"why"`
	Nontrivial bool    `json:"nontrivial"`
}

type ruleStat struct {
	Instances  int    `json:"instances"`
	Floor      int    `json:"floor"`
	Discharged int    `json:"discharged"`
	Violated   int    `json:"violated"`
	Undecided  int    `json:"undecided"`
	Clause     string `json:"clause,omitempty"`
}

// Report collects the obligations of one property run.
type Report struct {
	prog   *Prog
	obs    []*Obligation
	keys   map[string]int
	floors map[string]int
	clause map[string]string
	cur    string // current rule id
	notes  []string
	lemmas map[string]bool
}

func newReport(p *Prog) *Report {
	return &Report{prog: p, keys: map[string]int{}, floors: map[string]int{}, clause: map[string]string{}, lemmas: map[string]bool{}}
}

// Rule starts a rule: id, instance floor confirmed by hand, and the clause it decides.
func (r *Report) Rule(id string, floor int, clause string) {
	r.cur = id
	r.floors[id] = floor
	r.clause[id] = clause
}

func (r *Report) add(fn, desc string, pos token.Pos, v Verdict, nontrivial bool, why string) *Obligation {
	key := r.cur + "|" + fn + "|" + desc
	r.keys[key]++
	if n := r.keys[key]; n > 1 {
		key = fmt.Sprintf("%s #%d", key, n)
	}
	o := &Obligation{Key: key, Rule: r.cur, At: r.prog.pos(pos), Verdict: v, Why: why, Nontrivial: nontrivial}
	r.obs = append(r.obs, o)
	return o
}

// OK / Bad / Unk record an obligation for the current rule. fn = "pkg.Func", desc = construct descriptor (no line numbers).
func (r *Report) OK(fn, desc string, pos token.Pos, why string, a ...interface{}) {
	r.add(fn, desc, pos, Discharged, true, fmt.Sprintf(why, a...))
}
func (r *Report) OKTrivial(fn, desc string, pos token.Pos, why string, a ...interface{}) {
	r.add(fn, desc, pos, Discharged, false, fmt.Sprintf(why, a...))
}
func (r *Report) Bad(fn, desc string, pos token.Pos, why string, a ...interface{}) {
	r.add(fn, desc, pos, Violated, true, fmt.Sprintf(why, a...))
}
func (r *Report) Unk(fn, desc string, pos token.Pos, why string, a ...interface{}) {
	r.add(fn, desc, pos, Undecided, true, fmt.Sprintf(why, a...))
}

// Check is OK if cond else Bad, with the same descriptor.
func (r *Report) Check(cond bool, fn, desc string, pos token.Pos, okWhy, badWhy string) {
	if cond {
		r.OK(fn, desc, pos, "%s", okWhy)
	} else {
		r.Bad(fn, desc, pos, "%s", badWhy)
	}
}

// Anchor reports an unresolved anchor (always a violation, never skipped).
func (r *Report) Anchor(what string) {
	save := r.cur
	r.cur = "ANCHOR"
	r.add(save, what, token.NoPos, Undecided, false, "anchor did not resolve: "+what)
	r.cur = save
}

func (r *Report) Note(format string, a ...interface{}) {
	r.notes = append(r.notes, fmt.Sprintf(format, a...))
}

// ---- known findings ----

type Finding struct {
	Status       string   `json:"status"` // open | fixed
	Property     []string `json:"property"`
	Rule         string   `json:"rule"`
	Keys         []string `json:"keys,omitempty"`
	What         string   `json:"what"`
	FailingInput string   `json:"failing_input,omitempty"`
	Commit       string   `json:"commit,omitempty"`
}

type knownFile struct {
	Findings []Finding `json:"findings"`
}

func loadKnown(path string) (map[string]*Finding, error) {
	out := map[string]*Finding{}
	if path == "" {
		return out, nil
	}
	b, err := os.ReadFile(path)
	if err != nil {
		return out, err
	}
	var kf knownFile
	if err := json.Unmarshal(b, &kf); err != nil {
		return out, err
	}
	for i := range kf.Findings {
		f := &kf.Findings[i]
		if f.Status != "open" {
			continue
		}
		for _, k := range f.Keys {
			out[k] = f
		}
	}
	return out, nil
}

// ---- finish: floors, evidence, exit code ----

type runMeta struct {
	Property, Tier string
	Seed           int
	Explanation    string
	NotCovered     string
	Assumptions    []string
	WallS          float64
	EvidencePath   string
	CGNodes        int
	Only           string
	Quiet          bool // selftest multi mode: only verdict lines
}

func (r *Report) finish(m runMeta, known map[string]*Finding) int {
	// floors
	inst := map[string]int{}
	for _, o := range r.obs {
		inst[o.Rule]++
	}
	var rules []string
	for id := range r.floors {
		rules = append(rules, id)
	}
	sort.Strings(rules)
	for _, id := range rules {
		if inst[id] < r.floors[id] {
			r.cur = "FLOOR"
			r.add(id, "instance floor", token.NoPos, Violated, false,
				fmt.Sprintf("rule %s matched %d instances, floor confirmed by hand is %d: the rule would pass vacuously", id, inst[id], r.floors[id]))
		}
	}
	if m.Only != "" {
		var keep []*Obligation
		for _, o := range r.obs {
			if o.Key == m.Only {
				keep = append(keep, o)
			}
		}
		r.obs = keep
	}

	stats := map[string]*ruleStat{}
	var bad, knownHit []*Obligation
	distinct := map[string]bool{}
	discharged := 0
	for _, o := range r.obs {
		st := stats[o.Rule]
		if st == nil {
			st = &ruleStat{Floor: r.floors[o.Rule], Clause: r.clause[o.Rule]}
			stats[o.Rule] = st
		}
		st.Instances++
		switch o.Verdict {
		case Discharged:
			st.Discharged++
			discharged++
		case Violated:
			st.Violated++
		default:
			st.Undecided++
		}
		if o.Nontrivial {
			distinct[o.Key] = true
		}
		if o.Verdict != Discharged {
			if _, ok := known[o.Key]; ok && o.Verdict == Violated {
				knownHit = append(knownHit, o)
			} else {
				bad = append(bad, o)
			}
		}
	}

	// samples: all non-discharged first, then a spread of discharged ones
	var samples []*Obligation
	samples = append(samples, bad...)
	samples = append(samples, knownHit...)
	seenRule := map[string]int{}
	for _, o := range r.obs {
		if len(samples) >= 40 {
			break
		}
		if o.Verdict == Discharged && seenRule[o.Rule] < 3 {
			seenRule[o.Rule]++
			samples = append(samples, o)
		}
	}

	var kf []string
	for _, o := range knownHit {
		f := known[o.Key]
		line := fmt.Sprintf("KNOWN-FINDING: property=%s %s — %s (%s) [%s]", m.Property, o.Key, f.What, f.FailingInput, o.At)
		if !m.Quiet {
			fmt.Println(line)
		}
		kf = append(kf, o.Key)
	}

	funcs := r.prog.countFuncs()
	if m.Explanation == "" {
		var parts []string
		for _, id := range rules {
			if r.clause[id] != "" {
				parts = append(parts, id+": "+r.clause[id])
			}
		}
		m.Explanation = "Static analysis of /repo's current source (typed AST, go/cfg dominators, go/ssa, constant evaluation); nothing is executed. Each rule decides a structural necessary condition of the property for all inputs: " + strings.Join(parts, " | ")
	}
	cov := map[string]interface{}{
		"explanation":         m.Explanation,
		"not_covered":         m.NotCovered,
		"obligations":         len(r.obs),
		"discharged":          discharged,
		"evaluations":         len(r.obs),
		"distinct_nontrivial": len(distinct),
		"rule":                "one obligation per rule instance (rule applied to one resolved construct: call site, case clause, opcode, built-in, store class, loop); keys are rule|function|construct without line numbers; non-trivial = the verdict needed a dominance / provenance / comparison / constant-evaluation argument rather than mere existence of the construct",
		"rules":               stats,
		"samples":             samples,
		"analysed":            map[string]interface{}{"packages": len(r.prog.Mod), "files": r.prog.Files, "functions": funcs, "callgraph_nodes": m.CGNodes},
		"known_findings":      kf,
		"notes":               r.notes,
		"checker_cmd":         fmt.Sprintf("./check.sh %s %s", m.Property, m.Tier),
		"trusted_base":        []string{"go/types", "go/cfg", "go/ssa + VTA call graph (golang.org/x/tools v0.29.0)", "frozen tables in /verif/checker/*.go (one symbol + reason each)", "go/constant evaluation"},
		"exhaustive":          false,
	}
	ev := map[string]interface{}{
		"property_id": m.Property,
		"tier":        m.Tier,
		"seed":        m.Seed,
		"level":       "other",
		"coverage":    cov,
		"assumptions": m.Assumptions,
		"wall_s":      m.WallS,
		"violations":  len(bad),
	}
	if m.EvidencePath != "" {
		b, _ := json.MarshalIndent(ev, "", " ")
		if err := os.WriteFile(m.EvidencePath, append(b, '\n'), 0o644); err != nil {
			fmt.Fprintln(os.Stderr, "cannot write evidence:", err)
			return 1
		}
	}

	// summary to stdout
	for _, id := range sortedKeys(stats) {
		if m.Quiet {
			break
		}
		st := stats[id]
		fmt.Printf("rule %-12s instances=%-4d floor=%-4d discharged=%-4d violated=%-3d undecided=%-3d\n", id, st.Instances, st.Floor, st.Discharged, st.Violated, st.Undecided)
	}
	if !m.Quiet {
		fmt.Printf("property=%s tier=%s obligations=%d discharged=%d known=%d violations=%d packages=%d functions=%d wall=%.1fs\n",
			m.Property, m.Tier, len(r.obs), discharged, len(knownHit), len(bad), len(r.prog.Mod), funcs, m.WallS)
	}

	if len(bad) > 0 {
		replay := strings.TrimSuffix(m.EvidencePath, ".json") + ".violations.json"
		if m.EvidencePath == "" {
			replay = "/dev/null"
		} else {
			b, _ := json.MarshalIndent(bad, "", " ")
			_ = os.WriteFile(replay, append(b, '\n'), 0o644)
		}
		for _, o := range bad {
			fmt.Printf("  %s: %s  at %s — %s\n", strings.ToUpper(string(o.Verdict)), o.Key, o.At, o.Why)
		}
		fmt.Printf("VIOLATION property=%s replay=%s\n", m.Property, replay)
		return 1
	}
	return 0
}

func sortedKeys(m map[string]*ruleStat) []string {
	var ks []string
	for k := range m {
		ks = append(ks, k)
	}
	sort.Strings(ks)
	return ks
}
