package main

import (
	"go/token"
	"go/types"
	"sort"
	"strings"

	"golang.org/x/tools/go/callgraph"
	"golang.org/x/tools/go/ssa"
)

// EFFECT-7: objects held by the engine (reachable through a field of yae.Expr) are shared by every compilation and
// invocation that runs on that engine, also concurrently. During the compile/invoke phase (everything reachable from the
// entries without going through makeSureInit, whose body is guarded by the init flag) such an object must not be written:
//   (a) it is not handed to a function that writes the memory reachable from that parameter (bottom-up mutation summaries
//       over all module functions: stores, map updates, append/copy/sort, and calls that pass the parameter on),
//   (b) a function value loaded from the engine is not a closure that writes through its captured variables
//       (e.g. a bound method of a stateful lexer / parser kept in a field),
//   (c) it is not written directly, unless under a mutex that is itself held by the engine,
//   (d) objects that a function returns out of engine-held storage (a cache) count as engine-held at its call sites.
// Necessary for C13 (the outcome of a compilation depends on source and environment only, not on what the engine compiled
// before) and C14 (no location shared between concurrent compilations is written).

func init() {
	reg("EFFECT-7", ruleEffect7)
}

type e7facts struct {
	ef      *effectFacts
	mutP    map[*ssa.Function]map[int]string
	mutFV   map[*ssa.Function]string
	retEng  map[*ssa.Function]string
	callees map[ssa.CallInstruction][]*ssa.Function
	phase   map[*ssa.Function]bool
}

func refLike(t types.Type) bool {
	switch t.Underlying().(type) {
	case *types.Pointer, *types.Slice, *types.Map, *types.Interface, *types.Signature, *types.Chan:
		return true
	}
	return false
}

func fullArgs(cc *ssa.CallCommon) []ssa.Value {
	if cc.IsInvoke() {
		return append([]ssa.Value{cc.Value}, cc.Args...)
	}
	return cc.Args
}

func (x *e7facts) engWhy(v ssa.Value) string {
	if v == nil || !refLike(v.Type()) {
		return ""
	}
	for _, r := range rootsOf(v, map[ssa.Value]bool{}, 0) {
		if r.eng {
			return r.desc
		}
		if r.kind == rCallRet && r.fn != nil {
			if g, ok := x.retEng[r.fn]; ok {
				return g + " (returned by " + ssaFuncName(r.fn) + ")"
			}
		}
	}
	return ""
}

func (c *Ctx) effect7Facts() *e7facts {
	ef := c.effects()
	x := &e7facts{ef: ef, mutP: map[*ssa.Function]map[int]string{}, mutFV: map[*ssa.Function]string{}, retEng: map[*ssa.Function]string{},
		callees: map[ssa.CallInstruction][]*ssa.Function{}, phase: map[*ssa.Function]bool{}}
	cg := c.CallGraph()
	inMod := map[*ssa.Function]bool{}
	for _, f := range ef.funcs {
		inMod[f] = true
	}
	// bound-method and thunk wrappers are synthetic functions outside ef.funcs: collect those the call graph knows
	var all []*ssa.Function
	all = append(all, ef.funcs...)
	for f, n := range cg.Nodes {
		if f == nil || inMod[f] || f.Blocks == nil {
			continue
		}
		if f.Synthetic != "" && n != nil {
			// wrappers of module methods only
			keep := false
			for _, e := range n.Out {
				if inMod[e.Callee.Func] {
					keep = true
				}
			}
			if keep {
				all = append(all, f)
			}
		}
	}
	sort.Slice(all, func(i, j int) bool { return all[i].String() < all[j].String() })
	for _, f := range all {
		n := cg.Nodes[f]
		if n == nil {
			continue
		}
		for _, e := range n.Out {
			if e.Site == nil || e.Callee.Func == nil || e.Callee.Func.Blocks == nil {
				continue
			}
			x.callees[e.Site] = append(x.callees[e.Site], e.Callee.Func)
		}
	}
	setP := func(f *ssa.Function, i int, how string) bool {
		if x.mutP[f] == nil {
			x.mutP[f] = map[int]string{}
		}
		if _, ok := x.mutP[f][i]; ok {
			return false
		}
		x.mutP[f][i] = how
		return true
	}
	note := func(f *ssa.Function, v ssa.Value, how string) bool {
		ch := false
		for _, r := range rootsOf(v, map[ssa.Value]bool{}, 0) {
			switch {
			case r.kind == rParam && r.fn == f:
				if setP(f, r.idx, how) {
					ch = true
				}
			case r.kind == rFreeVar && r.fn == f:
				if _, ok := x.mutFV[f]; !ok {
					x.mutFV[f] = how + " through " + r.desc
					ch = true
				}
			}
		}
		return ch
	}
	for iter := 0; iter < 12; iter++ {
		changed := false
		for _, f := range all {
			for _, w := range writesOf(f) {
				if _, isFV := w.target.(*ssa.FreeVar); isFV {
					continue // assignment to a captured variable cell itself (named results, counters of the creating invocation)
				}
				if note(f, w.target, w.what) {
					changed = true
				}
			}
			for _, b := range f.Blocks {
				for _, in := range b.Instrs {
					switch y := in.(type) {
					case ssa.CallInstruction:
						cc := y.Common()
						args := fullArgs(cc)
						for _, g := range x.callees[y] {
							for i, how := range x.mutP[g] {
								if i >= len(args) {
									continue
								}
								if note(f, args[i], "passes it to "+ssaFuncName(g)+" ("+trunc(how, 80)+")") {
									changed = true
								}
							}
							// a closure that writes through its captured variables, called here: the captured values are whatever was bound
							if how, ok := x.mutFV[g]; ok && !cc.IsInvoke() && cc.StaticCallee() == nil {
								if note(f, cc.Value, "calls closure "+ssaFuncName(g)+" ("+trunc(how, 80)+")") {
									changed = true
								}
							}
						}
					case *ssa.MakeClosure:
						// binding a parameter / captured variable into a closure that writes through it
						g, _ := y.Fn.(*ssa.Function)
						if g == nil {
							continue
						}
						if how, ok := x.mutFV[g]; ok {
							for _, bnd := range y.Bindings {
								if !refLike(bnd.Type()) {
									continue
								}
								if note(f, bnd, "binds it into closure "+ssaFuncName(g)+" ("+trunc(how, 80)+")") {
									changed = true
								}
							}
						}
					case *ssa.Return:
						for _, res := range y.Results {
							if g := x.engWhy(res); g != "" {
								if _, ok := x.retEng[f]; !ok {
									x.retEng[f] = g
									changed = true
								}
							}
						}
					}
				}
			}
		}
		if !changed {
			break
		}
	}
	// compile/invoke phase: reachable from the entries without passing through makeSureInit
	var msi *ssa.Function
	for _, f := range ef.funcs {
		if ssaFuncName(f) == "yae.Expr.makeSureInit" {
			msi = f
		}
	}
	var visit func(n *callgraph.Node)
	visit = func(n *callgraph.Node) {
		if n == nil || n.Func == msi || x.phase[n.Func] {
			return
		}
		x.phase[n.Func] = true
		for _, a := range n.Func.AnonFuncs {
			visit(cg.Nodes[a])
		}
		for _, e := range n.Out {
			if e.Callee.Func.Pkg != nil && !isMod(e.Callee.Func.Pkg.Pkg.Path()) {
				continue
			}
			visit(e.Callee)
		}
	}
	for _, f := range ef.funcs {
		switch ssaFuncName(f) {
		case "yae.Eval", "yae.Debug", "yae.Expr.Compile", "yae.Expr.Parse", "yae.Expr.CompileExpr", "yae.Expr.MustCompile", "yae.Expr.makeCallable", "yae.Expr.envCheck":
			visit(cg.Nodes[f])
		}
	}
	return x
}

func trunc(s string, n int) string {
	if len(s) > n {
		return s[:n] + "…"
	}
	return s
}

// engineMutexGuarded: `in` is dominated by Lock()/RLock() on a mutex reached through the engine with no Unlock in between.
func (x *e7facts) engineMutexGuarded(in ssa.Instruction, write bool) bool {
	b := in.Block()
	f := b.Parent()
	type ev struct {
		lock bool
		blk  *ssa.BasicBlock
		pos  int
	}
	var evs []ev
	for _, bb := range f.Blocks {
		for i, y := range bb.Instrs {
			call, ok := y.(*ssa.Call)
			if !ok || len(call.Call.Args) == 0 {
				continue
			}
			nm := calleeQual(call.Call)
			isLock := nm == "sync.Mutex.Lock" || nm == "sync.RWMutex.Lock" || (!write && nm == "sync.RWMutex.RLock")
			isUnlock := nm == "sync.Mutex.Unlock" || nm == "sync.RWMutex.Unlock" || nm == "sync.RWMutex.RUnlock"
			if !isLock && !isUnlock {
				continue
			}
			// the mutex is a field of the engine: its address is FieldAddr on *yae.Expr (possibly nested)
			if fa, ok := call.Call.Args[0].(*ssa.FieldAddr); ok && (typeStr(fa.X.Type()) == "*yae.Expr" || x.engWhy(fa.X) != "") {
				evs = append(evs, ev{isLock, bb, i})
			}
		}
	}
	idx := -1
	for i, y := range b.Instrs {
		if y == in {
			idx = i
		}
	}
	before := func(e ev) bool {
		if e.blk == b {
			return e.pos < idx
		}
		return e.blk.Dominates(b)
	}
	for _, l := range evs {
		if !l.lock || !before(l) {
			continue
		}
		released := false
		for _, u := range evs {
			if u.lock || !before(u) {
				continue
			}
			if u.blk == l.blk && u.pos > l.pos || u.blk != l.blk && l.blk.Dominates(u.blk) {
				released = true
			}
		}
		if !released {
			return true
		}
	}
	return false
}

func ruleEffect7(c *Ctx) {
	c.R.Rule("EFFECT-7", 4, "engine-held objects are read-only during compile/invoke: in every function reachable from Eval/Debug/Compile/Parse/CompileExpr/the Callable without passing through makeSureInit (which is guarded by the init flag), no value reached through a field of yae.Expr — directly, through a function that returns it, or as the captured state of a function value kept in a field — is written in place, handed to a function whose mutation summary writes that parameter, or called as a closure that writes through its captured variables; the in-place oper.Sort of the engine's operator slice is the one frozen exception (idempotent once sorted)")
	x := c.effect7Facts()
	cg := c.CallGraph()
	entryNames := map[string]bool{"yae.Eval": true, "yae.Debug": true, "yae.Expr.Compile": true, "yae.Expr.Parse": true, "yae.Expr.CompileExpr": true, "yae.Expr.MustCompile": true, "yae.Expr.makeCallable": true, "yae.Expr.envCheck": true}
	var fs []*ssa.Function
	for f := range x.phase {
		if f != nil && f.Blocks != nil && (f.Pkg == nil || isMod(pkgPathOf(f)) || f.Synthetic != "") {
			fs = append(fs, f)
		}
	}
	sort.Slice(fs, func(i, j int) bool { return ssaFuncName(fs[i]) < ssaFuncName(fs[j]) })
	reads := 0
	for _, f := range fs {
		name := ssaFuncName(f)
		if f.Synthetic != "" && f.Pkg == nil && f.Parent() == nil && f.Object() == nil {
			name = f.String()
		}
		// (c) direct writes
		for _, w := range writesOf(f) {
			why := x.engWhy(w.target)
			if why == "" && typeStr(w.target.Type()) == "*yae.Expr" {
				// a write to a field of the engine through a parameter: decided at the phase call sites of this function
				// (a builder called on an engine created in the caller configures a local engine)
				shared := false
				for _, r := range rootsOf(w.target, map[ssa.Value]bool{}, 0) {
					switch {
					case r.kind == rFresh:
					case r.kind == rParam && r.fn == f && !entryNames[ssaFuncName(f)]:
						if n := cg.Nodes[f]; n != nil {
							for _, e := range n.In {
								if !x.phase[e.Caller.Func] || e.Site == nil {
									continue
								}
								args := fullArgs(e.Site.Common())
								if r.idx >= len(args) {
									shared = true
									continue
								}
								for _, ar := range rootsOf(args[r.idx], map[ssa.Value]bool{}, 0) {
									if ar.kind != rFresh {
										shared = true
									}
								}
							}
						}
					default:
						shared = true
					}
				}
				if shared {
					why = "the engine itself"
				} else {
					c.R.OK(name, w.what+" on a local engine", w.instr.Pos(), "every compile/invoke-phase caller passes an engine it created itself")
				}
			}
			if why == "" {
				continue
			}
			desc := w.what + " on " + why
			if x.engineMutexGuarded(w.instr, true) {
				c.R.OK(name, desc, w.instr.Pos(), "under a mutex held by the engine (Lock dominates, no Unlock in between)")
				continue
			}
			c.R.Bad(name, desc, w.instr.Pos(), "engine-held state is written during compile/invoke, outside the init-guarded makeSureInit: concurrent compilations on one engine race on it and later compilations see what earlier ones left")
		}
		for _, b := range f.Blocks {
			for _, in := range b.Instrs {
				ci, ok := in.(ssa.CallInstruction)
				if !ok {
					continue
				}
				cc := ci.Common()
				args := fullArgs(cc)
				for _, a := range args {
					if x.engWhy(a) != "" {
						reads++
					}
				}
				seen := map[string]bool{}
				for _, g := range x.callees[ci] {
					// (a)
					var idxs []int
					for i := range x.mutP[g] {
						idxs = append(idxs, i)
					}
					sort.Ints(idxs)
					for _, i := range idxs {
						if i >= len(args) {
							continue
						}
						why := x.engWhy(args[i])
						if why == "" {
							continue
						}
						how := x.mutP[g][i]
						desc := "passes " + why + " to " + ssaFuncName(g) + " which writes it"
						if seen[desc] {
							continue
						}
						seen[desc] = true
						if strings.Contains(how, "parser/oper.Sort") && strings.HasPrefix(why, "field ") && typeStr(args[i].Type()) == "[]parser/oper.Operator" {
							c.R.OK(name, desc, in.Pos(), "frozen: the engine's own operator slice is sorted in place by oper.Sort when a lexer/parser is built; after the first compilation it is sorted, and a stable insertion/merge sort of a sorted slice only compares (SORTLESS-2 decides the comparator)")
							continue
						}
						c.R.Bad(name, desc, in.Pos(), "an object shared by all compilations/invocations on this engine is modified in place (%s): results depend on what the engine did before, and concurrent use races", trunc(how, 160))
					}
					// (b)
					if how, ok := x.mutFV[g]; ok && cc.StaticCallee() == nil && !cc.IsInvoke() {
						if why := x.engWhy(cc.Value); why != "" {
							desc := "calls " + why + ", a closure (" + ssaFuncName(g) + ") with mutable captured state"
							if !seen[desc] {
								seen[desc] = true
								c.R.Bad(name, desc, in.Pos(), "a stateful function value is kept in the engine and reused by every compilation (%s): two compilations on one engine share and clobber that state", trunc(how, 160))
							}
						}
					}
				}
			}
		}
	}
	c.R.Check(reads >= 4, "yae", "positive control: engine-held values are seen flowing into calls", token.NoPos, "the scan sees the engine's tables being handed to lexer, parser, checker and compiler", "no engine-held value reaches any call: the scan is not seeing the program")
	c.R.Check(len(fs) >= 100, "yae", "compile/invoke phase is non-trivial", token.NoPos, "phase functions analysed", "fewer than 100 functions in the compile/invoke phase: reachability is broken")
}
