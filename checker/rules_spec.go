package main

import (
	"fmt"
	"go/ast"
	"go/constant"
	"go/token"
	"go/types"
	"os"
	"sort"
	"strings"
)

// SPEC-1: the denotation of the operator / math built-ins (C04).
// The language definition fixes what `+ - * / % ^ == != < <= > >= ! max min abs ceil floor round len` mean on the
// primitive types; the property statement names them (IEEE double arithmetic, tolerance-based numeric comparison, exact
// string / bool / time comparison, rune-counted length). For each built-in registered under one of these names the
// result expression is translated into a small term language over the argument payloads (locals inlined, the argument
// vector may have any name, parentheses/positions dropped, `a > b` read as `b < a`, `a.After(b)` as `b.Before(a)`,
// `NumGT(a,b)` as `NumLT(b,a)`, `x != y` as `!(x == y)`, operands of commutative operations sorted) and must equal one
// of the terms the table lists for that (name, parameter kinds) pair. The table is the specification; it is not a copy of
// the source text. SPEC-2 does the same for the six tolerance helpers in val (EQ is |x-y| < eps with 0 < eps <= 1e-6,
// NE its complement, LT/GT strict-and-not-equal, LE/GE weak-or-equal) after inlining one helper into another.

func init() {
	reg("SPEC-1", ruleSpec1)
	reg("SPEC-2", ruleSpec2)
}

type termCtx struct {
	c      *Ctx
	defs   map[types.Object]ast.Expr
	args   types.Object            // the variadic parameter of a built-in (nil for helpers)
	names  map[types.Object]string // parameters of a helper -> "x","y"
	depth  int
	bad    string
	expand bool                    // see through module functions that are a single `return <expr>`
	locals map[types.Object]string // non-inlined local variables, numbered $0, $1, ... by first appearance (when non-nil)
	loops  []absLoop               // enclosing element loops: their element prints ELEM, their index IDX
}

var commutative = map[string]bool{"add": true, "mul": true, "eq": true, "and": true, "or": true, "Equal": true, "val.Equals": true, "math.Max": true, "math.Min": true, "absdiff": true}

func mk(op string, xs ...string) string {
	if commutative[op] && op != "and" && op != "or" {
		sort.Strings(xs)
	}
	if op == "and" || op == "or" { // pure boolean operands in these bodies: order is irrelevant for the value
		sort.Strings(xs)
	}
	return op + "(" + strings.Join(xs, ",") + ")"
}

func (t *termCtx) tr(e ast.Expr) string {
	c := t.c
	e = unparen(e)
	for i := len(t.loops) - 1; i >= 0; i-- {
		l := t.loops[i]
		if l.isElem(c.Prog, e) {
			return "ELEM"
		}
		if id, ok := e.(*ast.Ident); ok && l.idx != nil && c.objOf(id) == l.idx {
			return "IDX"
		}
	}
	switch x := e.(type) {
	case *ast.Ident:
		o := c.objOf(x)
		if o != nil {
			if t.args != nil && o == t.args {
				return "args"
			}
			if n, ok := t.names[o]; ok {
				return n
			}
			if d, ok := t.defs[o]; ok && t.depth < 20 {
				t.depth++
				s := t.tr(d)
				t.depth--
				return s
			}
			if cst, ok := o.(*types.Const); ok {
				return "const:" + cst.Val().ExactString()
			}
			if x.Name == "true" || x.Name == "false" || x.Name == "nil" {
				return x.Name
			}
			if v, ok := o.(*types.Var); ok && t.locals != nil && !v.IsField() && v.Pkg() != nil && v.Parent() != v.Pkg().Scope() {
				if n, ok := t.locals[o]; ok {
					return n
				}
				n := fmt.Sprintf("$%d", len(t.locals))
				t.locals[o] = n
				return n
			}
			return qual(o)
		}
		return x.Name
	case *ast.BasicLit:
		if cv := c.constOf(x); cv != nil {
			return "const:" + cv.ExactString()
		}
		return x.Value
	case *ast.IndexExpr:
		base := t.tr(x.X)
		if base == "args" {
			if cv := c.constOf(x.Index); cv != nil {
				if k, ok := constant.Int64Val(cv); ok {
					return fmt.Sprintf("a%d", k)
				}
			}
		}
		return mk("index", base, t.tr(x.Index))
	case *ast.SelectorExpr:
		if o := c.objOf(x); o != nil {
			if _, isVar := o.(*types.Var); !isVar || o.Parent() != nil { // package-level object / function
				if cst, ok := o.(*types.Const); ok {
					return "const:" + cst.Val().ExactString()
				}
				if _, isPkg := c.objOf(x.X).(*types.PkgName); isPkg {
					return qual(o)
				}
			}
		}
		base := t.tr(x.X)
		return base + "." + x.Sel.Name
	case *ast.TypeAssertExpr:
		if x.Type == nil {
			return "typeswitch(" + t.tr(x.X) + ")"
		}
		return "assert:" + typeStr(c.typeOf(x.Type)) + "(" + t.tr(x.X) + ")"
	case *ast.CompositeLit:
		var es []string
		for _, e := range x.Elts {
			es = append(es, t.tr(e))
		}
		return "lit:" + typeStr(c.typeOf(x)) + "{" + strings.Join(es, ",") + "}"
	case *ast.KeyValueExpr:
		return t.tr(x.Key) + ":" + t.tr(x.Value)
	case *ast.StarExpr:
		return "deref(" + t.tr(x.X) + ")"
	case *ast.FuncLit:
		return "funclit@" + c.pos(x.Pos())
	case *ast.SliceExpr:
		lo, hi := "const:0", "" // x[:h] is x[0:h]
		if x.Low != nil {
			lo = t.tr(x.Low)
		}
		if x.High != nil {
			hi = t.tr(x.High)
		}
		return "slice(" + t.tr(x.X) + "," + lo + "," + hi + ")"
	case *ast.UnaryExpr:
		switch x.Op {
		case token.NOT:
			in := t.tr(x.X)
			if strings.HasPrefix(in, "not(") {
				return in[4 : len(in)-1]
			}
			return mk("not", in)
		case token.SUB:
			return mk("neg", t.tr(x.X))
		case token.ADD:
			return t.tr(x.X)
		}
		return mk("un"+x.Op.String(), t.tr(x.X))
	case *ast.BinaryExpr:
		l, r := t.tr(x.X), t.tr(x.Y)
		switch x.Op {
		case token.ADD:
			if tv := c.typeOf(x.X); tv != nil {
				if b, ok := tv.Underlying().(*types.Basic); ok && b.Info()&types.IsString != 0 {
					return "concat(" + l + "," + r + ")"
				}
			}
			return mk("add", l, r)
		case token.SUB:
			return mk("sub", l, r)
		case token.MUL:
			return mk("mul", l, r)
		case token.QUO:
			return mk("quo", l, r)
		case token.REM:
			return mk("rem", l, r)
		case token.EQL:
			return mk("eq", l, r)
		case token.NEQ:
			return mk("not", mk("eq", l, r))
		case token.LSS:
			return mk("lt", l, r)
		case token.GTR:
			return mk("lt", r, l)
		case token.LEQ:
			return mk("le", l, r)
		case token.GEQ:
			return mk("le", r, l)
		case token.LAND:
			return mk("and", l, r)
		case token.LOR:
			return mk("or", l, r)
		}
		return mk("bin"+x.Op.String(), l, r)
	case *ast.CallExpr:
		// conversion
		if tv, ok := c.infoAt(x).Types[x.Fun]; ok && tv.IsType() && len(x.Args) == 1 {
			return mk("conv:"+typeStr(tv.Type), t.tr(x.Args[0]))
		}
		var as []string
		for _, a := range x.Args {
			as = append(as, t.tr(a))
		}
		nm := c.calleeName(x)
		if sel, ok := unparen(x.Fun).(*ast.SelectorExpr); ok {
			if _, isPkg := c.objOf(sel.X).(*types.PkgName); !isPkg && nm != "" {
				recv := t.tr(sel.X)
				// payload casts on *val.Val
				switch nm {
				case "val.Val.Num", "val.Val.Str", "val.Val.Bool", "val.Val.Time", "val.Val.List", "val.Val.Map", "val.Val.Obj", "val.Val.Maybe", "val.Val.Fun":
					return recv + ":" + strings.ToLower(sel.Sel.Name)
				case "time.Time.After":
					return mk("Before", as[0], recv)
				case "time.Time.Before":
					return mk("Before", recv, as[0])
				case "time.Time.Equal":
					return mk("Equal", recv, as[0])
				}
				return mk("m:"+nm, append([]string{recv}, as...)...)
			}
		}
		switch nm {
		case "val.Num", "val.Str", "val.Bool", "val.Time":
			return mk(strings.ToLower(nm[4:]), as...)
		case "val.NumGT":
			return mk("val.NumLT", as[1], as[0])
		case "val.NumGE":
			return mk("val.NumLE", as[1], as[0])
		case "val.NumNE":
			return mk("not", mk("val.NumEQ", as...))
		case "val.NumEQ":
			sort.Strings(as) // the tolerance test is symmetric (SPEC-2)
			return mk("val.NumEQ", as...)
		case "math.Abs":
			if strings.HasPrefix(as[0], "sub(") {
				return "absdiff(" + sortedArgs(as[0][4:len(as[0])-1]) + ")"
			}
		}
		if nm == "" {
			nm = "dyn:" + t.tr(x.Fun)
		}
		// a module function that is a single `return <expr>` is seen through (runeCount, FmtFloat, ...)
		if fo, ok := c.calleeObj(x).(*types.Func); ok && t.expand && fo.Pkg() != nil && isMod(fo.Pkg().Path()) && t.depth < 6 {
			if fd := c.declOf(fo); fd != nil && fd.Body != nil && len(fd.Body.List) == 1 {
				if r, ok := fd.Body.List[0].(*ast.ReturnStmt); ok && len(r.Results) == 1 {
					sub := &termCtx{c: c, defs: map[types.Object]ast.Expr{}, names: map[types.Object]string{}, depth: t.depth + 1, expand: true}
					k, okArgs := 0, true
					if fd.Recv != nil && len(fd.Recv.List) == 1 && len(fd.Recv.List[0].Names) == 1 {
						if sel, ok := unparen(x.Fun).(*ast.SelectorExpr); ok {
							sub.names[c.objOf(fd.Recv.List[0].Names[0])] = t.tr(sel.X)
						}
					}
					for _, fl := range fd.Type.Params.List {
						for _, n := range fl.Names {
							if k < len(as) {
								sub.names[c.objOf(n)] = as[k]
							} else {
								okArgs = false
							}
							k++
						}
						if len(fl.Names) == 0 {
							k++
						}
					}
					if okArgs && k == len(as) {
						return sub.tr(r.Results[0])
					}
				}
			}
		}
		return mk(nm, as...)
	}
	t.bad = fmt.Sprintf("expression form %T not understood", e)
	return "?"
}

func sortedArgs(s string) string {
	// split a two-operand argument list at the top-level comma
	d := 0
	for i, r := range s {
		switch r {
		case '(':
			d++
		case ')':
			d--
		case ',':
			if d == 0 {
				a, b := s[:i], s[i+1:]
				if b < a {
					a, b = b, a
				}
				return a + "," + b
			}
		}
	}
	return s
}

// sigKinds renders the name and the parameter list of a signature literal as primitive kind names or list/map/maybe/"var".
func (c *Ctx) sigKinds(sig *ast.CallExpr, scope ast.Node) (string, []string, bool) {
	if sig == nil || len(sig.Args) != 3 {
		return "", nil, false
	}
	cv := c.constOf(sig.Args[0])
	if cv == nil || cv.Kind() != constant.String {
		return "", nil, false
	}
	name := constant.StringVal(cv)
	cl, ok := unparen(sig.Args[1]).(*ast.CompositeLit)
	if !ok {
		return name, nil, false
	}
	var defs map[types.Object]ast.Expr
	if scope != nil {
		defs = c.localDefs(scope)
	}
	var kindOf func(e ast.Expr, d int) string
	kindOf = func(e ast.Expr, d int) string {
		e = unparen(e)
		if ce, ok := e.(*ast.CallExpr); ok {
			switch c.calleeName(ce) {
			case "types.List":
				return "list"
			case "types.Map":
				return "map"
			case "types.Maybe":
				return "maybe"
			}
			if len(ce.Args) == 1 { // types.TyVar is a func-typed variable
				if o := c.objOf(ce.Fun); o != nil && qual(o) == "types.TyVar" {
					return "var"
				}
			}
		}
		if o := c.objOf(e); o != nil {
			switch qual(o) {
			case "types.Num":
				return "num"
			case "types.Str":
				return "str"
			case "types.Bool":
				return "bool"
			case "types.Time":
				return "time"
			}
			if dd, ok := defs[o]; ok && d < 5 {
				return kindOf(dd, d+1)
			}
		}
		return "?"
	}
	var kinds []string
	for _, e := range cl.Elts {
		kinds = append(kinds, kindOf(e, 0))
	}
	return name, kinds, true
}

// denotation table: (name :: kinds) -> accepted canonical terms. p(k,kind) = payload of argument k.
func specTable() map[string][]string {
	n := func(k int) string { return fmt.Sprintf("a%d:num.V", k) }
	s := func(k int) string { return fmt.Sprintf("a%d:str.V", k) }
	b := func(k int) string { return fmt.Sprintf("a%d:bool.V", k) }
	tm := func(k int) string { return fmt.Sprintf("a%d:time.V", k) }
	nv := func(k int) string { return fmt.Sprintf("a%d:num", k) }
	T := map[string][]string{
		"+ :: num":          {"a0", "num(" + n(0) + ")"},
		"+ :: num -> num":   {"num(" + mk("add", n(0), n(1)) + ")"},
		"+ :: str -> str":   {"str(concat(" + s(0) + "," + s(1) + "))"},
		"- :: num":          {"num(neg(" + n(0) + "))"},
		"- :: num -> num":   {"num(sub(" + n(0) + "," + n(1) + "))"},
		"- :: time -> time": {"num(m:time.Duration.Seconds(m:time.Time.Sub(" + tm(0) + "," + tm(1) + ")))"},
		"* :: num -> num":   {"num(" + mk("mul", n(0), n(1)) + ")"},
		"/ :: num -> num":   {"num(quo(" + n(0) + "," + n(1) + "))"},
		"% :: num -> num":   {"num(conv:float64(rem(conv:int64(" + n(0) + "),conv:int64(" + n(1) + "))))"},
		"^ :: num -> num":   {"num(math.Pow(" + n(0) + "," + n(1) + "))"},

		"== :: bool -> bool": {"bool(" + mk("eq", b(0), b(1)) + ")"},
		"!= :: bool -> bool": {"bool(not(" + mk("eq", b(0), b(1)) + "))"},
		"== :: str -> str":   {"bool(" + mk("eq", s(0), s(1)) + ")"},
		"!= :: str -> str":   {"bool(not(" + mk("eq", s(0), s(1)) + "))"},
		"== :: num -> num":   {"bool(" + mk("val.NumEQ", nv(0), nv(1)) + ")"},
		"!= :: num -> num":   {"bool(not(" + mk("val.NumEQ", nv(0), nv(1)) + "))"},
		"== :: time -> time": {"bool(" + mk("Equal", tm(0), tm(1)) + ")"},
		"!= :: time -> time": {"bool(not(" + mk("Equal", tm(0), tm(1)) + "))"},
		"== :: list -> list": {"bool(" + mk("val.Equals", "a0", "a1") + ")"},
		"!= :: list -> list": {"bool(not(" + mk("val.Equals", "a0", "a1") + "))"},
		"== :: map -> map":   {"bool(" + mk("val.Equals", "a0", "a1") + ")"},
		"!= :: map -> map":   {"bool(not(" + mk("val.Equals", "a0", "a1") + "))"},

		"< :: num -> num":  {"bool(val.NumLT(" + nv(0) + "," + nv(1) + "))"},
		"> :: num -> num":  {"bool(val.NumLT(" + nv(1) + "," + nv(0) + "))"},
		"<= :: num -> num": {"bool(val.NumLE(" + nv(0) + "," + nv(1) + "))"},
		">= :: num -> num": {"bool(val.NumLE(" + nv(1) + "," + nv(0) + "))"},

		"< :: time -> time":  {"bool(Before(" + tm(0) + "," + tm(1) + "))"},
		"> :: time -> time":  {"bool(Before(" + tm(1) + "," + tm(0) + "))"},
		"<= :: time -> time": {"bool(" + mk("or", "Before("+tm(0)+","+tm(1)+")", mk("Equal", tm(0), tm(1))) + ")", "bool(not(Before(" + tm(1) + "," + tm(0) + ")))"},
		">= :: time -> time": {"bool(" + mk("or", "Before("+tm(1)+","+tm(0)+")", mk("Equal", tm(0), tm(1))) + ")", "bool(not(Before(" + tm(0) + "," + tm(1) + ")))"},

		"! :: bool": {"bool(not(" + b(0) + "))"},

		"max :: num -> num": {"num(" + mk("math.Max", n(0), n(1)) + ")"},
		"min :: num -> num": {"num(" + mk("math.Min", n(0), n(1)) + ")"},
		"abs :: num":        {"num(math.Abs(" + n(0) + "))"},
		"ceil :: num":       {"num(math.Ceil(" + n(0) + "))"},
		"floor :: num":      {"num(math.Floor(" + n(0) + "))"},
		"round :: num":      {"num(math.Round(" + n(0) + "))"},

		"len :: str":  {"num(conv:float64(unicode/utf8.RuneCountInString(" + s(0) + ")))"},
		"len :: list": {"num(conv:float64(builtin.len(a0:list.V)))"},
		"len :: map":  {"num(conv:float64(builtin.len(a0:map.V)))"},
	}
	return T
}

func ruleSpec1(c *Ctx) {
	c.R.Rule("SPEC-1", 30, "each operator / math / len built-in on primitive operands computes the Go operation the language definition assigns to its (name, parameter kinds): the result expression, translated to a term over the argument payloads (mirrored comparisons, negated complements and either order of commutative operands identified), is one of the terms of the denotation table; max/min over a list fold with math.Max / math.Min respectively; every (name, kinds) row of the table is implemented")
	dump := os.Getenv("YAE_DUMP") != ""
	tbl := specTable()
	seen := map[string]bool{}
	for _, b := range c.builtins("fun") {
		owner := "fun." + b.name + "$init"
		init := c.VarInit("fun", b.name)
		name, kinds, ok := c.sigKinds(b.sig, init)
		if !ok {
			continue
		}
		key := name + " :: " + strings.Join(kinds, " -> ")
		// fold clause for max/min over a list
		if (name == "max" || name == "min") && len(kinds) == 1 && kinds[0] == "list" {
			want := map[string]string{"max": "math.Max", "min": "math.Min"}[name]
			nMath, okAll := 0, true
			for _, call := range c.allCallsDeep(b.lit.Body) {
				nm := c.calleeName(call)
				if strings.HasPrefix(nm, "math.") {
					nMath++
					if nm != want {
						okAll = false
					}
				}
			}
			hasCmp := false
			ast.Inspect(b.lit.Body, func(x ast.Node) bool {
				if be, ok := x.(*ast.BinaryExpr); ok {
					switch be.Op {
					case token.LSS, token.GTR, token.LEQ, token.GEQ:
						if tv := c.typeOf(be.X); tv != nil && typeStr(tv) == "float64" {
							hasCmp = true
						}
					}
				}
				return true
			})
			seen[key] = true
			if hasCmp {
				c.R.Unk(owner, "SPEC-1 "+key+" folds with "+want, b.lit.Pos(), "the fold compares floats by hand; only a fold through %s is recognised", want)
			} else {
				c.R.Check(okAll && nMath >= 1, owner, "SPEC-1 "+key+" folds with "+want, b.lit.Pos(), "the accumulator is combined with "+want+" only", "a built-in named "+name+" must fold its list with "+want+" (found other math.* calls or none)")
			}
			continue
		}
		want, inTable := tbl[key]
		if !inTable {
			continue
		}
		seen[key] = true
		rets := returnsOf(b.lit.Body)
		if len(rets) != 1 || len(rets[0].Results) != 1 {
			c.R.Unk(owner, "SPEC-1 "+key, b.lit.Pos(), "built-in has %d return statements; the translator handles single-return bodies", len(rets))
			continue
		}
		t := &termCtx{c: c, defs: c.localDefs(b.lit.Body)}
		if len(b.lit.Type.Params.List) == 1 && len(b.lit.Type.Params.List[0].Names) == 1 {
			t.args = c.objOf(b.lit.Type.Params.List[0].Names[0])
		}
		got := t.tr(rets[0].Results[0])
		if dump {
			fmt.Fprintf(os.Stderr, "%-22s %-22s %s\n", b.name, key, got)
		}
		match := false
		for _, w := range want {
			if w == got {
				match = true
			}
		}
		if t.bad != "" {
			c.R.Unk(owner, "SPEC-1 "+key, b.lit.Pos(), "%s", t.bad)
		} else if match {
			c.R.OK(owner, "SPEC-1 "+key, b.lit.Pos(), "denotes %s", got)
		} else {
			c.R.Bad(owner, "SPEC-1 "+key, b.lit.Pos(), "the built-in registered as `%s` computes %s; the language defines it as %s", key, got, strings.Join(want, " or "))
		}
	}
	var missing []string
	for k := range tbl {
		if !seen[k] {
			missing = append(missing, k)
		}
	}
	sort.Strings(missing)
	for _, k := range missing {
		c.R.Bad("fun", "SPEC-1 row "+k+" implemented", token.NoPos, "no built-in is registered under `%s` with these parameter kinds (renamed operator constant or changed signature)", k)
	}
}

// ---------- SPEC-2: the tolerance helpers ----------

func ruleSpec2(c *Ctx) {
	c.R.Rule("SPEC-2", 6, "the six tolerance comparison helpers of val form one consistent family over a single positive tolerance: EQ = |x-y| < eps, NE = its complement, LT = x<y and NE, LE = x<=y or EQ, GT / GE their mirror images; 0 < eps <= 1e-6")
	eps := "?"
	if o, ok := c.Obj("val", "epsilon").(*types.Const); ok {
		eps = "const:" + o.Val().ExactString()
		f, _ := constant.Float64Val(o.Val())
		c.R.Check(f > 0 && f <= 1e-6, "val.epsilon", "SPEC-2 0 < eps <= 1e-6", o.Pos(), fmt.Sprintf("eps = %g", f), fmt.Sprintf("the comparison tolerance is %g; it must be positive (else == is never true) and small (else distinct numbers compare equal)", f))
	} else {
		c.R.Anchor("val.epsilon")
	}
	body := map[string]string{}
	helper := func(name string) string {
		fd := c.FuncDecl("val", name)
		if fd == nil || fd.Body == nil {
			c.R.Anchor("val." + name)
			return ""
		}
		rets := returnsOf(fd.Body)
		if len(rets) != 1 || len(rets[0].Results) != 1 || len(fd.Body.List) != 1 {
			c.R.Unk("val."+name, "SPEC-2 shape", fd.Pos(), "helper is not a single return expression")
			return ""
		}
		t := &termCtx{c: c, defs: map[types.Object]ast.Expr{}, names: map[types.Object]string{}}
		i := 0
		for _, f := range fd.Type.Params.List {
			for _, n := range f.Names {
				t.names[c.objOf(n)] = []string{"x", "y", "z"}[i%3]
				i++
			}
		}
		return t.tr(rets[0].Results[0])
	}
	for _, n := range []string{"NumEQ", "NumNE", "NumLT", "NumLE", "NumGT", "NumGE"} {
		body[n] = helper(n)
	}
	if os.Getenv("YAE_DUMP") != "" {
		for k, v := range body {
			fmt.Fprintf(os.Stderr, "%s = %s\n", k, v)
		}
	}
	eq := "lt(absdiff(x.V,y.V)," + eps + ")"
	ne := "le(" + eps + ",absdiff(x.V,y.V))"
	inl := func(s string) string { // inline EQ / NE calls on (x,y)
		s = strings.ReplaceAll(s, "not(val.NumEQ(x,y))", ne)
		s = strings.ReplaceAll(s, "val.NumEQ(x,y)", eq)
		s = strings.ReplaceAll(s, "not("+eq+")", ne)
		return s
	}
	want := map[string]string{
		"NumEQ": eq,
		"NumNE": ne,
		"NumLT": mk("and", "lt(x.V,y.V)", ne),
		"NumLE": mk("or", "le(x.V,y.V)", eq),
		"NumGT": mk("and", "lt(y.V,x.V)", ne),
		"NumGE": mk("or", "le(y.V,x.V)", eq),
	}
	for _, n := range []string{"NumEQ", "NumNE", "NumLT", "NumLE", "NumGT", "NumGE"} {
		if body[n] == "" {
			continue
		}
		got := inl(body[n])
		// and()/or() operands are sorted by mk at translation time, before inlining changed their text: re-sort
		got = resortTop(got)
		w := resortTop(want[n])
		fd := c.FuncDecl("val", n)
		c.R.Check(got == w, "val."+n, "SPEC-2 denotation", fd.Pos(), "= "+got, fmt.Sprintf("val.%s computes %s; the tolerance family requires %s", n, got, w))
	}
}

func resortTop(s string) string {
	for _, op := range []string{"and(", "or("} {
		if strings.HasPrefix(s, op) && strings.HasSuffix(s, ")") {
			return op + sortedArgs(s[len(op):len(s)-1]) + ")"
		}
	}
	return s
}

// fnTerms returns a term translator for a function declaration / literal: receiver "r", parameters "p0","p1",...,
// single-assignment locals inlined.
func (c *Ctx) fnTerms(fn ast.Node) *termCtx {
	t := &termCtx{c: c, defs: map[types.Object]ast.Expr{}, names: map[types.Object]string{}}
	for o, n := range c.alias {
		t.names[o] = n
	}
	var ft *ast.FuncType
	switch f := fn.(type) {
	case *ast.FuncDecl:
		ft = f.Type
		if f.Body != nil {
			t.defs = c.localDefs(f.Body)
		}
		if f.Recv != nil {
			for _, fl := range f.Recv.List {
				for _, n := range fl.Names {
					t.names[c.objOf(n)] = "r"
				}
			}
		}
	case *ast.FuncLit:
		ft = f.Type
		t.defs = c.localDefs(f.Body)
	}
	if ft != nil {
		k := 0
		for _, fl := range ft.Params.List {
			for _, n := range fl.Names {
				t.names[c.objOf(n)] = fmt.Sprintf("p%d", k)
				k++
			}
			if len(fl.Names) == 0 {
				k++
			}
		}
	}
	return t
}

// condTerm translates a path condition with its polarity.
func (t *termCtx) condTerm(pc pathCond) string {
	s := t.tr(pc.e)
	if pc.pos {
		return s
	}
	return negTerm(s)
}

// negTerm negates a term: double negation, exact complements of lt/le, De Morgan for and/or.
func negTerm(s string) string {
	op, as := splitTerm(s)
	switch {
	case op == "not" && len(as) == 1:
		return as[0]
	case op == "lt" && len(as) == 2:
		return "le(" + as[1] + "," + as[0] + ")"
	case op == "le" && len(as) == 2:
		return "lt(" + as[1] + "," + as[0] + ")"
	case (op == "and" || op == "or") && len(as) >= 2:
		var ns []string
		for _, a := range as {
			ns = append(ns, negTerm(a))
		}
		sort.Strings(ns)
		return map[string]string{"and": "or", "or": "and"}[op] + "(" + strings.Join(ns, ",") + ")"
	case s == "true":
		return "false"
	case s == "false":
		return "true"
	}
	return "not(" + s + ")"
}

// evalTerm evaluates a boolean term under a partial assignment of atoms: 1 true, 0 false, -1 unknown.
func evalTerm(s string, atoms map[string]bool) int {
	if v, ok := atoms[s]; ok {
		if v {
			return 1
		}
		return 0
	}
	op, as := splitTerm(s)
	switch op {
	case "not":
		if len(as) == 1 {
			switch evalTerm(as[0], atoms) {
			case 1:
				return 0
			case 0:
				return 1
			}
		}
	case "and":
		r := 1
		for _, a := range as {
			switch evalTerm(a, atoms) {
			case 0:
				return 0
			case -1:
				r = -1
			}
		}
		return r
	case "or":
		r := 0
		for _, a := range as {
			switch evalTerm(a, atoms) {
			case 1:
				return 1
			case -1:
				r = -1
			}
		}
		return r
	}
	return -1
}

// sortedArgsKeep splits "a,b" at the top-level comma without reordering.
func sortedArgsKeep(s string) [2]string {
	d := 0
	for i, r := range s {
		switch r {
		case '(':
			d++
		case ')':
			d--
		case ',':
			if d == 0 {
				return [2]string{s[:i], s[i+1:]}
			}
		}
	}
	return [2]string{s, ""}
}

// assertedTerms lists the assertions of a body (util.Assert after canonicalisation) as terms, in source order.
func (c *Ctx) assertedTerms(fn ast.Node, body ast.Node) (nodes []ast.Node, terms []string) {
	t := c.fnTerms(fn)
	for _, a := range c.asserted(body) {
		nodes = append(nodes, a.node)
		terms = append(terms, t.tr(a.cond))
	}
	return
}

// splitTerm parses the outermost operator and arguments of a term: "and(a,b(c))" -> "and", ["a","b(c)"].
func splitTerm(s string) (string, []string) {
	i := strings.IndexByte(s, '(')
	if i < 0 || !strings.HasSuffix(s, ")") {
		return s, nil
	}
	op, body := s[:i], s[i+1:len(s)-1]
	var args []string
	d, start := 0, 0
	for j, r := range body {
		switch r {
		case '(':
			d++
		case ')':
			d--
		case ',':
			if d == 0 {
				args = append(args, body[start:j])
				start = j + 1
			}
		}
	}
	args = append(args, body[start:])
	return op, args
}

// conjuncts flattens and(...) terms.
func conjuncts(s string) []string {
	op, as := splitTerm(s)
	if op != "and" {
		return []string{s}
	}
	var out []string
	for _, a := range as {
		out = append(out, conjuncts(a)...)
	}
	return out
}

// pathTerms gives the conjuncts assumed on a path (negated conditions by De Morgan only at the top level).
func (t *termCtx) pathTerms(p retPath) []string {
	var out []string
	for _, pc := range p.conds {
		ct := t.condTerm(pc)
		out = append(out, conjuncts(ct)...)
	}
	return out
}

// stmtTerm prints a straight-line statement as a term.
func (t *termCtx) stmtTerm(s ast.Stmt) string {
	switch x := s.(type) {
	case *ast.AssignStmt:
		var ls, rs []string
		for _, r := range x.Rhs {
			rs = append(rs, t.tr(r))
		}
		for _, l := range x.Lhs {
			ls = append(ls, t.tr(l))
		}
		op := "set"
		if x.Tok != token.ASSIGN && x.Tok != token.DEFINE {
			op = "set" + x.Tok.String()
		}
		return op + "([" + strings.Join(ls, ",") + "],[" + strings.Join(rs, ",") + "])"
	case *ast.ExprStmt:
		return t.tr(x.X)
	case *ast.IncDecStmt:
		return x.Tok.String() + "(" + t.tr(x.X) + ")"
	case *ast.DeclStmt:
		return "decl@" + t.c.pos(x.Pos())
	case *ast.RangeStmt, *ast.ForStmt:
		// a loop over the elements of one sequence prints the same whether it is a range or a counted loop
		if ls := t.c.absLoops(s, t.defs); len(ls) > 0 && ls[0].stmt == s {
			l := ls[0]
			start := "0"
			if l.start != nil {
				start = t.tr(l.start)
			}
			t.loops = append(t.loops, l)
			body := sxWith(l.body.List, func(n ast.Node) (string, bool) {
				if e, ok := n.(ast.Expr); ok {
					if l.isElem(t.c.Prog, e) {
						return "ELEM", true
					}
					if _, isIdent := e.(*ast.Ident); isIdent {
						return t.tr(e), true
					}
				}
				return "", false
			})
			t.loops = t.loops[:len(t.loops)-1]
			seq := ""
			if l.seq != nil {
				seq = t.tr(l.seq)
			} else {
				seq = "0.." + t.tr(l.bound)
			}
			return "foreach(" + seq + " from " + start + "){" + body + "}"
		}
		return "loop(" + sxWith(s, func(n ast.Node) (string, bool) {
			if e, ok := n.(ast.Expr); ok {
				if _, isIdent := e.(*ast.Ident); isIdent {
					return t.tr(e), true
				}
			}
			return "", false
		}) + ")"
	case *ast.DeferStmt:
		return "defer(" + t.tr(x.Call) + ")"
	}
	return fmt.Sprintf("stmt:%T", s)
}

// pathSigs summarises a loop-free function as the sorted list of its paths: branch conditions (sorted, assertions
// dropped), the straight-line statements executed (in order) and what is returned. Single-assignment locals are inlined,
// the others numbered by first appearance along the path, receiver "r", parameters "p0".. — so that two functions have
// the same summary iff they make the same decisions and perform the same effects, however if/else, early returns,
// temporaries and names are arranged. ok=false: loops with returns / too many paths.
func (c *Ctx) pathSigs(fn ast.Node, body *ast.BlockStmt, keepAsserts bool) ([]string, bool) {
	paths, ok := c.retPathsLoose(body.List)
	if !ok {
		return nil, false
	}
	var out []string
	for _, p := range paths {
		t := c.fnTerms(fn)
		t.locals = map[types.Object]string{}
		// execution order along a structured path = source order
		type item struct {
			pos  token.Pos
			cond *pathCond
			stmt ast.Stmt
		}
		var items []item
		for i := range p.conds {
			items = append(items, item{pos: p.conds[i].e.Pos(), cond: &p.conds[i]})
		}
		for _, s := range p.stmts {
			items = append(items, item{pos: s.Pos(), stmt: s})
		}
		sort.SliceStable(items, func(i, j int) bool { return items[i].pos < items[j].pos })
		var conds, stmts []string
		for _, it := range items {
			if it.cond != nil {
				if it.cond.fromAssert && !keepAsserts {
					continue
				}
				conds = append(conds, conjuncts(t.condTerm(*it.cond))...)
			} else {
				if as, ok := it.stmt.(*ast.AssignStmt); ok && len(as.Lhs) == len(as.Rhs) {
					// definitions of inlined single-assignment locals are not effects
					all := true
					for _, l := range as.Lhs {
						id, isID := l.(*ast.Ident)
						if !isID {
							all = false
							break
						}
						if _, inl := t.defs[c.objOf(id)]; !inl {
							all = false
						}
					}
					if all {
						continue
					}
				}
				stmts = append(stmts, t.stmtTerm(it.stmt))
			}
		}
		sort.Strings(conds)
		end := p.end
		ret := ""
		if p.ret != nil {
			var rs []string
			for _, r := range p.ret.Results {
				rs = append(rs, t.tr(r))
			}
			ret = strings.Join(rs, ",")
			if len(rs) == 0 {
				end = "fall"
			}
		}
		out = append(out, "if{"+strings.Join(conds, " & ")+"} do{"+strings.Join(stmts, "; ")+"} "+end+"{"+ret+"}")
	}
	sort.Strings(out)
	return out, true
}
