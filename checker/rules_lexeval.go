package main

import (
	"go/ast"
	"go/token"
	"go/types"
	"strings"
)

// Abstract evaluation of parser/lexer.newLexicon: the ordered list of rule registrations.
//
// The lexer tries its rules in registration order and the first match wins, so LEX-2/3/6/7 are statements about that
// order. Reading it off the statement sequence only works while every registration is spelled `l.addRule(ctor(const))`;
// a table-driven newLexicon (kinds in package-level slices, a helper that registers a slice through a constructor passed
// as a value, operator kinds projected out of the sorted list first) registers the same rules in the same order. This
// evaluator executes the body (after virtual inlining) over a small domain:
//
//	a range over a package-level composite literal of constants is unrolled, the loop variable bound to each element;
//	a range over anything else binds the loop variable to "an element of <sequence>", where the sequence is resolved
//	through single-assignment locals, oper.Sort(..) (marks it sorted) and element-wise copies
//	(`ks := make(.., len(s)); for i, e := range s { ks[i] = e.Kind }`, or the append form, or a function that is one);
//	l.addRule(c1, c2..) / l.rules = append(l.rules, c..) register the constructor calls str / keyword / primOper / regex,
//	or a call of a function that routes on oper.IsIdentOp between keyword and str (what lexicon.addOper does).
//
// Whatever it does not understand and that could register a rule is reported (clause LEX-0) instead of being skipped.

type lexSeq struct {
	src     ast.Expr // the underlying list (builtInOpers, the ops parameter, ..)
	sorted  bool     // passed through oper.Sort
	overOps bool     // a list of oper.Operator
	stmt    ast.Stmt // the loop that registers its elements
	unknown string   // non-empty: why the sequence could not be resolved
}

type lexVal struct {
	konst ast.Expr // an element of a constant table
	seq   *lexSeq  // an element of an abstract sequence
	index bool     // bound to a counted loop's index: `X[i]` denotes the element
}

type lexEv struct {
	c       *Ctx
	nl      *ast.FuncDecl
	defs    map[types.Object]ast.Expr
	regs    []lexReg
	bad     []string
	routers map[*ast.FuncDecl]bool
}

var lexCtorNames = map[string]string{
	"parser/lexer.str": "str", "parser/lexer.keyword": "keyword", "parser/lexer.primOper": "primOper", "parser/lexer.regex": "regex",
}

func (c *Ctx) lexRegistrations(nl *ast.FuncDecl) *lexEv {
	ev := &lexEv{c: c, nl: nl, defs: c.localDefs(nl.Body), routers: map[*ast.FuncDecl]bool{}}
	ev.stmts(nl.Body.List, map[types.Object]lexVal{})
	return ev
}

func (ev *lexEv) badf(at ast.Node, what string) {
	ev.bad = append(ev.bad, ev.c.pos(at.Pos())+": "+what)
}

// mayRegister: n contains something that could add a rule.
func (ev *lexEv) mayRegister(n ast.Node) bool {
	found := false
	ast.Inspect(n, func(x ast.Node) bool {
		switch s := x.(type) {
		case *ast.CallExpr:
			nm := ev.c.calleeName(s)
			if _, ok := lexCtorNames[nm]; ok || nm == "parser/lexer.lexicon.addRule" || nm == "parser/lexer.lexicon.addOper" {
				found = true
			}
			if t := ev.c.typeOf(s); t != nil && strings.HasSuffix(typeStr(t), "lexer.rule") {
				found = true
			}
		case *ast.SelectorExpr:
			if s.Sel.Name == "rules" {
				if t := ev.c.typeOf(s.X); t != nil && strings.Contains(typeStr(t), "lexer.lexicon") {
					found = true
				}
			}
		}
		return !found
	})
	return found
}

func (ev *lexEv) stmts(list []ast.Stmt, env map[types.Object]lexVal) {
	for _, s := range list {
		ev.stmt(s, env)
	}
}

func (ev *lexEv) stmt(s ast.Stmt, env map[types.Object]lexVal) {
	c := ev.c
	switch x := s.(type) {
	case *ast.ExprStmt:
		if call, ok := unparen(x.X).(*ast.CallExpr); ok {
			ev.call(call, env)
		}
	case *ast.BlockStmt:
		ev.stmts(x.List, env)
	case *ast.RangeStmt:
		if !ev.mayRegister(x.Body) {
			return
		}
		var vObj types.Object
		if x.Value != nil {
			vObj = c.objOf(x.Value)
		}
		if vObj == nil {
			ev.badf(x, "a loop that registers rules does not bind the element")
			return
		}
		elems, seq := ev.seqOf(x.X, env, 0)
		if elems != nil {
			for _, el := range elems {
				e2 := copyEnv(env)
				e2[vObj] = lexVal{konst: el}
				ev.stmts(x.Body.List, e2)
			}
			return
		}
		seq.stmt = x
		e2 := copyEnv(env)
		e2[vObj] = lexVal{seq: seq}
		ev.stmts(x.Body.List, e2)
	case *ast.IfStmt:
		if !ev.mayRegister(x) {
			return
		}
		// the routing of lexicon.addOper written in place
		if r, ok := ev.routeIf(x, env); ok {
			ev.regs = append(ev.regs, r)
			return
		}
		ev.badf(x, "a rule is registered under a condition")
	case *ast.AssignStmt:
		if !ev.mayRegister(x) {
			return
		}
		// l.rules = append(l.rules, ctor..)
		if len(x.Lhs) == 1 && len(x.Rhs) == 1 {
			if call, ok := unparen(x.Rhs[0]).(*ast.CallExpr); ok {
				if id, ok := call.Fun.(*ast.Ident); ok && id.Name == "append" && len(call.Args) >= 1 && call.Ellipsis == token.NoPos && c.sameExpr(x.Lhs[0], call.Args[0]) {
					for _, a := range call.Args[1:] {
						ev.ctor(a, env)
					}
					return
				}
			}
		}
		// plain definitions of locals (`ks := kindsOf(..)`, `l := lexicon{}`) register nothing by themselves
		pure := true
		for _, r := range x.Rhs {
			ast.Inspect(r, func(n ast.Node) bool {
				if ce, ok := n.(*ast.CallExpr); ok {
					nm := c.calleeName(ce)
					if _, isCtor := lexCtorNames[nm]; isCtor || strings.HasPrefix(nm, "parser/lexer.lexicon.") {
						pure = false
					}
				}
				return true
			})
		}
		for _, l := range x.Lhs {
			if se, ok := unparen(l).(*ast.SelectorExpr); ok && se.Sel.Name == "rules" {
				pure = false
			}
		}
		if !pure {
			ev.badf(x, "the rule list is written in a form the evaluator does not know")
		}
	case *ast.ForStmt:
		if !ev.mayRegister(x.Body) {
			return
		}
		// `for i := 0; i < len(X); i++ { .. X[i] .. }` (or with n := len(X)) is the range loop over X
		ls := c.absLoops(x, ev.defs)
		if len(ls) == 0 || ls[0].stmt != ast.Stmt(x) || ls[0].seq == nil || ls[0].idx == nil || ls[0].start != nil {
			ev.badf(x, "rules are registered inside a loop that is not a plain walk over one sequence")
			return
		}
		elems, seq := ev.seqOf(ls[0].seq, env, 0)
		if elems != nil {
			for _, el := range elems {
				e2 := copyEnv(env)
				e2[ls[0].idx] = lexVal{konst: el, index: true}
				ev.stmts(x.Body.List, e2)
			}
			return
		}
		seq.stmt = x
		e2 := copyEnv(env)
		e2[ls[0].idx] = lexVal{seq: seq, index: true}
		ev.stmts(x.Body.List, e2)
	case *ast.SwitchStmt, *ast.TypeSwitchStmt, *ast.SelectStmt, *ast.GoStmt, *ast.DeferStmt, *ast.LabeledStmt:
		if ev.mayRegister(x) {
			ev.badf(x, "rules are registered inside a statement form the evaluator does not execute")
		}
	}
}

func copyEnv(env map[types.Object]lexVal) map[types.Object]lexVal {
	out := make(map[types.Object]lexVal, len(env)+1)
	for k, v := range env {
		out[k] = v
	}
	return out
}

func (c *Ctx) sameExpr(a, b ast.Expr) bool { return sx(a) == sx(b) }

func (ev *lexEv) call(call *ast.CallExpr, env map[types.Object]lexVal) {
	c := ev.c
	switch nm := c.calleeName(call); nm {
	case "parser/lexer.lexicon.addRule":
		if call.Ellipsis != token.NoPos {
			ev.badf(call, "addRule(xs...) with a computed slice")
			return
		}
		for _, a := range call.Args {
			ev.ctor(a, env)
		}
	case "parser/lexer.lexicon.addOper":
		r := lexReg{call: call, ctor: "addOper"}
		if len(call.Args) == 1 {
			r.kind, r.seq = ev.kindOf(call.Args[0], env)
		}
		ev.regs = append(ev.regs, r)
	default:
		// a helper that was not inlined
		if fn, ok := staticCallee(c.infoAt(call), call).(*types.Func); ok && fn != nil {
			if fd := c.declOf(fn); fd != nil && fd.Body != nil && ev.mayRegister(fd.Body) {
				ev.badf(call, "rules are registered inside "+qual(fn)+", which the evaluator does not enter")
			}
		}
	}
}

// ctor classifies one rule-valued expression.
func (ev *lexEv) ctor(e ast.Expr, env map[types.Object]lexVal) {
	c := ev.c
	if id, isID := unparen(e).(*ast.Ident); isID {
		// a rule held in a variable: its one definition, or the two definitions of the routing written out
		// (`if oper.IsIdentOp(..) { r = keyword(k) } else { r = str(k) }`, e.g. a routing helper after inlining)
		o := c.objOf(id)
		var defs []*ast.AssignStmt
		var rhs []ast.Expr
		ast.Inspect(ev.nl.Body, func(x ast.Node) bool {
			if as, ok := x.(*ast.AssignStmt); ok && len(as.Lhs) == len(as.Rhs) {
				for i, l := range as.Lhs {
					if c.objOf(l) == o && o != nil {
						defs = append(defs, as)
						rhs = append(rhs, as.Rhs[i])
					}
				}
			}
			return true
		})
		switch len(defs) {
		case 1:
			ev.ctor(rhs[0], env)
			return
		case 2:
			g := c.buildCFG(ev.nl.Body)
			var kw *ast.CallExpr
			okRoute := true
			for i, as := range defs {
				ce, isCall := unparen(rhs[i]).(*ast.CallExpr)
				if !isCall {
					okRoute = false
					break
				}
				pol, found := ev.identOpPolarity(g, as)
				switch c.calleeName(ce) {
				case "parser/lexer.keyword":
					kw = ce
					okRoute = okRoute && found && pol
				case "parser/lexer.str":
					okRoute = okRoute && found && !pol
				default:
					okRoute = false
				}
			}
			if okRoute && kw != nil && len(kw.Args) == 1 {
				r := lexReg{call: kw, ctor: "addOper"}
				r.kind, r.seq = ev.kindOf(kw.Args[0], env)
				ev.regs = append(ev.regs, r)
				return
			}
		}
		ev.badf(e, "a rule held in a variable whose definitions the evaluator cannot read")
		return
	}
	ce, ok := unparen(e).(*ast.CallExpr)
	if !ok {
		ev.badf(e, "a rule that is not a constructor call")
		return
	}
	nm := c.calleeName(ce)
	if ctor, ok := lexCtorNames[nm]; ok {
		r := lexReg{call: ce, ctor: ctor}
		if len(ce.Args) > 0 {
			r.kind, r.seq = ev.kindOf(ce.Args[0], env)
		}
		if ctor == "regex" && len(ce.Args) == 2 {
			r.pat, _ = ev.kindOf(ce.Args[1], env)
		}
		ev.regs = append(ev.regs, r)
		return
	}
	if fn, ok := staticCallee(c.infoAt(ce), ce).(*types.Func); ok && fn != nil {
		if fd := c.declOf(fn); fd != nil && fd.Body != nil && len(ce.Args) == 1 && ev.isRouter(fd) {
			ev.routers[fd] = true
			r := lexReg{call: ce, ctor: "addOper"}
			r.kind, r.seq = ev.kindOf(ce.Args[0], env)
			ev.regs = append(ev.regs, r)
			return
		}
	}
	ev.badf(e, "rule built by "+nm+", which is neither a rule constructor nor a router on oper.IsIdentOp")
}

// isRouter: every return of fd is keyword(p) under IsIdentOp(..) and str(p) under its negation.
func (ev *lexEv) isRouter(fd *ast.FuncDecl) bool {
	c := ev.c
	g := c.buildCFG(fd.Body)
	nKw, nStr := 0, 0
	ok := true
	for _, r := range returnsIn(fd.Body) {
		if len(r.Results) != 1 {
			return false
		}
		ce, isCall := unparen(r.Results[0]).(*ast.CallExpr)
		if !isCall {
			return false
		}
		pol, found := ev.identOpPolarity(g, r)
		switch c.calleeName(ce) {
		case "parser/lexer.keyword":
			nKw++
			ok = ok && found && pol
		case "parser/lexer.str":
			nStr++
			ok = ok && found && !pol
		default:
			return false
		}
	}
	return ok && nKw > 0 && nStr > 0
}

func (ev *lexEv) identOpPolarity(g *FnCFG, at ast.Node) (pol, found bool) {
	for _, pc := range g.condsAt(at) {
		e := unparen(pc.e)
		neg := false
		for {
			if u, ok := e.(*ast.UnaryExpr); ok && u.Op == token.NOT {
				neg = !neg
				e = unparen(u.X)
				continue
			}
			break
		}
		if ce, ok := e.(*ast.CallExpr); ok && ev.c.calleeName(ce) == "parser/oper.IsIdentOp" {
			return pc.pos != neg, true
		}
	}
	return false, false
}

// routeIf recognises `if oper.IsIdentOp(k) { l.addRule(keyword(k)) } else { l.addRule(str(k)) }` written in place.
func (ev *lexEv) routeIf(is *ast.IfStmt, env map[types.Object]lexVal) (lexReg, bool) {
	c := ev.c
	if is.Init != nil || is.Else == nil {
		return lexReg{}, false
	}
	ce, ok := unparen(is.Cond).(*ast.CallExpr)
	if !ok || c.calleeName(ce) != "parser/oper.IsIdentOp" {
		return lexReg{}, false
	}
	thenKw := len(c.callsTo(is.Body, "parser/lexer.keyword")) == 1 && len(c.callsTo(is.Body, "parser/lexer.str", "parser/lexer.primOper", "parser/lexer.regex")) == 0
	elseStr := len(c.callsTo(is.Else, "parser/lexer.str")) == 1 && len(c.callsTo(is.Else, "parser/lexer.keyword", "parser/lexer.primOper", "parser/lexer.regex")) == 0
	if !thenKw || !elseStr {
		return lexReg{}, false
	}
	kw := c.callsTo(is.Body, "parser/lexer.keyword")[0]
	r := lexReg{call: kw, ctor: "addOper"}
	r.kind, r.seq = ev.kindOf(kw.Args[0], env)
	return r, true
}

// kindOf evaluates a constructor argument: a constant string, or "an element of <sequence>".
func (ev *lexEv) kindOf(e ast.Expr, env map[types.Object]lexVal) (string, *lexSeq) {
	c := ev.c
	if s, ok := c.constStr(e); ok {
		return s, nil
	}
	e = unparen(e)
	// X[i] with i a counted loop's index stands for the element
	elemOf := func(x ast.Expr) (lexVal, bool) {
		switch y := unparen(x).(type) {
		case *ast.Ident:
			v, ok := env[c.objOf(y)]
			return v, ok && !v.index
		case *ast.IndexExpr:
			if id, ok := unparen(y.Index).(*ast.Ident); ok {
				v, ok := env[c.objOf(id)]
				return v, ok && v.index
			}
		}
		return lexVal{}, false
	}
	if ie, ok := e.(*ast.IndexExpr); ok {
		if v, ok := elemOf(ie); ok {
			if v.konst != nil {
				if s, ok := c.constStr(v.konst); ok {
					return s, nil
				}
				return "", nil
			}
			return "", v.seq
		}
	}
	if se, ok := e.(*ast.SelectorExpr); ok {
		if _, isIdx := unparen(se.X).(*ast.IndexExpr); isIdx {
			if v, ok := elemOf(se.X); ok {
				if v.konst != nil {
					if f := c.fieldOfLit(v.konst, se); f != nil {
						if s, ok := c.constStr(f); ok {
							return s, nil
						}
					}
					return "", nil
				}
				return "", v.seq
			}
		}
	}
	switch x := e.(type) {
	case *ast.Ident:
		if v, ok := env[c.objOf(x)]; ok {
			if v.konst != nil {
				if s, ok := c.constStr(v.konst); ok {
					return s, nil
				}
				return "", nil
			}
			return "", v.seq
		}
		if d, ok := ev.defs[c.objOf(x)]; ok {
			return ev.kindOf(d, env)
		}
	case *ast.SelectorExpr:
		if id, ok := unparen(x.X).(*ast.Ident); ok {
			if v, ok := env[c.objOf(id)]; ok {
				if v.konst != nil {
					if f := c.fieldOfLit(v.konst, x); f != nil {
						if s, ok := c.constStr(f); ok {
							return s, nil
						}
					}
					return "", nil
				}
				return "", v.seq
			}
		}
	case *ast.CallExpr:
		// conversions string(k), token.Kind(s)
		if len(x.Args) == 1 {
			if tv, ok := c.infoAt(x).Types[x.Fun]; ok && tv.IsType() {
				return ev.kindOf(x.Args[0], env)
			}
		}
	}
	return "", nil
}

// fieldOfLit: the expression a composite-literal element gives to the field selected by se.
func (c *Ctx) fieldOfLit(el ast.Expr, se *ast.SelectorExpr) ast.Expr {
	lit, ok := unparen(el).(*ast.CompositeLit)
	if !ok {
		return nil
	}
	sel := c.infoAt(se).Selections[se]
	if sel == nil || sel.Kind() != types.FieldVal || len(sel.Index()) != 1 {
		return nil
	}
	idx := sel.Index()[0]
	name := sel.Obj().Name()
	for i, e := range lit.Elts {
		if kv, ok := e.(*ast.KeyValueExpr); ok {
			if k, ok := kv.Key.(*ast.Ident); ok && k.Name == name {
				return kv.Value
			}
			continue
		}
		if i == idx {
			return e
		}
	}
	return nil
}

// seqOf resolves the operand of a range statement.
func (ev *lexEv) seqOf(x ast.Expr, env map[types.Object]lexVal, depth int) ([]ast.Expr, *lexSeq) {
	c := ev.c
	x = unparen(x)
	overOps := false
	if t := c.typeOf(x); t != nil && strings.Contains(typeStr(t), "oper.Operator") {
		overOps = true
	}
	if depth > 6 {
		return nil, &lexSeq{src: x, overOps: overOps, unknown: "definition chain too long"}
	}
	switch e := x.(type) {
	case *ast.Ident:
		o := c.objOf(e)
		if o == nil {
			break
		}
		if d, ok := ev.defs[o]; ok {
			if ce, isCall := unparen(d).(*ast.CallExpr); isCall {
				if id, ok := ce.Fun.(*ast.Ident); ok && id.Name == "make" {
					if src := ev.fillSource(o); src != nil {
						return ev.seqOf(src, env, depth+1)
					}
					return nil, &lexSeq{src: x, overOps: overOps, unknown: "a slice built by something other than an element-wise copy"}
				}
			}
			return ev.seqOf(d, env, depth+1)
		}
		if v, ok := o.(*types.Var); ok && v.Pkg() != nil && v.Parent() == v.Pkg().Scope() {
			if overOps {
				return nil, &lexSeq{src: x, overOps: true}
			}
			if lit, ok := unparen(c.VarInit(short(v.Pkg().Path()), v.Name())).(*ast.CompositeLit); ok {
				if len(lit.Elts) == 0 {
					return []ast.Expr{}, nil
				}
				return lit.Elts, nil
			}
			return nil, &lexSeq{src: x, unknown: "package-level list without a literal initialiser"}
		}
		// `var ks []T` filled by append
		if src := ev.fillSource(o); src != nil {
			return ev.seqOf(src, env, depth+1)
		}
		return nil, &lexSeq{src: x, overOps: overOps}
	case *ast.CallExpr:
		nm := c.calleeName(e)
		if nm == "parser/oper.Sort" && len(e.Args) == 1 {
			_, s := ev.seqOf(e.Args[0], env, depth+1)
			if s == nil {
				s = &lexSeq{src: e.Args[0]}
			}
			out := *s
			out.sorted = true
			out.overOps = true
			return nil, &out
		}
		if fn, ok := staticCallee(c.infoAt(e), e).(*types.Func); ok && fn != nil && len(e.Args) == 1 {
			if fd := c.declOf(fn); fd != nil && ev.isElementwise(fd) {
				return ev.seqOf(e.Args[0], env, depth+1)
			}
		}
		return nil, &lexSeq{src: x, overOps: overOps, unknown: "result of " + nm}
	}
	return nil, &lexSeq{src: x, overOps: overOps}
}

// fillSource: o is written only by `o[i] = f(e)` / `o = append(o, f(e))` inside one `for i, e := range S`; returns S.
func (ev *lexEv) fillSource(o types.Object) ast.Expr {
	return ev.c.fillSourceIn(ev.nl.Body, o)
}

func (c *Ctx) fillSourceIn(body *ast.BlockStmt, o types.Object) ast.Expr {
	var src ast.Expr
	n, other := 0, 0
	ast.Inspect(body, func(x ast.Node) bool {
		rs, ok := x.(*ast.RangeStmt)
		if !ok {
			return true
		}
		for _, s := range rs.Body.List {
			as, ok := s.(*ast.AssignStmt)
			if !ok || len(as.Lhs) != 1 || len(as.Rhs) != 1 {
				continue
			}
			if ie, ok := unparen(as.Lhs[0]).(*ast.IndexExpr); ok && c.objOf(ie.X) == o && rs.Key != nil && c.objOf(ie.Index) == c.objOf(rs.Key) && c.objOf(ie.Index) != nil {
				n++
				src = rs.X
			}
			if c.objOf(as.Lhs[0]) == o {
				if ce, ok := unparen(as.Rhs[0]).(*ast.CallExpr); ok {
					if id, ok := ce.Fun.(*ast.Ident); ok && id.Name == "append" && len(ce.Args) == 2 && c.objOf(ce.Args[0]) == o {
						n++
						src = rs.X
					}
				}
			}
		}
		return true
	})
	// any other write of o or of its elements disqualifies
	ast.Inspect(body, func(x ast.Node) bool {
		if as, ok := x.(*ast.AssignStmt); ok {
			for _, l := range as.Lhs {
				if ie, ok := unparen(l).(*ast.IndexExpr); ok && c.objOf(ie.X) == o {
					other++
				} else if c.objOf(l) == o {
					other++
				}
			}
		}
		return true
	})
	// the definition itself counts once when it is an assignment
	if n != 1 || other > 2 {
		return nil
	}
	return src
}

// isElementwise: `func f(s []A) []B { out := make([]B, len(s)); for i, e := range s { out[i] = g(e) }; return out }` (or append form).
func (ev *lexEv) isElementwise(fd *ast.FuncDecl) bool {
	c := ev.c
	if fd.Body == nil || fd.Type.Params == nil || len(fd.Type.Params.List) != 1 || len(fd.Type.Params.List[0].Names) != 1 {
		return false
	}
	param := c.objOf(fd.Type.Params.List[0].Names[0])
	rets := returnsIn(fd.Body)
	if len(rets) != 1 || len(rets[0].Results) != 1 {
		return false
	}
	out := c.objOf(rets[0].Results[0])
	if out == nil || param == nil {
		return false
	}
	src := c.fillSourceIn(fd.Body, out)
	return src != nil && c.objOf(src) == param
}
