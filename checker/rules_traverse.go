package main

import (
	"fmt"
	"go/ast"
	"go/constant"
	"go/token"
	"go/types"
	"strings"
)

// TRAVERSE-1: every pass over the syntax tree is ONE traversal.
//
// Each of the tree passes (desugarer, type checker, the three back ends' compilers / the interpreter, the SQL emitter) is a
// structural recursion: a function V with a type switch over the node kinds that calls itself on children, possibly through
// helpers of the same package that receive the node (or a slice of nodes). On every path through every function of such a
// pass — loop bodies taken per iteration, function literals analysed as functions of their own — the sub-trees handed to V
// (directly, or through a helper's summary, or to a function value) must be pairwise disjoint: no sub-tree path twice and
// never a path together with one of its extensions (V(e.Callee) and V(e.Callee.Obj)).
//
// Why it is a necessary condition: visiting a child twice doubles the work at every nesting level, so the pass is
// exponential in the depth of a chain of such nodes (C12: compile time polynomial in the source length); in the interpreter
// and in the code the compilers emit a second visit is a second evaluation (C06: strict operands are evaluated exactly once).
//
// DS-7 is the instance for trans.Desugar under its own rule id.

type travPass struct {
	id       string   // instance label
	sp       string   // package (short path)
	visitors []string // whole-subtree visitors: "Func" or "Recv.Method"
}

var travPasses = []travPass{
	{"desugar", "trans", []string{"Desugar"}},
	{"check", "types", []string{"Check"}},
	{"closure", "closure", []string{"compile", "compile0"}},
	{"interp", "interp", []string{"interp"}},
	{"vm", "vm", []string{"bytecode.compile", "Compiler.Compile"}},
	{"sql", "ext/sql", []string{"compile"}},
}

func init() {
	reg("TRAVERSE-1", func(c *Ctx) { ruleTraverse(c, "TRAVERSE-1", travPasses[1:]) })
	reg("DS-7", func(c *Ctx) { ruleTraverse(c, "DS-7", travPasses[:1]) })
}

func isNodeType(t types.Type) bool {
	if t == nil {
		return false
	}
	s := typeStr(t)
	if s == "parser/ast.Expr" {
		return true
	}
	if strings.HasPrefix(s, "[]") {
		s = s[2:]
		return s == "parser/ast.Expr" || s == "parser/ast.Pair" || s == "parser/ast.Field" || strings.HasPrefix(s, "*parser/ast.")
	}
	if strings.HasPrefix(s, "*parser/ast.") && strings.HasSuffix(s, "Expr") {
		return true
	}
	return false
}

type relVisit struct {
	param int
	suf   string
}

type tst struct {
	v    []string
	done bool
	as   map[types.Object]bool // assumed truth values of single-assignment bool variables (correlated conditions)
}

type travFn struct {
	name   string
	node   ast.Node // FuncDecl or FuncLit
	ft     *ast.FuncType
	body   *ast.BlockStmt
	obj    types.Object   // nil for literals
	params []types.Object // in order (receiver excluded)
}

type travCtx struct {
	c        *Ctx
	pass     travPass
	fns      []*travFn
	byObj    map[types.Object]*travFn
	visitor  map[types.Object]bool
	summary  map[*travFn][][]relVisit // one list per path of the helper: (param index, relative suffix) of the whole sub-trees visited
	inFlight map[*travFn]bool
	undecid  map[*travFn]string
	overflow bool
}

// local resolution environment of one function
type travEnv struct {
	root map[types.Object]string // node-typed params and type-switch variables -> path
	one  map[types.Object]ast.Expr
	cnt  map[types.Object]int
	rng  map[types.Object]ast.Expr
	rngK map[types.Object]ast.Expr
	// counted loops `for i := s; ..; i++` with a constant start
	loopStart map[types.Object]int64
}

func (t *travCtx) envOf(f *travFn) *travEnv {
	c := t.c
	e := &travEnv{root: map[types.Object]string{}, one: map[types.Object]ast.Expr{}, cnt: map[types.Object]int{}, rng: map[types.Object]ast.Expr{}, rngK: map[types.Object]ast.Expr{}, loopStart: map[types.Object]int64{}}
	for i, p := range f.params {
		if p != nil && isNodeType(p.Type()) {
			e.root[p] = fmt.Sprintf("p%d", i)
		}
	}
	inspectNoLit(f.body, func(x ast.Node) bool {
		switch st := x.(type) {
		case *ast.AssignStmt:
			if len(st.Rhs) == 1 && (len(st.Lhs) == 1 || len(st.Lhs) == 2) {
				if id, ok := st.Lhs[0].(*ast.Ident); ok {
					if o := c.objOf(id); o != nil {
						e.cnt[o]++
						e.one[o] = st.Rhs[0]
					}
				}
				if len(st.Lhs) == 2 {
					if id, ok := st.Lhs[1].(*ast.Ident); ok {
						if o := c.objOf(id); o != nil {
							e.cnt[o]++ // the ok / found flag of a comma-ok form
						}
					}
				}
			} else {
				for _, l := range st.Lhs {
					if id, ok := l.(*ast.Ident); ok {
						if o := c.objOf(id); o != nil {
							e.cnt[o] += 2
						}
					}
				}
			}
		case *ast.ForStmt:
			if as, ok := st.Init.(*ast.AssignStmt); ok && len(as.Lhs) == 1 && len(as.Rhs) == 1 {
				if _, isInc := st.Post.(*ast.IncDecStmt); isInc {
					if k := c.constOf(as.Rhs[0]); k != nil {
						if n, ok := constant.Int64Val(constant.ToInt(k)); ok {
							if o := c.objOf(as.Lhs[0]); o != nil {
								e.loopStart[o] = n
							}
						}
					}
				}
			}
		case *ast.RangeStmt:
			if st.Key != nil {
				if o := c.objOf(st.Key); o != nil {
					e.loopStart[o] = 0
				}
			}
			if st.Value != nil {
				if o := c.objOf(st.Value); o != nil {
					e.rng[o] = st.X
				}
			}
			if st.Key != nil {
				if o := c.objOf(st.Key); o != nil {
					e.rngK[o] = st.X
				}
			}
		case *ast.TypeSwitchStmt:
			scr := tsScrutinee(st)
			if scr == nil {
				return true
			}
			for _, s := range st.Body.List {
				cc := s.(*ast.CaseClause)
				if o := c.tsVar(st, cc); o != nil {
					// resolved lazily through one[]: record as alias of the scrutinee
					e.one[o] = scr
					e.cnt[o] = 1
				}
			}
		}
		return true
	})
	return e
}

func (t *travCtx) pathOf(env *travEnv, x ast.Expr, d int) string {
	c := t.c
	if d > 12 {
		return "?"
	}
	switch v := unparen(x).(type) {
	case *ast.Ident:
		o := c.objOf(v)
		if r, ok := env.root[o]; ok {
			return r
		}
		if r, ok := env.rng[o]; ok {
			lo := int64(0)
			if sl, ok := unparen(r).(*ast.SliceExpr); ok && sl.Low != nil {
				if k := c.constOf(sl.Low); k != nil {
					if n, ok := constant.Int64Val(constant.ToInt(k)); ok {
						lo = n
					}
				}
			}
			b := t.pathOf(env, r, d+1)
			if strings.HasPrefix(b, "?") {
				return "?"
			}
			return b + fmt.Sprintf("[%d..]", lo)
		}
		if def, ok := env.one[o]; ok && env.cnt[o] == 1 {
			return t.pathOf(env, def, d+1)
		}
		return "?"
	case *ast.SelectorExpr:
		b := t.pathOf(env, v.X, d+1)
		if strings.HasPrefix(b, "?") {
			return "?"
		}
		return b + "." + v.Sel.Name
	case *ast.TypeAssertExpr:
		return t.pathOf(env, v.X, d+1)
	case *ast.IndexExpr:
		b := t.pathOf(env, v.X, d+1)
		if strings.HasPrefix(b, "?") {
			return "?"
		}
		if k := c.constOf(v.Index); k != nil {
			return b + "[" + k.String() + "]"
		}
		// a counted loop variable with a constant start s stands for the elements s, s+1, ..
		if id, ok := unparen(v.Index).(*ast.Ident); ok {
			if s, ok := env.loopStart[c.objOf(id)]; ok {
				return b + fmt.Sprintf("[%d..]", s)
			}
		}
		return b + "[0..]"
	case *ast.SliceExpr:
		return t.pathOf(env, v.X, d+1)
	case *ast.StarExpr:
		return t.pathOf(env, v.X, d+1)
	case *ast.UnaryExpr:
		if v.Op == token.AND {
			return t.pathOf(env, v.X, d+1)
		}
	}
	return "?"
}

func pathsConflict(a, b string) bool {
	// split into segments: ".Name" and "[..]"
	seg := func(p string) []string {
		var out []string
		cur := ""
		for i := 0; i < len(p); i++ {
			switch p[i] {
			case '.':
				if cur != "" {
					out = append(out, cur)
				}
				cur = "."
			case '[':
				if cur != "" {
					out = append(out, cur)
				}
				j := strings.IndexByte(p[i:], ']')
				if j < 0 {
					j = len(p) - i - 1
				}
				out = append(out, p[i:i+j+1])
				cur = ""
				i += j
			default:
				cur += string(p[i])
			}
		}
		if cur != "" {
			out = append(out, cur)
		}
		return out
	}
	// index segments overlap?  "[k]" one element, "[s..]" elements from s on
	overlap := func(x, y string) bool {
		parse := func(z string) (lo int64, open bool, ok bool) {
			z = strings.TrimSuffix(strings.TrimPrefix(z, "["), "]")
			if strings.HasSuffix(z, "..") {
				_, err := fmt.Sscanf(strings.TrimSuffix(z, ".."), "%d", &lo)
				return lo, true, err == nil
			}
			_, err := fmt.Sscanf(z, "%d", &lo)
			return lo, false, err == nil
		}
		xl, xo, ok1 := parse(x)
		yl, yo, ok2 := parse(y)
		if !ok1 || !ok2 {
			return true
		}
		switch {
		case xo && yo:
			return true
		case xo:
			return yl >= xl
		case yo:
			return xl >= yl
		default:
			return xl == yl
		}
	}
	sa, sb := seg(a), seg(b)
	n := len(sa)
	if len(sb) < n {
		n = len(sb)
	}
	for i := 0; i < n; i++ {
		x, y := sa[i], sb[i]
		if strings.HasPrefix(x, "[") && strings.HasPrefix(y, "[") {
			if !overlap(x, y) {
				return false
			}
			continue
		}
		if x != y {
			return false
		}
	}
	return true // equal, or one is a prefix (an enclosing sub-tree) of the other
}

// visitsInExpr lists the sub-tree visits made by evaluating node (function literals excluded), in source order, as a set of
// alternatives: a helper contributes one alternative per path of its own body.
func (t *travCtx) visitsInExpr(f *travFn, env *travEnv, n ast.Node) [][]string {
	c := t.c
	alts := [][]string{{}}
	add := func(p string) {
		for i := range alts {
			alts[i] = append(alts[i], p)
		}
	}
	inspectNoLit(n, func(x ast.Node) bool {
		ce, ok := x.(*ast.CallExpr)
		if !ok {
			return true
		}
		if tv, ok := c.infoAt(ce).Types[ce.Fun]; ok && tv.IsType() {
			return true
		}
		callee := c.calleeObj(ce)
		if callee != nil {
			if _, isBuiltin := callee.(*types.Builtin); isBuiltin {
				return true
			}
			if callee.Pkg() == nil || short(callee.Pkg().Path()) != t.pass.sp {
				return true // another package: factories, accessors
			}
			if t.visitor[callee] {
				for _, a := range ce.Args {
					if isNodeType(c.typeOf(a)) {
						add(t.pathOf(env, a, 0))
					}
				}
				return true
			}
			if h := t.byObj[callee]; h != nil {
				sum := t.summarise(h)
				base := map[int]string{}
				for i, a := range ce.Args {
					if isNodeType(c.typeOf(a)) {
						base[i] = t.pathOf(env, a, 0)
					}
				}
				// distinct non-empty alternatives of the helper
				seen := map[string]bool{}
				var hs [][]string
				for _, hp := range sum {
					var vs []string
					for _, rv := range hp {
						b, ok := base[rv.param]
						if !ok {
							continue
						}
						if strings.HasPrefix(b, "?") {
							vs = append(vs, "?")
						} else {
							vs = append(vs, b+rv.suf)
						}
					}
					k := strings.Join(vs, "|")
					if !seen[k] {
						seen[k] = true
						hs = append(hs, vs)
					}
				}
				if len(hs) == 0 {
					return true
				}
				var next [][]string
				for _, a := range alts {
					for _, h := range hs {
						next = append(next, append(append([]string{}, a...), h...))
					}
				}
				if len(next) > 256 {
					t.overflow = true
					next = next[:256]
				}
				alts = next
			}
			return true
		}
		// dynamic call of a function value with node arguments: conservatively a whole-subtree visit
		if ft := c.typeOf(ce.Fun); ft != nil {
			if _, isSig := ft.Underlying().(*types.Signature); isSig {
				for _, a := range ce.Args {
					if isNodeType(c.typeOf(a)) {
						add(t.pathOf(env, a, 0))
					}
				}
			}
		}
		return true
	})
	return alts
}

// paths enumerates, for a statement list, the visit lists of its acyclic paths (loop bodies once per path). ok=false when
// there are more than 512 paths or a goto/label.
func (t *travCtx) paths(f *travFn, env *travEnv, list []ast.Stmt) (res [][]string, ok bool) {
	ok = true
	type st = tst
	var run func(list []ast.Stmt, open []st) []st
	var finished []st
	cp := func(s st) st {
		as := map[types.Object]bool{}
		for k, v := range s.as {
			as[k] = v
		}
		return st{append([]string{}, s.v...), s.done, as}
	}
	// condVar: the condition is a single-assignment bool variable or its negation
	condVar := func(e ast.Expr) (types.Object, bool, bool) {
		neg := false
		e = unparen(e)
		if u, ok := e.(*ast.UnaryExpr); ok && u.Op == token.NOT {
			neg = true
			e = unparen(u.X)
		}
		id, ok := e.(*ast.Ident)
		if !ok {
			return nil, false, false
		}
		o := t.c.objOf(id)
		if o == nil || env.cnt[o] != 1 || typeStr(o.Type()) != "bool" {
			return nil, false, false
		}
		return o, neg, true
	}
	addAll := func(open []st, alts [][]string) []st {
		if len(alts) == 1 {
			for i := range open {
				open[i].v = append(open[i].v, alts[0]...)
			}
			return open
		}
		var out []st
		for _, o := range open {
			for _, a := range alts {
				n := cp(o)
				n.v = append(n.v, a...)
				out = append(out, n)
			}
		}
		return out
	}
	run = func(list []ast.Stmt, open []st) []st {
		for _, s := range list {
			if len(open) == 0 || !ok {
				return nil
			}
			if len(open)+len(finished) > 512 {
				ok = false
				return nil
			}
			switch x := s.(type) {
			case *ast.ReturnStmt:
				open = addAll(open, t.visitsInExpr(f, env, x))
				finished = append(finished, open...)
				return nil
			case *ast.BranchStmt:
				if x.Tok == token.GOTO {
					ok = false
					return nil
				}
				finished = append(finished, open...) // break / continue end this pass through the enclosing body
				return nil
			case *ast.LabeledStmt:
				open = run([]ast.Stmt{x.Stmt}, open)
			case *ast.BlockStmt:
				open = run(x.List, open)
			case *ast.IfStmt:
				if x.Init != nil {
					open = addAll(open, t.visitsInExpr(f, env, x.Init))
				}
				open = addAll(open, t.visitsInExpr(f, env, x.Cond))
				var a, b []st
				cv, neg, isVar := condVar(x.Cond)
				for _, o := range open {
					if isVar {
						if val, known := o.as[cv]; known {
							// the same variable was tested before on this path: only the consistent branch is feasible
							if val != neg {
								a = append(a, cp(o))
							} else {
								b = append(b, cp(o))
							}
							continue
						}
					}
					ta, tb := cp(o), cp(o)
					if isVar {
						ta.as[cv] = !neg
						tb.as[cv] = neg
					}
					a = append(a, ta)
					b = append(b, tb)
				}
				out := run(x.Body.List, a)
				switch e := x.Else.(type) {
				case nil:
					out = append(out, b...)
				case *ast.BlockStmt:
					out = append(out, run(e.List, b)...)
				case *ast.IfStmt:
					out = append(out, run([]ast.Stmt{e}, b)...)
				}
				open = out
			case *ast.SwitchStmt, *ast.TypeSwitchStmt:
				var body *ast.BlockStmt
				if sw, isSw := x.(*ast.SwitchStmt); isSw {
					if sw.Init != nil {
						open = addAll(open, t.visitsInExpr(f, env, sw.Init))
					}
					if sw.Tag != nil {
						open = addAll(open, t.visitsInExpr(f, env, sw.Tag))
					}
					body = sw.Body
				} else {
					ts := x.(*ast.TypeSwitchStmt)
					if ts.Init != nil {
						open = addAll(open, t.visitsInExpr(f, env, ts.Init))
					}
					open = addAll(open, t.visitsInExpr(f, env, ts.Assign))
					body = ts.Body
				}
				var out []st
				hasDefault := false
				for _, cs := range body.List {
					cc := cs.(*ast.CaseClause)
					if cc.List == nil {
						hasDefault = true
					}
					var in []st
					for _, o := range open {
						in = append(in, cp(o))
					}
					for _, e := range cc.List {
						in = addAll(in, t.visitsInExpr(f, env, e))
					}
					out = append(out, run(cc.Body, in)...)
				}
				if !hasDefault {
					out = append(out, open...)
				}
				open = out
			case *ast.ForStmt:
				if x.Init != nil {
					open = addAll(open, t.visitsInExpr(f, env, x.Init))
				}
				if x.Cond != nil {
					open = addAll(open, t.visitsInExpr(f, env, x.Cond))
				}
				open = t.loop(f, env, x.Body, open, run, &finished)
			case *ast.RangeStmt:
				open = addAll(open, t.visitsInExpr(f, env, x.X))
				open = t.loop(f, env, x.Body, open, run, &finished)
			case *ast.ExprStmt:
				open = addAll(open, t.visitsInExpr(f, env, x))
				if ce, isCall := x.X.(*ast.CallExpr); isCall && t.c.noReturn(ce) {
					finished = append(finished, open...)
					return nil
				}
			case *ast.DeferStmt, *ast.GoStmt:
				open = addAll(open, t.visitsInExpr(f, env, x))
			case *ast.SelectStmt:
				ok = false
				return nil
			default:
				open = addAll(open, t.visitsInExpr(f, env, s))
			}
		}
		return open
	}
	rest := run(list, []st{{}})
	finished = append(finished, rest...)
	for _, p := range finished {
		res = append(res, p.v)
	}
	return res, ok
}

// loop: the body is taken once per path (one iteration is representative: different iterations visit different elements);
// paths that end in break/continue/return inside the body continue after the loop with what they visited.
func (t *travCtx) loop(f *travFn, env *travEnv, body *ast.BlockStmt, open []tst, run func([]ast.Stmt, []tst) []tst, finished *[]tst) []tst {
	// also the path that skips the loop
	var in []tst
	for _, o := range open {
		as := map[types.Object]bool{}
		for k, v := range o.as {
			as[k] = v
		}
		in = append(in, tst{append([]string{}, o.v...), o.done, as})
	}
	before := len(*finished)
	out := run(body.List, in)
	// paths that left the body by break/continue/return were appended to finished; break/continue ones continue after the
	// loop — conservatively treat all of them as continuing as well (a superset of the visits of the real paths)
	ended := append([]tst{}, (*finished)[before:]...)
	*finished = (*finished)[:before]
	out = append(out, ended...)
	out = append(out, open...)
	return out
}

func (t *travCtx) summarise(h *travFn) [][]relVisit {
	if s, ok := t.summary[h]; ok {
		return s
	}
	if t.inFlight[h] {
		return nil // recursion among helpers: the inner occurrence contributes what the outer will contribute
	}
	t.inFlight[h] = true
	defer func() { t.inFlight[h] = false }()
	env := t.envOf(h)
	ps, ok := t.paths(h, env, h.body.List)
	if !ok {
		t.undecid[h] = "control flow not enumerable"
	}
	var out [][]relVisit
	for _, p := range ps {
		var one []relVisit
		for _, v := range p {
			if strings.HasPrefix(v, "?") {
				continue
			}
			for i := range h.params {
				root := fmt.Sprintf("p%d", i)
				if v == root || strings.HasPrefix(v, root+".") || strings.HasPrefix(v, root+"[") {
					one = append(one, relVisit{i, v[len(root):]})
				}
			}
		}
		out = append(out, one)
	}
	t.summary[h] = out
	return out
}

func ruleTraverse(c *Ctx, id string, passes []travPass) {
	if id == "DS-7" {
		c.R.Rule(id, 2, "desugaring is one traversal: on every path through trans.Desugar each sub-tree of the node is handed to a recursive Desugar call at most once, and never both a sub-tree and one of its own sub-trees; otherwise the cost doubles per nesting level and compile time is exponential in the length of a chain of such nodes")
	} else {
		c.R.Rule(id, 20, "every tree pass is one traversal: on every path (loop bodies per iteration, helpers through their summaries, function values conservatively) of every function of the type checker, the three back ends and the SQL emitter, the sub-trees handed to the pass's recursive visitor are pairwise disjoint — no sub-tree twice, never a sub-tree and one of its own sub-trees; a second visit doubles the work per nesting level (compile time exponential in the depth) and, in the interpreter and in emitted code, is a second evaluation of a strict operand")
	}
	for _, pass := range passes {
		pk := c.Mod[pass.sp]
		if pk == nil {
			c.R.Anchor(pass.sp)
			continue
		}
		t := &travCtx{c: c, pass: pass, byObj: map[types.Object]*travFn{}, visitor: map[types.Object]bool{}, summary: map[*travFn][][]relVisit{}, inFlight: map[*travFn]bool{}, undecid: map[*travFn]string{}}
		for _, file := range pk.Syntax {
			for _, d := range file.Decls {
				fd, ok := d.(*ast.FuncDecl)
				if !ok || fd.Body == nil {
					continue
				}
				f := &travFn{name: fnName(pass.sp, fd), node: fd, ft: fd.Type, body: fd.Body, obj: pk.TypesInfo.Defs[fd.Name]}
				if fd.Type.Params != nil {
					for _, fl := range fd.Type.Params.List {
						if len(fl.Names) == 0 {
							f.params = append(f.params, nil)
						}
						for _, nm := range fl.Names {
							f.params = append(f.params, c.objOf(nm))
						}
					}
				}
				t.fns = append(t.fns, f)
				t.byObj[f.obj] = f
				// function literals inside are functions of their own (closures run later, per call)
				li := 0
				ast.Inspect(fd.Body, func(x ast.Node) bool {
					lit, ok := x.(*ast.FuncLit)
					if !ok {
						return true
					}
					li++
					lf := &travFn{name: fmt.Sprintf("%s$lit%d", f.name, li), node: lit, ft: lit.Type, body: lit.Body}
					if lit.Type.Params != nil {
						for _, fl := range lit.Type.Params.List {
							if len(fl.Names) == 0 {
								lf.params = append(lf.params, nil)
							}
							for _, nm := range fl.Names {
								lf.params = append(lf.params, c.objOf(nm))
							}
						}
					}
					t.fns = append(t.fns, lf)
					return true
				})
			}
		}
		found := 0
		for _, v := range pass.visitors {
			for _, f := range t.fns {
				if f.obj != nil && f.name == pass.sp+"."+v {
					t.visitor[f.obj] = true
					found++
				}
			}
		}
		if found == 0 {
			c.R.Anchor(pass.sp + " visitor " + strings.Join(pass.visitors, "/"))
			continue
		}
		analysed := 0
		for _, f := range t.fns {
			// literals inherit the enclosing function's environment for captured node variables
			env := t.envOf(f)
			if lit, isLit := f.node.(*ast.FuncLit); isLit {
				for _, g := range t.fns {
					if fd, ok := g.node.(*ast.FuncDecl); ok && fd.Body.Pos() <= lit.Pos() && lit.End() <= fd.Body.End() {
						outer := t.envOf(g)
						// type-switch variables and locals of the enclosing function, resolved to the enclosing roots
						for o, p := range outer.root {
							if _, ok := env.root[o]; !ok {
								env.root[o] = "outer:" + p
							}
						}
						for o, e := range outer.one {
							if _, ok := env.one[o]; !ok {
								env.one[o], env.cnt[o] = e, outer.cnt[o]
							}
						}
						for o, e := range outer.rng {
							if _, ok := env.rng[o]; !ok {
								env.rng[o] = e
							}
						}
					}
				}
			}
			ps, ok := t.paths(f, env, f.body.List)
			total := 0
			for _, p := range ps {
				total += len(p)
			}
			if total == 0 {
				continue
			}
			analysed++
			desc := "visits each sub-tree once"
			if !ok {
				c.R.Unk(f.name, desc, f.node.Pos(), "more than 512 paths or a goto: the paths of this function are not enumerable")
				continue
			}
			bad := ""
			for _, p := range ps {
				for i := 0; i < len(p) && bad == ""; i++ {
					if strings.HasPrefix(p[i], "?") {
						continue
					}
					for j := 0; j < i; j++ {
						if strings.HasPrefix(p[j], "?") {
							continue
						}
						if pathsConflict(p[i], p[j]) {
							bad = p[j] + " and " + p[i]
							break
						}
					}
				}
			}
			pretty := strings.NewReplacer("outer:", "", "p0", "node", "p1", "node", "p2", "node", "p3", "node").Replace(bad)
			c.R.Check(bad == "", f.name, desc, f.node.Pos(), fmt.Sprintf("%d paths; the sub-trees handed to the visitor are pairwise disjoint on each", len(ps)), "on one path the pass visits "+pretty+": a sub-tree is traversed twice, so the cost doubles per nesting level (exponential in the depth of a chain of such nodes) and, at run time, a strict operand would be evaluated twice")
		}
		c.R.Check(analysed >= 1, pass.sp, "pass "+pass.id+" has traversal functions", token.NoPos, fmt.Sprintf("%d functions hand sub-trees to the visitor", analysed), "no function of the pass hands a sub-tree to its visitor: the scan is not seeing the pass")
		if t.overflow {
			c.R.Unk(pass.sp, "helper alternatives", token.NoPos, "more than 256 combinations of helper paths in one expression")
		}
		for h, why := range t.undecid {
			c.R.Unk(h.name, "helper summary", h.node.Pos(), why)
		}
	}
}
