package main

import (
	"fmt"
	"go/ast"
	"go/constant"
	"go/token"
	"go/types"
	"sort"
	"strings"

	"golang.org/x/tools/go/packages"
)

// VM rules: POPORDER-1, BC-1 (writer/reader operands), BC-2 (widths), BC-6 (stack), BC-7 (constant pool),
// SIBLING-2 (by-value intrinsics == library), SIG-3 (arity), SIBLING-3 (by-need intrinsics), SIBLING-8 (Lazy flag), LAZY-1/5.

func init() {
	reg("POPORDER-1", rulePopOrder)
	reg("BC-1", ruleBC1)
	reg("BC-2", ruleBC2)
	reg("BC-6", ruleBC6)
	reg("BC-7", ruleBC7)
	reg("SIBLING-2", ruleSibling2)
	reg("SIBLING-3", ruleSibling3)
	reg("SIBLING-8", ruleSibling8)
	reg("LAZY", ruleLazy)
}

func isPop(c *Ctx, e ast.Node) bool {
	ce, ok := e.(*ast.CallExpr)
	return ok && c.calleeName(ce) == "vm.stack.Pop"
}

// ---------- POPORDER-1 ----------

func rulePopOrder(c *Ctx) {
	c.R.Rule("POPORDER-1", 4, "operands are popped in reverse and restored to source order: every counted loop that pops stores (a value derived from) the popped operand at the reversed index n-1-i of a slice, and does nothing order-sensitive (map insertion, call) inside the loop")
	m := c.opcodes()
	if m == nil || m.sw == nil {
		c.R.Anchor("vm.switchThreading")
		return
	}
	for _, op := range m.names {
		cc := m.cases[op]
		if cc == nil {
			continue
		}
		k := 0
		for _, st := range cc.Body {
			ast.Inspect(st, func(x ast.Node) bool {
				fs, ok := x.(*ast.ForStmt)
				if !ok {
					return true
				}
				pops := 0
				ast.Inspect(fs.Body, func(y ast.Node) bool {
					if isPop(c, y) {
						pops++
					}
					return true
				})
				if pops == 0 {
					return true
				}
				k++
				desc := fmt.Sprintf("case %s loop#%d", op, k)
				// for i := 0; i < N; i++
				init, ok1 := fs.Init.(*ast.AssignStmt)
				cond, ok2 := fs.Cond.(*ast.BinaryExpr)
				post, ok3 := fs.Post.(*ast.IncDecStmt)
				if !ok1 || !ok2 || !ok3 || cond.Op != token.LSS || post.Tok != token.INC || c.constOf(init.Rhs[0]) == nil || constant.Sign(c.constOf(init.Rhs[0])) != 0 {
					c.R.Unk("vm.switchThreading", desc, fs.Pos(), "loop is not `for i := 0; i < n; i++`")
					return true
				}
				iv := src(init.Lhs[0])
				n := sx(cond.Y)
				rev1 := "(BinaryExpr (BinaryExpr " + n + " Op:- Y:1) Op:- Y:" + iv + ")"
				rev2 := "(BinaryExpr (BinaryExpr " + n + " Op:- Y:" + iv + ") Op:- Y:1)"
				stores, badStore := 0, ""
				ast.Inspect(fs.Body, func(y ast.Node) bool {
					as, ok := y.(*ast.AssignStmt)
					if !ok {
						return true
					}
					for _, l := range as.Lhs {
						ix, ok := l.(*ast.IndexExpr)
						if !ok {
							continue
						}
						if _, isMap := c.typeOf(ix.X).Underlying().(*types.Map); isMap {
							badStore = "inserts into a map inside the pop loop (entries arrive in reverse source order: for duplicate keys the first entry wins, the other back ends keep the last)"
							continue
						}
						s := sx(ix.Index)
						if s == rev1 || s == rev2 {
							stores++
						} else {
							badStore = "stores at index " + src(ix.Index) + " instead of the reversed index"
						}
					}
					return true
				})
				for _, call := range c.calls(fs.Body) {
					nm := c.calleeName(call)
					if nm == "val.FunVal.Call" || nm == "val.MapVal.Put" || nm == "val.ListVal.Add" {
						badStore = "calls " + nm + " inside the pop loop (reverse order becomes observable)"
					}
				}
				switch {
				case badStore != "":
					c.R.Bad("vm.switchThreading", desc, fs.Pos(), "%s", badStore)
				case stores == 0:
					c.R.Bad("vm.switchThreading", desc, fs.Pos(), "popped operands are not stored at the reversed index")
				default:
					c.R.OK("vm.switchThreading", desc, fs.Pos(), "pops %d per iteration, stored at %s-1-%s", pops, src(cond.Y), iv)
				}
				return true
			})
		}
	}
	c.mapLiteralOrder()
}

// ---------- BC-1 ----------

type operandSeq []string // "const16", "u16", "u8"

func (c *Ctx) readerSeq(body []ast.Stmt, recvName string) (operandSeq, []string, bool) {
	var seq operandSeq
	var asserted []string // type asserted on each const operand ("" if none)
	okAdv := true
	blk := &ast.BlockStmt{List: body}
	type rd struct {
		call *ast.CallExpr
		kind string
	}
	var reads []rd
	for _, call := range c.calls(blk) {
		switch c.calleeName(call) {
		case "vm.bytecode.readConst":
			reads = append(reads, rd{call, "const16"})
		case "vm.bytecode.readMediumInt", "vm.bytecode.readUint16":
			reads = append(reads, rd{call, "u16"})
		case "vm.bytecode.readUint8":
			reads = append(reads, rd{call, "u8"})
		}
	}
	for _, r := range reads {
		seq = append(seq, r.kind)
		// the variable receiving the value
		var valObj types.Object
		inspectNoLit(blk, func(x ast.Node) bool {
			if as, ok := x.(*ast.AssignStmt); ok && len(as.Rhs) == 1 && unparen(as.Rhs[0]) == ast.Expr(r.call) {
				valObj = c.objOf(as.Lhs[0])
			}
			return true
		})
		ta := ""
		if r.kind == "const16" && valObj != nil {
			ast.Inspect(blk, func(x ast.Node) bool {
				if t, ok := x.(*ast.TypeAssertExpr); ok && t.Type != nil && c.objOf(t.X) == valObj {
					ta = typeStr(c.typeOf(t.Type))
				}
				return true
			})
		}
		asserted = append(asserted, ta)
	}
	// pc advances: one `pc += ..` (or i += ..) per read, except a final absolute jump `pc = off`
	adv := 0
	absJump := false
	inspectNoLit(blk, func(x ast.Node) bool {
		if as, ok := x.(*ast.AssignStmt); ok && len(as.Lhs) == 1 {
			isPC := false
			switch lv := as.Lhs[0].(type) {
			case *ast.SelectorExpr:
				isPC = lv.Sel.Name == "pc"
			case *ast.Ident:
				if bt, ok := c.typeOf(lv).Underlying().(*types.Basic); ok && bt.Kind() == types.Int && recvName == "?" {
					isPC = true // the disassembler's cursor
				}
			}
			if isPC {
				if as.Tok == token.ADD_ASSIGN {
					adv++
				} else if as.Tok == token.ASSIGN {
					absJump = true
				}
			}
		}
		return true
	})
	if adv != len(reads) && !(absJump && adv == len(reads)-1) && !(absJump && adv == len(reads)) {
		okAdv = false
	}
	return seq, asserted, okAdv
}

func ruleBC1(c *Ctx) {
	c.R.Rule("BC-1", 50, "writer/reader agreement: for every opcode the operand sequence the compiler emits (const16 / u16 / u8), the sequence the dispatch loop decodes (with a pc advance per operand) and the sequence the disassembler decodes are identical, and the Go type the reader asserts on a constant operand is the static type of what the writer put there")
	m := c.opcodes()
	if m == nil || m.sw == nil {
		c.R.Anchor("vm.switchThreading")
		return
	}
	// writer side: scan every function of package vm for emitOP(X) followed by operand emits
	type wr struct {
		seq   operandSeq
		types []string
		pos   token.Pos
		fn    string
	}
	writers := map[string][]wr{}
	pk := c.Mod["vm"]
	emitKind := func(call *ast.CallExpr) (string, string) {
		switch c.calleeName(call) {
		case "vm.bytecode.emitConst":
			return "const16", typeStr(c.typeOf(call.Args[0]))
		case "vm.bytecode.emitMediumInt", "vm.bytecode.emitUint16", "vm.bytecode.placeholderForMediumInt", "vm.bytecode.placeholderUint16":
			return "u16", ""
		case "vm.bytecode.emitUint8":
			return "u8", ""
		}
		return "", ""
	}
	stmtEmit := func(s ast.Stmt) (string, string, bool) {
		var call *ast.CallExpr
		switch x := s.(type) {
		case *ast.ExprStmt:
			call, _ = x.X.(*ast.CallExpr)
		case *ast.AssignStmt:
			if len(x.Rhs) == 1 {
				call, _ = x.Rhs[0].(*ast.CallExpr)
			}
		}
		if call == nil {
			return "", "", false
		}
		k, t := emitKind(call)
		return k, t, k != ""
	}
	for _, f := range pk.Syntax {
		for _, d := range f.Decls {
			fd, ok := d.(*ast.FuncDecl)
			if !ok || fd.Body == nil {
				continue
			}
			fname := fnName("vm", fd)
			if fname == "vm.bytecode.emitOP" {
				continue
			}
			ast.Inspect(fd.Body, func(x ast.Node) bool {
				es, ok := x.(*ast.ExprStmt)
				if !ok {
					return true
				}
				call, ok := es.X.(*ast.CallExpr)
				if !ok || c.calleeName(call) != "vm.bytecode.emitOP" {
					return true
				}
				opName := ""
				if o := c.objOf(call.Args[0]); o != nil {
					if _, isConst := o.(*types.Const); isConst {
						opName = o.Name()
					} else {
						opName = "$" + o.Name() // variable opcode (by-value intrinsic)
					}
				}
				var seq operandSeq
				var tys []string
				// following statements
				cur := ast.Stmt(es)
				for hop := 0; hop < 3; hop++ {
					list, idx := stmtListContaining(fd.Body, cur)
					if list == nil {
						break
					}
					j := idx + 1
					for ; j < len(list); j++ {
						k, t, ok := stmtEmit(list[j])
						if !ok {
							// `if c { emitX(a) } else { emitX(b) }`: same operand kinds on both arms
							if is, isIf := list[j].(*ast.IfStmt); isIf && is.Init == nil {
								if eb, isBlk := is.Else.(*ast.BlockStmt); isBlk && len(is.Body.List) == len(eb.List) && len(eb.List) > 0 {
									var ks, ts []string
									same := true
									for q := range eb.List {
										k1, t1, ok1 := stmtEmit(is.Body.List[q])
										k2, t2, ok2 := stmtEmit(eb.List[q])
										if !ok1 || !ok2 || k1 != k2 {
											same = false
											break
										}
										if t1 != t2 {
											t1 = ""
										}
										ks, ts = append(ks, k1), append(ts, t1)
									}
									if same {
										seq, tys = append(seq, ks...), append(tys, ts...)
										continue
									}
								}
							}
							break
						}
						seq = append(seq, k)
						tys = append(tys, t)
					}
					if j < len(list) || len(seq) > 0 {
						break
					}
					// emitOP was the last statement of a branch: continue after the enclosing if
					var parent ast.Stmt
					ast.Inspect(fd.Body, func(y ast.Node) bool {
						if is, ok := y.(*ast.IfStmt); ok {
							if is.Body != nil && len(is.Body.List) > 0 && is.Body.List[len(is.Body.List)-1] == cur {
								parent = is
							}
							if eb, ok := is.Else.(*ast.BlockStmt); ok && len(eb.List) > 0 && eb.List[len(eb.List)-1] == cur {
								parent = is
							}
						}
						return true
					})
					if parent == nil {
						break
					}
					cur = parent
				}
				// an opcode held in a local that is only ever assigned opcode constants (`op := OP_A; if c { op = OP_B }`)
				// is an emit site of each of those opcodes
				if strings.HasPrefix(opName, "$") {
					vo := c.objOf(call.Args[0])
					var consts []string
					allConst := true
					ast.Inspect(fd.Body, func(y ast.Node) bool {
						as, ok := y.(*ast.AssignStmt)
						if !ok || len(as.Lhs) != len(as.Rhs) {
							return true
						}
						for i, l := range as.Lhs {
							if c.objOf(l) != vo {
								continue
							}
							if ko, ok := c.objOf(as.Rhs[i]).(*types.Const); ok {
								consts = append(consts, ko.Name())
							} else {
								allConst = false
							}
						}
						return true
					})
					if allConst && len(consts) > 0 {
						for _, k := range consts {
							writers[k] = append(writers[k], wr{seq, tys, call.Pos(), fname})
						}
						return true
					}
				}
				writers[opName] = append(writers[opName], wr{seq, tys, call.Pos(), fname})
				return true
			})
		}
	}
	// disassembler cases (with fallthrough)
	dis := map[string]operandSeq{}
	disSeen := map[string]bool{}
	if dd := c.FuncDecl("vm", "disassemble"); dd != nil {
		var sw *ast.SwitchStmt
		inspectNoLit(dd.Body, func(x ast.Node) bool {
			if s, ok := x.(*ast.SwitchStmt); ok && sw == nil {
				sw = s
			}
			return true
		})
		if sw != nil {
			var pending []string
			for _, s := range sw.Body.List {
				cc := s.(*ast.CaseClause)
				var names []string
				for _, e := range cc.List {
					if o := c.objOf(e); o != nil {
						names = append(names, o.Name())
					}
				}
				if len(cc.Body) == 1 {
					if br, ok := cc.Body[0].(*ast.BranchStmt); ok && br.Tok == token.FALLTHROUGH {
						pending = append(pending, names...)
						continue
					}
				}
				seq, _, _ := c.readerSeq(cc.Body, "?")
				for _, n := range append(pending, names...) {
					dis[n] = seq
					disSeen[n] = true
				}
				pending = nil
			}
		}
	} else {
		c.R.Anchor("vm.disassemble")
	}
	for _, op := range m.names {
		cc := m.cases[op]
		if cc == nil {
			continue
		}
		rseq, asserted, okAdv := c.readerSeq(cc.Body, "v")
		ws := writers[op]
		desc := "opcode " + op
		if len(ws) == 0 {
			// by-value intrinsic opcodes are emitted through a variable; they must have no operands
			isIntr := false
			for _, w := range writers["$opCBV"] {
				_ = w
				isIntr = true
			}
			if len(rseq) == 0 && (isIntr || op == "OP_NOP" || op == "OP_RETURN") {
				c.R.OKTrivial("vm.switchThreading", desc+" operands", cc.Pos(), "no operands written (emitted via the intrinsic table / end()), none read")
			} else if len(rseq) == 0 {
				c.R.OKTrivial("vm.switchThreading", desc+" operands", cc.Pos(), "never emitted with operands, none read")
			} else {
				c.R.Bad("vm.switchThreading", desc+" operands", cc.Pos(), "the loop decodes %v but no emit site for this opcode was found", rseq)
			}
		}
		for _, w := range ws {
			okSeq := fmt.Sprint(w.seq) == fmt.Sprint(rseq)
			c.R.Check(okSeq, w.fn, desc+" operands written == read", w.pos, fmt.Sprintf("writer %v == reader %v", []string(w.seq), []string(rseq)), fmt.Sprintf("compiler emits %v but the dispatch loop decodes %v: the instruction stream is mis-framed from here on", []string(w.seq), []string(rseq)))
			if okSeq {
				for i := range w.seq {
					if w.seq[i] == "const16" && asserted[i] != "" && w.types[i] != "" && w.types[i] != "interface{}" && w.types[i] != "any" {
						c.R.Check(w.types[i] == asserted[i], w.fn, desc+fmt.Sprintf(" const operand #%d type", i), w.pos, "writer puts "+w.types[i]+", reader asserts "+asserted[i], "writer puts a "+w.types[i]+" into the pool but the reader asserts "+asserted[i])
					}
				}
			}
		}
		c.R.Check(okAdv, "vm.switchThreading", desc+" pc advances past every operand", cc.Pos(), "one advance per decoded operand", "an operand is decoded without advancing pc (or advanced twice): the next opcode is fetched from inside this instruction")
		if ds, ok := dis[op]; ok || len(rseq) > 0 {
			c.R.Check(fmt.Sprint(ds) == fmt.Sprint(rseq), "vm.disassemble", desc+" disassembler decodes the same operands", cc.Pos(), "same sequence", fmt.Sprintf("disassembler decodes %v, the loop %v", []string(ds), []string(rseq)))
		}
	}
	// operand decoders: readConst indexes the pool with a u16; readMediumInt/readUint16 read 2 bytes, readUint8 one
	chk := func(fn, want string) {
		fd := c.FuncDecl("vm", "bytecode."+fn)
		if fd == nil {
			c.R.Anchor("vm.bytecode." + fn)
			return
		}
		c.R.Check(strings.Contains(c.sxN(fd, fd.Body), want), "vm.bytecode."+fn, "decoder width", fd.Pos(), "reads what the emitter wrote", "decoder no longer matches the emitter's width")
	}
	// byte-level codec: writer and reader of 16-bit operands both delegate to encoding/binary big-endian
	if w, r := c.FuncDecl("vm", "uint16ToByte"), c.FuncDecl("vm", "byteToUInt16"); w != nil && r != nil {
		okW := len(c.callsTo(w.Body, "encoding/binary.bigEndian.PutUint16")) == 1
		okR := len(c.callsTo(r.Body, "encoding/binary.bigEndian.Uint16")) == 1
		arith := false
		for _, fd := range []*ast.FuncDecl{w, r} {
			ast.Inspect(fd.Body, func(x ast.Node) bool {
				if be, ok := x.(*ast.BinaryExpr); ok {
					switch be.Op {
					case token.QUO, token.REM, token.SHL, token.SHR, token.MUL:
						arith = true
					}
				}
				return true
			})
		}
		c.R.Check(okW && okR && !arith, "vm.uint16ToByte", "16-bit operands encoded and decoded by the same big-endian codec", w.Pos(), "binary.BigEndian.PutUint16 / Uint16", "the 16-bit operand writer and reader are not the same std codec (hand-written byte arithmetic): some operand values decode to a different number")
	} else {
		c.R.Anchor("vm.uint16ToByte / vm.byteToUInt16")
	}
	chk("readConst", "Fun:(SelectorExpr $r Sel:readUint16)")
	chk("readMediumInt", "Fun:(SelectorExpr $r Sel:readUint16)")
	chk("readUint16", "High:(BinaryExpr $p0 Op:+ Y:2)")
	chk("readUint8", "(IndexExpr (SelectorExpr $r Sel:code) Index:$p0)")
	chk("emitConst", "Fun:(SelectorExpr $r Sel:emitUint16) Args:[(CallExpr Fun:(SelectorExpr $r Sel:addConst)")
	chk("emitMediumInt", "Fun:(SelectorExpr $r Sel:emitUint16)")
	chk("placeholderForMediumInt", "Fun:(SelectorExpr $r Sel:placeholderUint16)")
}

// ---------- BC-2 ----------

func ruleBC2(c *Ctx) {
	c.R.Rule("BC-2", 2, "operand widths: every narrowing uint8(x)/uint16(x) in the bytecode emitter is dominated by util.Assert(x <= math.MaxUintN) with the matching N on the same x (values are refused at compile time, never truncated)")
	pk := c.Mod["vm"]
	if pk == nil {
		c.R.Anchor("package vm")
		return
	}
	for _, f := range pk.Syntax {
		if strings.HasSuffix(c.Fset.Position(f.Pos()).Filename, "bin.go") {
			continue // generic byte helpers take already-narrow types
		}
		var fnStack []ast.Node
		ast.Inspect(f, func(x ast.Node) bool {
			if x == nil {
				fnStack = fnStack[:len(fnStack)-1]
				return false
			}
			fnStack = append(fnStack, x)
			ce, ok := x.(*ast.CallExpr)
			if !ok || len(ce.Args) != 1 {
				return true
			}
			tv, ok := c.infoAt(ce).Types[ce.Fun]
			if !ok || !tv.IsType() {
				return true
			}
			bt, ok := tv.Type.Underlying().(*types.Basic)
			if !ok || (bt.Kind() != types.Uint8 && bt.Kind() != types.Uint16) {
				return true
			}
			if at, ok := c.typeOf(ce.Args[0]).Underlying().(*types.Basic); !ok || at.Kind() != types.Int || c.constOf(ce.Args[0]) != nil {
				return true
			}
			want := "math.MaxUint8"
			if bt.Kind() == types.Uint16 {
				want = "math.MaxUint16"
			}
			// innermost function body
			var body *ast.BlockStmt
			var owner string
			for i := len(fnStack) - 1; i >= 0; i-- {
				switch fn := fnStack[i].(type) {
				case *ast.FuncLit:
					if body == nil {
						body = fn.Body
					}
				case *ast.FuncDecl:
					if body == nil {
						body = fn.Body
					}
					owner = fnName("vm", fn)
				}
			}
			if body == nil {
				return true
			}
			g := c.buildCFG(body)
			guarded := false
			for _, a := range c.asserted(body) {
				be, ok := unparen(a.cond).(*ast.BinaryExpr)
				if !ok || be.Op != token.LEQ || sx(be.X) != sx(ce.Args[0]) {
					continue
				}
				if o := c.objOf(be.Y); o != nil && qual(o) == want && g.dominates(a.node, ce) {
					guarded = true
				}
			}
			c.R.Check(guarded, owner, "narrowing "+src(ce.Fun)+"("+src(ce.Args[0])+") asserted <= "+want, ce.Pos(), "range asserted before the conversion", "conversion can silently truncate: no dominating util.Assert("+src(ce.Args[0])+" <= "+want+")")
			return true
		})
	}
}

// ---------- BC-6 ----------

func ruleBC6(c *Ctx) {
	c.R.Rule("BC-6", 6, "the evaluation stack: sp/stack are written only by newStack, growStack, Push, Pop; Push grows (by a positive constant, copying the whole old stack) exactly when sp == len before storing at sp and incrementing; Pop asserts non-empty before reading sp-1 and decrementing")
	spF, stF := c.Field("vm", "stack", "sp"), c.Field("vm", "stack", "stack")
	if spF == nil || stF == nil {
		c.R.Anchor("vm.stack fields")
		return
	}
	allowed := map[string]bool{"vm.newStack": true, "vm.stack.growStack": true, "vm.stack.Push": true, "vm.stack.Pop": true}
	for _, f := range c.Mod["vm"].Syntax {
		for _, d := range f.Decls {
			fd, ok := d.(*ast.FuncDecl)
			if !ok || fd.Body == nil {
				continue
			}
			name := fnName("vm", fd)
			ast.Inspect(fd.Body, func(x ast.Node) bool {
				var lhs []ast.Expr
				switch s := x.(type) {
				case *ast.AssignStmt:
					lhs = s.Lhs
				case *ast.IncDecStmt:
					lhs = []ast.Expr{s.X}
				}
				for _, l := range lhs {
					root := l
					if ix, ok := root.(*ast.IndexExpr); ok {
						root = ix.X
					}
					if se, ok := root.(*ast.SelectorExpr); ok {
						o := c.objOf(se)
						if o == types.Object(spF) || (o == types.Object(stF) && typeStr(c.typeOf(se.X)) != "*vm.VM") {
							c.R.Check(allowed[name], name, "writes stack."+se.Sel.Name, l.Pos(), "one of the four stack primitives", "the evaluation stack's representation is written outside newStack/growStack/Push/Pop")
						}
					}
				}
				return true
			})
		}
	}
	if gs := c.FuncDecl("vm", "stack.growStack"); gs != nil {
		// by data flow, not by shape: (a) a slice is made whose length is sp (or len(stack)) plus a positive constant,
		// (b) the WHOLE old stack (the receiver's stack as it was on entry, unsliced) is copied into it, (c) it is installed
		grow := c.Obj("vm", "stackGrow")
		defs := c.localDefs(gs.Body)
		resolve := func(e ast.Expr) ast.Expr {
			e = unparen(e)
			for d := 0; d < 4; d++ {
				id, ok := e.(*ast.Ident)
				if !ok {
					break
				}
				def, ok := defs[c.objOf(id)]
				if !ok {
					break
				}
				e = unparen(def)
			}
			return e
		}
		isRecvStack := func(e ast.Expr) bool {
			se, ok := unparen(e).(*ast.SelectorExpr)
			return ok && c.objOf(se) == types.Object(stF)
		}
		// first statement that assigns r.stack
		var install *ast.AssignStmt
		var installRhs ast.Expr
		inspectNoLit(gs.Body, func(x ast.Node) bool {
			if as, ok := x.(*ast.AssignStmt); ok && install == nil {
				for i, l := range as.Lhs {
					if isRecvStack(l) && i < len(as.Rhs) {
						install, installRhs = as, as.Rhs[i]
					}
				}
			}
			return true
		})
		isGrownMake := func(e ast.Expr) bool {
			ce, ok := resolve(e).(*ast.CallExpr)
			if !ok || c.calleeName(ce) != "builtin.make" || len(ce.Args) < 2 {
				return false
			}
			be, ok := unparen(ce.Args[1]).(*ast.BinaryExpr)
			if !ok || be.Op != token.ADD {
				return false
			}
			for _, pair := range [][2]ast.Expr{{be.X, be.Y}, {be.Y, be.X}} {
				base, inc := unparen(pair[0]), pair[1]
				baseOK := false
				if se, ok := base.(*ast.SelectorExpr); ok && c.objOf(se) == types.Object(spF) {
					baseOK = true
				}
				if lc, ok := base.(*ast.CallExpr); ok && c.calleeName(lc) == "builtin.len" && len(lc.Args) == 1 && isRecvStack(lc.Args[0]) {
					baseOK = true
				}
				if v := c.constOf(inc); baseOK && v != nil && constant.Sign(v) > 0 {
					return true
				}
			}
			return false
		}
		okMake := install != nil && isGrownMake(installRhs)
		if cst, ok := grow.(*types.Const); !ok || constant.Sign(cst.Val()) <= 0 {
			okMake = false
		}
		okCopy := false
		for _, cp := range c.callsTo(gs.Body, "builtin.copy") {
			if len(cp.Args) != 2 || install == nil {
				continue
			}
			dst, src := cp.Args[0], cp.Args[1]
			// destination: the new slice (the local that is installed, or r.stack after the installation)
			dstOK := (isRecvStack(dst) && cp.Pos() > install.End()) || (c.objOf(dst) != nil && c.objOf(dst) == c.objOf(installRhs)) || isGrownMake(dst)
			// source: the old stack, unsliced — r.stack read before the installation, or a local bound to it before
			srcOK := false
			if isRecvStack(src) && cp.End() < install.Pos() {
				srcOK = true
			}
			if id, ok := unparen(src).(*ast.Ident); ok {
				if def, ok := defs[c.objOf(id)]; ok && isRecvStack(def) && def.End() < install.Pos() {
					srcOK = true
				}
			}
			if dstOK && srcOK {
				okCopy = true
			}
		}
		c.R.Check(okMake, "vm.stack.growStack", "new slice longer by a positive constant", gs.Pos(), "make(sp + stackGrow), stackGrow > 0", "growth does not enlarge the stack by a positive constant")
		c.R.Check(okCopy, "vm.stack.growStack", "whole old stack copied", gs.Pos(), "copy(new, old stack), unsliced", "growth does not copy the complete old stack: operands below the top are lost or the top becomes nil")
		c.R.Check(install != nil && okMake, "vm.stack.growStack", "new slice installed", gs.Pos(), "s.stack = the grown slice", "the grown slice is not installed")
	} else {
		c.R.Anchor("vm.stack.growStack")
	}
	// Push / Pop by symbolic execution of the (straight-line, guarded) bodies: sp is tracked as sp0 + k
	type spState struct {
		k       int
		guards  []string // conditions known to hold (as source text over sp0), in order
		grew    string   // condition under which growStack was called before the store
		stores  []string // "stack[sp0+k] = <expr>"
		result  string
		unknown string
	}
	var evalStack func(fd *ast.FuncDecl) spState
	evalStack = func(fd *ast.FuncDecl) spState {
		st := spState{}
		locals := map[types.Object]string{}
		lin := func(k int) string {
			switch {
			case k == 0:
				return "sp0"
			case k > 0:
				return fmt.Sprintf("sp0+%d", k)
			}
			return fmt.Sprintf("sp0%d", k)
		}
		var ev func(e ast.Expr) string
		ev = func(e ast.Expr) string {
			e = unparen(e)
			switch x := e.(type) {
			case *ast.SelectorExpr:
				if c.objOf(x) == types.Object(spF) {
					return lin(st.k)
				}
				if c.objOf(x) == types.Object(stF) {
					return "stack"
				}
			case *ast.Ident:
				if v, ok := locals[c.objOf(x)]; ok {
					return v
				}
				if v := c.constOf(x); v != nil {
					return v.String()
				}
				return "param:" + x.Name
			case *ast.BasicLit:
				return x.Value
			case *ast.BinaryExpr:
				l, r := ev(x.X), ev(x.Y)
				if strings.HasPrefix(l, "sp0") && (x.Op == token.ADD || x.Op == token.SUB) {
					if v := c.constOf(x.Y); v != nil {
						if n, ok := constant.Int64Val(constant.ToInt(v)); ok {
							base := 0
							fmt.Sscanf(strings.TrimPrefix(l, "sp0"), "%d", &base)
							if x.Op == token.SUB {
								n = -n
							}
							return lin(base + int(n))
						}
					}
				}
				return "(" + l + x.Op.String() + r + ")"
			case *ast.UnaryExpr:
				return x.Op.String() + ev(x.X)
			case *ast.IndexExpr:
				return ev(x.X) + "[" + ev(x.Index) + "]"
			case *ast.CallExpr:
				switch c.calleeName(x) {
				case "builtin.len":
					return "len(" + ev(x.Args[0]) + ")"
				case "vm.stack.Empty":
					return "(" + lin(st.k) + "==0)"
				}
				return "call:" + c.calleeName(x)
			}
			return "?" + src(e)
		}
		for _, s := range fd.Body.List {
			switch x := s.(type) {
			case *ast.ExprStmt:
				ce, ok := x.X.(*ast.CallExpr)
				if ok && c.calleeName(ce) == "util.Assert" && len(ce.Args) > 0 {
					st.guards = append(st.guards, ev(ce.Args[0]))
					continue
				}
				st.unknown = src(s)
			case *ast.IfStmt:
				if x.Init != nil || x.Else != nil || len(x.Body.List) != 1 {
					st.unknown = src(s)
					continue
				}
				if es, ok := x.Body.List[0].(*ast.ExprStmt); ok {
					if ce, ok := es.X.(*ast.CallExpr); ok {
						if c.calleeName(ce) == "vm.stack.growStack" {
							st.grew = ev(x.Cond)
							continue
						}
						if c.noReturn(ce) {
							st.guards = append(st.guards, "!"+ev(x.Cond))
							continue
						}
					}
				}
				st.unknown = src(s)
			case *ast.IncDecStmt:
				if se, ok := unparen(x.X).(*ast.SelectorExpr); ok && c.objOf(se) == types.Object(spF) {
					if x.Tok == token.INC {
						st.k++
					} else {
						st.k--
					}
					continue
				}
				st.unknown = src(s)
			case *ast.AssignStmt:
				if len(x.Lhs) != 1 || len(x.Rhs) != 1 {
					st.unknown = src(s)
					continue
				}
				l := unparen(x.Lhs[0])
				switch lv := l.(type) {
				case *ast.Ident:
					locals[c.objOf(lv)] = ev(x.Rhs[0])
				case *ast.IndexExpr:
					st.stores = append(st.stores, ev(lv)+" = "+ev(x.Rhs[0])+" |grew:"+st.grew+"|guards:"+strings.Join(st.guards, "&"))
				case *ast.SelectorExpr:
					if c.objOf(lv) == types.Object(spF) {
						v := ev(x.Rhs[0])
						if x.Tok == token.ADD_ASSIGN || x.Tok == token.SUB_ASSIGN {
							if cv := c.constOf(x.Rhs[0]); cv != nil {
								n, _ := constant.Int64Val(constant.ToInt(cv))
								if x.Tok == token.SUB_ASSIGN {
									n = -n
								}
								st.k += int(n)
								continue
							}
						}
						if strings.HasPrefix(v, "sp0") {
							base := 0
							fmt.Sscanf(strings.TrimPrefix(v, "sp0"), "%d", &base)
							st.k = base
							continue
						}
					}
					st.unknown = src(s)
				default:
					st.unknown = src(s)
				}
			case *ast.ReturnStmt:
				if len(x.Results) == 1 {
					st.result = ev(x.Results[0]) + " |guards:" + strings.Join(st.guards, "&")
				}
			default:
				st.unknown = src(s)
			}
		}
		return st
	}
	nonEmpty := func(guards string) bool {
		for _, g := range strings.Split(guards, "&") {
			switch strings.ReplaceAll(g, " ", "") {
			case "!(sp0==0)", "(sp0>0)", "(sp0!=0)", "(sp0>=1)", "!(sp0<=0)", "!(sp0<1)", "!(0==sp0)", "(0<sp0)":
				return true
			}
		}
		return false
	}
	if pu := c.FuncDecl("vm", "stack.Push"); pu != nil {
		st := evalStack(pu)
		okP := st.unknown == "" && st.k == 1 && len(st.stores) == 1 && strings.HasPrefix(st.stores[0], "stack[sp0] = param:")
		if okP {
			g := strings.ReplaceAll(strings.SplitN(strings.SplitN(st.stores[0], "|grew:", 2)[1], "|guards:", 2)[0], " ", "")
			okP = g == "(sp0==len(stack))" || g == "(sp0>=len(stack))" || g == "(len(stack)==sp0)" || g == "(len(stack)<=sp0)"
		}
		c.R.Check(okP, "vm.stack.Push", "grow when full, store at sp, sp++", pu.Pos(), "growth precedes every store", "Push is not `if sp == len { grow }; stack[sp] = v; sp++` ("+st.unknown+")")
	} else {
		c.R.Anchor("vm.stack.Push")
	}
	if po := c.FuncDecl("vm", "stack.Pop"); po != nil {
		st := evalStack(po)
		parts := strings.SplitN(st.result, " |guards:", 2)
		okA := st.unknown == "" && st.k == -1 && len(st.stores) == 0 && len(parts) == 2 && parts[0] == "stack[sp0-1]" && nonEmpty(parts[1])
		c.R.Check(okA, "vm.stack.Pop", "assert non-empty, read sp-1, sp--", po.Pos(), "underflow is an assertion failure, never an out-of-range read", "Pop does not assert non-emptiness before reading stack[sp-1] / does not decrement sp")
		if em := c.FuncDecl("vm", "stack.Empty"); em != nil {
			c.R.Check(c.sxN(em, em.Body.List) == "[(ReturnStmt Results:[(BinaryExpr (SelectorExpr $r Sel:sp) Op:== Y:0)])]", "vm.stack.Empty", "sp == 0", em.Pos(), "emptiness is sp == 0", "Empty is not sp == 0")
		}
	} else {
		c.R.Anchor("vm.stack.Pop")
	}
}

// ---------- BC-7 ----------

func ruleBC7(c *Ctx) {
	c.R.Rule("BC-7", 4, "constant pool: every body (program and thunks) compiled by one Compiler shares that Compiler's pool; addConst gives every emitted constant its own fresh slot and returns that slot's index")
	cc := c.FuncDecl("vm", "Compiler.Compile")
	if cc == nil {
		c.R.Anchor("vm.Compiler.Compile")
		return
	}
	okPool := strings.Contains(c.sxN(cc, cc.Body), "(KeyValueExpr Key:cp Value:(SelectorExpr $r Sel:cp))")
	c.R.Check(okPool, "vm.Compiler.Compile", "bytecode gets the compiler's pool", cc.Pos(), "&bytecode{cp: c.cp}", "a compiled body does not share the compiler's constant pool")
	endLast := false
	if n := len(cc.Body.List); n >= 2 {
		if es, ok := cc.Body.List[n-2].(*ast.ExprStmt); ok {
			if ce, ok := es.X.(*ast.CallExpr); ok && c.calleeName(ce) == "vm.bytecode.end" {
				endLast = true
			}
		}
	}
	c.R.Check(endLast, "vm.Compiler.Compile", "every body ends with end()", cc.Pos(), "compile; end; return", "a body is not terminated by end() after compilation")
	if e := c.FuncDecl("vm", "bytecode.end"); e != nil {
		c.R.Check(c.sxN(e, e.Body.List) == "[(ExprStmt (CallExpr Fun:(SelectorExpr $r Sel:emitOP) Args:[OP_RETURN]))]", "vm.bytecode.end", "emits OP_RETURN", e.Pos(), "the last instruction of every body is OP_RETURN", "end() does not emit exactly OP_RETURN")
	}
	if nc := c.FuncDecl("vm", "NewCompile"); nc != nil {
		c.R.Check(strings.Contains(sx(nc.Body), "(KeyValueExpr Key:cp Value:(UnaryExpr Op:& (CompositeLit Type:cp)))"), "vm.NewCompile", "fresh pool per compiler", nc.Pos(), "&Compiler{cp: &cp{}}", "compilers share a pool")
	}
	// thunks are compiled by the same compiler
	if cis := c.FuncDecl("vm", "bytecode.compileInvokeStatic"); cis != nil {
		var cObj types.Object
		for _, f := range cis.Type.Params.List {
			if typeStr(c.typeOf(f.Type)) == "*vm.Compiler" {
				cObj = c.objOf(f.Names[0])
			}
		}
		okT := false
		for _, call := range c.callsTo(cis.Body, "vm.Compiler.Compile") {
			if se, ok := call.Fun.(*ast.SelectorExpr); ok && c.objOf(se.X) == cObj {
				okT = true
			}
		}
		c.R.Check(okT, "vm.bytecode.compileInvokeStatic", "thunk bodies compiled by the same compiler", cis.Pos(), "c.Compile(arg, env)", "thunk bodies are compiled with another compiler (another pool)")
	}
	if ac := c.FuncDecl("vm", "bytecode.addConst"); ac != nil {
		okA := c.sxN(ac, ac.Body.List) == "[(AssignStmt Lhs:[(SelectorExpr $r Sel:data)] Tok:= Rhs:[(CallExpr Fun:append Args:[(SelectorExpr $r Sel:data) $p0])]) (ReturnStmt Results:[(BinaryExpr (CallExpr Fun:len Args:[(SelectorExpr $r Sel:data)]) Op:- Y:1)])]"
		if okA {
			c.R.OK("vm.bytecode.addConst", "fresh slot per constant", ac.Pos(), "append; return len-1")
		} else {
			c.R.Unk("vm.bytecode.addConst", "fresh slot per constant", ac.Pos(), "addConst is no longer `append; return len-1`: slots may be shared between emit sites whose readers assert different Go types (a string name and a *val.Val literal with the same text) — review the sharing key")
		}
	} else {
		c.R.Anchor("vm.bytecode.addConst")
	}
}

// ---------- SIBLING-2 / SIG-3 ----------

type intrinsicPair struct {
	fun string // fun.F variable name
	op  string
	pos token.Pos
}

func (c *Ctx) intrinsicsByValue() []intrinsicPair {
	var out []intrinsicPair
	for _, te := range c.tableEntries("vm", "intrinsicsCallByValue") {
		fo, oo := c.objOf(te.key), c.objOf(te.val)
		if fo != nil && oo != nil {
			out = append(out, intrinsicPair{fo.Name(), oo.Name(), te.pos})
		}
	}
	sort.Slice(out, func(i, j int) bool { return out[i].fun < out[j].fun })
	return out
}

// builtinLit returns the IFun literal and the types.Fun signature call of a built-in variable.
func (c *Ctx) builtinLit(sp, name string) (*ast.FuncLit, *ast.CallExpr, bool) {
	init := c.VarInit(sp, name)
	if init == nil {
		return nil, nil, false
	}
	var lit *ast.FuncLit
	var sig *ast.CallExpr
	lazy := false
	ast.Inspect(init, func(x ast.Node) bool {
		ce, ok := x.(*ast.CallExpr)
		if !ok {
			return true
		}
		nm := c.calleeName(ce)
		if (nm == "val.Fun" || nm == "val.LazyFun") && len(ce.Args) == 2 && lit == nil {
			lazy = nm == "val.LazyFun"
			if l, ok := ce.Args[1].(*ast.FuncLit); ok {
				lit = l
			}
			if s, ok := unparen(ce.Args[0]).(*ast.CallExpr); ok && c.calleeName(s) == "types.Fun" {
				sig = s
			}
		}
		return true
	})
	return lit, sig, lazy
}

func ruleSibling2(c *Ctx) {
	c.R.Rule("SIBLING-2", 60, "every by-value intrinsic opcode computes exactly what the library built-in it replaces computes: handler (k-th pop -> args[n-1-k], final push -> result) and built-in body (return -> result) normalise to the same expression; SIG-3: the handler pops as many operands as the built-in has parameters and pushes one result")
	m := c.opcodes()
	if m == nil || m.sw == nil {
		c.R.Anchor("vm.switchThreading")
		return
	}
	pairs := c.intrinsicsByValue()
	for _, p := range pairs {
		cc := m.cases[p.op]
		lit, sig, _ := c.builtinLit("fun", p.fun)
		desc := p.op + " == fun." + p.fun
		if cc == nil || lit == nil {
			c.R.Anchor("intrinsic pair " + desc)
			continue
		}
		arity := -1
		if sig != nil && len(sig.Args) == 3 {
			if cl, ok := unparen(sig.Args[1]).(*ast.CompositeLit); ok {
				arity = len(cl.Elts)
			}
		}
		// handler side
		blk := &ast.BlockStmt{List: cc.Body}
		var pops []*ast.CallExpr
		var pushes []*ast.CallExpr
		for _, call := range c.calls(blk) {
			switch c.calleeName(call) {
			case "vm.stack.Pop":
				pops = append(pops, call)
			case "vm.stack.Push":
				pushes = append(pushes, call)
			}
		}
		hasLoop := false
		inspectNoLit(blk, func(x ast.Node) bool {
			switch x.(type) {
			case *ast.ForStmt, *ast.RangeStmt:
				hasLoop = true
			}
			return true
		})
		if hasLoop {
			c.R.Unk("vm.switchThreading", "SIBLING-2 "+desc, cc.Pos(), "handler contains a loop; normaliser handles straight-line handlers only")
			continue
		}
		n := len(pops)
		if len(cc.Body) == 0 {
			// identity: no pop, no push  ==  return args[0]
			rets := returnsOf(lit.Body)
			okID := len(rets) == 1 && c.sxN(lit, rets[0].Results[0]) == "(IndexExpr $p0 Index:0)" && arity == 1
			c.R.Check(okID, "vm.switchThreading", "SIBLING-2 "+desc, cc.Pos(), "empty handler == `return args[0]`", "empty handler but the built-in is not the identity on its single argument")
			continue
		}
		c.R.Check(n == arity && len(pushes) == 1, "vm.switchThreading", "SIG-3 "+desc+" arity", cc.Pos(), fmt.Sprintf("pops %d = arity, pushes 1", n), fmt.Sprintf("handler pops %d and pushes %d but the built-in has %d parameters: the stack is unbalanced for every call of it", n, len(pushes), arity))
		if len(pushes) != 1 {
			continue
		}
		popIdx := map[*ast.CallExpr]int{}
		for k, pc := range pops {
			popIdx[pc] = n - 1 - k
		}
		hdefs := c.localDefs(blk)
		depth := 0
		var hsub func(x ast.Node) (string, bool)
		hsub = func(x ast.Node) (string, bool) {
			if ce, ok := x.(*ast.CallExpr); ok {
				if k, ok := popIdx[ce]; ok {
					return fmt.Sprintf("(IndexExpr args Index:%d)", k), true
				}
			}
			if id, ok := x.(*ast.Ident); ok {
				if d, ok := hdefs[c.objOf(id)]; ok && depth < 20 {
					depth++
					s := sxWith(d, hsub)
					depth--
					return s, true
				}
			}
			return "", false
		}
		got := sxWith(pushes[0].Args[0], hsub)
		// library side
		ldefs := c.localDefs(lit.Body)
		var litParam types.Object
		if len(lit.Type.Params.List) == 1 && len(lit.Type.Params.List[0].Names) == 1 {
			litParam = c.objOf(lit.Type.Params.List[0].Names[0])
		}
		var lsub func(x ast.Node) (string, bool)
		lsub = func(x ast.Node) (string, bool) {
			if id, ok := x.(*ast.Ident); ok && litParam != nil && c.objOf(id) == litParam {
				return "args", true // the argument vector, whatever it is called
			}
			if id, ok := x.(*ast.Ident); ok {
				if d, ok := ldefs[c.objOf(id)]; ok && depth < 20 {
					depth++
					s := sxWith(d, lsub)
					depth--
					return s, true
				}
			}
			return "", false
		}
		rets := returnsOf(lit.Body)
		if len(rets) != 1 {
			c.R.Unk("vm.switchThreading", "SIBLING-2 "+desc, cc.Pos(), "built-in has %d return statements; normaliser handles single-return built-ins", len(rets))
			continue
		}
		want := sxWith(rets[0].Results[0], lsub)
		// statement shapes: only := definitions, final push / return
		if got == want {
			c.R.OK("vm.switchThreading", "SIBLING-2 "+desc, cc.Pos(), "normal forms equal")
		} else {
			c.R.Bad("vm.switchThreading", "SIBLING-2 "+desc, cc.Pos(), "the VM's inline opcode and the library built-in compute different expressions: handler = %s ; built-in = %s", compact(got), compact(want))
		}
	}
	if len(pairs) < 35 {
		c.R.Bad("vm.intrinsicsCallByValue", "table size", token.NoPos, "only %d intrinsic pairs found (41 confirmed by hand)", len(pairs))
	}
}

func compact(s string) string {
	r := strings.NewReplacer("CallExpr ", "", "SelectorExpr ", "", "IndexExpr ", "", "BinaryExpr ", "", "Fun:", "", "Args:", "", "Sel:", ".", "Index:", "", "UnaryExpr ", "")
	s = r.Replace(s)
	if len(s) > 160 {
		s = s[:160] + "…"
	}
	return s
}

// ---------- SIBLING-3 / LAZY-2 ----------

// iteOfBuiltin abstracts a lazy built-in body to ite(c,t,e) / not(a) over thunk indices.
func (c *Ctx) iteOfBuiltin(lit *ast.FuncLit) string {
	defs := c.localDefs(lit.Body)
	if len(lit.Type.Params.List) == 1 && len(lit.Type.Params.List[0].Names) == 1 {
		defs[c.objOf(lit.Type.Params.List[0].Names[0])] = ast.NewIdent("args") // the argument vector, whatever it is called
	}
	thunk := func(e ast.Expr) string {
		// <args[k].Fun()>.Call()[.Bool().V | .Bool().Vl()]
		s := c.sxInl(e, defs)
		for k := 0; k < 4; k++ {
			call := fmt.Sprintf("(CallExpr Fun:(SelectorExpr (CallExpr Fun:(SelectorExpr (IndexExpr args Index:%d) Sel:Fun)) Sel:Call))", k)
			if s == call || s == "(SelectorExpr (CallExpr Fun:(SelectorExpr "+call+" Sel:Bool)) Sel:V)" || s == "(CallExpr Fun:(SelectorExpr (CallExpr Fun:(SelectorExpr "+call+" Sel:Bool)) Sel:Vl))" {
				return fmt.Sprintf("a%d", k)
			}
		}
		switch s {
		case "(SelectorExpr val Sel:True)":
			return "true"
		case "(SelectorExpr val Sel:False)":
			return "false"
		}
		return "?" + s
	}
	// two paths over one condition (if/else, early return, either polarity), or a single return
	paths, ok := c.retPaths(lit.Body.List)
	if !ok {
		return "?"
	}
	if len(paths) == 1 && paths[0].end == "return" && len(paths[0].conds) == 0 && len(paths[0].ret.Results) == 1 {
		s := c.sxInl(paths[0].ret.Results[0], defs)
		if s == "(CallExpr Fun:(SelectorExpr val Sel:Bool) Args:[(UnaryExpr Op:! (SelectorExpr (CallExpr Fun:(SelectorExpr (IndexExpr args Index:0) Sel:Bool)) Sel:V))])" {
			return "not(a0)"
		}
		return "?"
	}
	if len(paths) != 2 {
		return "?"
	}
	var thenE, elseE, cond ast.Expr
	for _, p := range paths {
		if p.end != "return" || len(p.conds) != 1 || len(p.ret.Results) != 1 {
			return "?"
		}
		ce, pos := unparen(p.conds[0].e), p.conds[0].pos
		for {
			u, isNot := ce.(*ast.UnaryExpr)
			if !isNot || u.Op != token.NOT {
				break
			}
			ce, pos = unparen(u.X), !pos
		}
		if cond == nil {
			cond = ce
		} else if c.sxInl(cond, defs) != c.sxInl(ce, defs) {
			return "?"
		}
		// locals defined on this path only (a temporary holding the forced thunk)
		if pos {
			thenE = p.ret.Results[0]
		} else {
			elseE = p.ret.Results[0]
		}
	}
	if thenE == nil || elseE == nil {
		return "?"
	}
	return "ite(" + thunk(cond) + "," + thunk(thenE) + "," + thunk(elseE) + ")"
}

func (c *Ctx) thunkCallCount(n ast.Node) int {
	k := 0
	ast.Inspect(n, func(x ast.Node) bool {
		if ce, ok := x.(*ast.CallExpr); ok && c.calleeName(ce) == "val.FunVal.Call" && len(ce.Args) == 0 {
			k++
		}
		return true
	})
	return k
}

func ruleSibling3(c *Ctx) {
	c.R.Rule("SIBLING-3", 8, "the four by-need intrinsics compile to the same conditional structure as the lazy library functions: if = ite(a0,a1,a2), && = ite(a0,a1,false), || = ite(a0,true,a1), ! = not(a0); in the library bodies the condition thunk is forced exactly once and first, then exactly the selected operand (LAZY-2)")
	want := map[string]string{"IF_BOOL_ANY_ANY": "ite(a0,a1,a2)", "LOGIC_AND_BOOL_BOOL": "ite(a0,a1,false)", "LOGIC_OR_BOOL_BOOL": "ite(a0,true,a1)", "LOGIC_NOT_BOOL": "not(a0)"}
	// VM side
	vmShape := map[string]string{}
	vmPos := map[string]token.Pos{}
	for _, te := range c.tableEntries("vm", "intrinsicsCallByNeed") {
		func() bool {
			te := te
			fo := c.objOf(te.key)
			lit, _, litBody := c.funcOf(te.val) // a literal or a named function
			if fo == nil || lit == nil {
				return true
			}
			arg := func(e ast.Expr) string {
				s := c.sxN(lit, e)
				for k := 0; k < 4; k++ {
					if s == fmt.Sprintf("(IndexExpr $p2 Index:%d)", k) {
						return fmt.Sprintf("a%d", k)
					}
				}
				if ce, ok := e.(*ast.CallExpr); ok {
					switch c.calleeName(ce) {
					case "parser/ast.True":
						return "true"
					case "parser/ast.False":
						return "false"
					}
				}
				return "?" + s
			}
			shape := "?"
			if len(litBody.List) == 1 {
				if es, ok := litBody.List[0].(*ast.ExprStmt); ok {
					if ce, ok := es.X.(*ast.CallExpr); ok && c.calleeName(ce) == "vm.bytecode.emitCond" && len(ce.Args) == 5 {
						shape = "ite(" + arg(ce.Args[1]) + "," + arg(ce.Args[2]) + "," + arg(ce.Args[3]) + ")"
					}
				}
			} else if len(litBody.List) == 2 {
				s := c.sxN(lit, litBody.List)
				if s == "[(ExprStmt (CallExpr Fun:(SelectorExpr $p1 Sel:compile) Args:[$p0 (IndexExpr $p2 Index:0) $p3])) (ExprStmt (CallExpr Fun:(SelectorExpr $p1 Sel:emitOP) Args:[OP_LOGICAL_NOT]))]" {
					shape = "not(a0)"
				}
			}
			vmShape[fo.Name()] = shape
			vmPos[fo.Name()] = te.pos
			return true
		}()
	}
	var names []string
	for n := range want {
		names = append(names, n)
	}
	sort.Strings(names)
	for _, n := range names {
		lit, _, lazy := c.builtinLit("fun", n)
		if lit == nil {
			c.R.Anchor("fun." + n)
			continue
		}
		lib := c.iteOfBuiltin(lit)
		c.R.Check(lib == want[n], "fun."+n+"$init", "LAZY-2 library body is "+want[n], lit.Pos(), "condition forced once and first, then only the selected operand", "library body abstracts to "+lib)
		if n != "LOGIC_NOT_BOOL" {
			// exactly: 1 thunk call in cond, 1 per non-constant branch
			tc := c.thunkCallCount(lit.Body)
			wantCalls := 1 + strings.Count(want[n], "a1") + strings.Count(want[n], "a2")
			c.R.Check(tc == wantCalls && lazy, "fun."+n+"$init", "LAZY-2 thunk forced once per syntactic operand", lit.Pos(), fmt.Sprintf("%d thunk calls, registered with LazyFun", tc), fmt.Sprintf("%d thunk call sites (expected %d) or not registered lazy: an operand can be evaluated twice or eagerly", tc, wantCalls))
		}
		vs, ok := vmShape[n]
		if !ok {
			c.R.Bad("vm.intrinsicsCallByNeed", "SIBLING-3 "+n+" has a by-need emitter", token.NoPos, "no emitter registered: the VM would call the lazy built-in through CALL_BY_NEED (allowed), review")
			continue
		}
		c.R.Check(vs == want[n], "vm.intrinsicsCallByNeed", "SIBLING-3 "+n+" emitter is "+want[n], vmPos[n], "same conditional structure as the library", "VM emitter abstracts to "+vs+" but the library is "+lib)
	}
	// OP_LOGICAL_NOT and OP_IF_TRUE handlers
	m := c.opcodes()
	if m != nil {
		if cc := m.cases["OP_LOGICAL_NOT"]; cc != nil {
			c.R.Check(c.sxN(m.swFn, cc.Body) == "[(ExprStmt (CallExpr Fun:(SelectorExpr $p0 Sel:Push) Args:[(CallExpr Fun:(SelectorExpr val Sel:Bool) Args:[(UnaryExpr Op:! (SelectorExpr (CallExpr Fun:(SelectorExpr (CallExpr Fun:(SelectorExpr $p0 Sel:Pop)) Sel:Bool)) Sel:V))])]))]", "vm.switchThreading", "SIBLING-3 OP_LOGICAL_NOT negates", cc.Pos(), "push(!pop)", "OP_LOGICAL_NOT is not push(!pop)")
		}
		if cc := m.cases["OP_IF_TRUE"]; cc != nil {
			s := c.sxN(m.swFn, cc.Body)
			okIf := strings.HasPrefix(s, "[(AssignStmt Lhs:[$0 $1] Tok::= Rhs:[(CallExpr Fun:(SelectorExpr $p0 Sel:readMediumInt)") && strings.Contains(s, "(IfStmt Cond:(UnaryExpr Op:! (SelectorExpr (CallExpr Fun:(SelectorExpr (CallExpr Fun:(SelectorExpr $p0 Sel:Pop)) Sel:Bool)) Sel:V)) Body:(BlockStmt [(AssignStmt Lhs:[(SelectorExpr $p0 Sel:pc)] Tok:= Rhs:[$0])]))")
			c.R.Check(okIf, "vm.switchThreading", "SIBLING-3 OP_IF_TRUE jumps to its operand iff the popped condition is false", cc.Pos(), "falls through on true", "OP_IF_TRUE does not jump exactly when the condition is false")
		}
		if cc := m.cases["OP_JUMP"]; cc != nil {
			c.R.Check(strings.HasPrefix(c.sxN(m.swFn, cc.Body), "[(AssignStmt Lhs:[$0 _] Tok::= Rhs:[(CallExpr Fun:(SelectorExpr $p0 Sel:readMediumInt)") && strings.Contains(c.sxN(m.swFn, cc.Body), "(AssignStmt Lhs:[(SelectorExpr $p0 Sel:pc)] Tok:= Rhs:[$0])"), "vm.switchThreading", "SIBLING-3 OP_JUMP sets pc to its operand", cc.Pos(), "unconditional", "OP_JUMP does not set pc to its operand")
		}
	}
}

// ---------- SIBLING-8 ----------

func ruleSibling8(c *Ctx) {
	c.R.Rule("SIBLING-8", 5, "a function value is never called with evaluated arguments unless its Lazy flag was consulted: every FunVal.Call(args...) in a back end is in a function that reads the callee's Lazy flag (or passes the callee to one that does), or executes an opcode whose emitter chose it under the Lazy flag")
	// opcodes emitted under a Lazy test
	lazyOps := map[string]bool{}
	if cis := c.FuncDecl("vm", "bytecode.compileInvokeStatic"); cis != nil {
		defs := c.localDefs(cis.Body)
		inspectNoLit(cis.Body, func(x ast.Node) bool {
			is, ok := x.(*ast.IfStmt)
			if !ok || !strings.Contains(c.sxInl(is.Cond, defs), "Sel:Lazy") {
				return true
			}
			for _, call := range c.allCallsDeepTo(is, "vm.bytecode.emitOP") {
				if o := c.objOf(call.Args[0]); o != nil {
					lazyOps[o.Name()] = true
				}
			}
			// the opcode may be chosen into a local under the flag and emitted afterwards:
			// `op := OP_A; if lazy { op = OP_B }; emitOP(op)` chooses both A and B under the flag
			ast.Inspect(is, func(y ast.Node) bool {
				as, ok := y.(*ast.AssignStmt)
				if !ok || len(as.Lhs) != len(as.Rhs) {
					return true
				}
				for i, l := range as.Lhs {
					if _, isConst := c.objOf(as.Rhs[i]).(*types.Const); !isConst || !strings.HasSuffix(typeStr(c.typeOf(as.Rhs[i])), "vm.opcode") {
						continue
					}
					vo := c.objOf(l)
					if vo == nil {
						continue
					}
					ast.Inspect(cis.Body, func(z ast.Node) bool {
						as2, ok := z.(*ast.AssignStmt)
						if !ok || len(as2.Lhs) != len(as2.Rhs) {
							return true
						}
						for k, l2 := range as2.Lhs {
							if c.objOf(l2) == vo {
								if ko, ok := c.objOf(as2.Rhs[k]).(*types.Const); ok {
									lazyOps[ko.Name()] = true
								}
							}
						}
						return true
					})
				}
				return true
			})
			return true
		})
	}
	readsLazy := func(fd *ast.FuncDecl, callee ast.Expr) bool {
		root := callee
		found := false
		ast.Inspect(fd.Body, func(x ast.Node) bool {
			if se, ok := x.(*ast.SelectorExpr); ok && se.Sel.Name == "Lazy" && sx(se.X) == sx(root) {
				found = true
			}
			// passed to a function that reads <param>.Lazy
			if ce, ok := x.(*ast.CallExpr); ok {
				for i, a := range ce.Args {
					if sx(a) != sx(root) {
						continue
					}
					if o := c.calleeObj(ce); o != nil {
						if cd := c.FuncDecl(short(o.Pkg().Path()), o.Name()); cd != nil {
							k := 0
							for _, f := range cd.Type.Params.List {
								for _, n := range f.Names {
									if k == i {
										ast.Inspect(cd.Body, func(y ast.Node) bool {
											if s2, ok := y.(*ast.SelectorExpr); ok && s2.Sel.Name == "Lazy" && c.objOf(s2.X) == c.objOf(n) {
												found = true
											}
											return true
										})
									}
									k++
								}
							}
						}
					}
				}
			}
			return true
		})
		return found
	}
	for _, sp := range []string{"closure", "interp", "vm"} {
		for _, f := range c.Mod[sp].Syntax {
			for _, d := range f.Decls {
				fd, ok := d.(*ast.FuncDecl)
				if !ok || fd.Body == nil {
					continue
				}
				name := fnName(sp, fd)
				for _, call := range c.allCallsDeepTo(fd.Body, "val.FunVal.Call") {
					if !call.Ellipsis.IsValid() {
						continue // thunk forcing: no arguments
					}
					recv := call.Fun.(*ast.SelectorExpr).X
					desc := "call " + src(call.Fun) + "(args...)"
					ok := readsLazy(fd, recv)
					why := "the callee's Lazy flag is read in this function (or by the helper that builds the arguments)"
					if !ok && sp == "vm" {
						// which opcode is this?
						op := ""
						if name == "vm.switchThreading" {
							m := c.opcodes()
							for k, cc := range m.cases {
								if cc.Pos() <= call.Pos() && call.End() <= cc.End() {
									op = k
								}
							}
						} else if strings.HasSuffix(fd.Name.Name, "_Handler") {
							op = strings.TrimSuffix(fd.Name.Name, "_Handler")
						}
						if lazyOps[op] {
							ok, why = true, "opcode "+op+" is emitted by compileInvokeStatic under the callee's Lazy flag"
						}
						desc = "case " + op + " " + desc
					}
					if ok {
						c.R.OK(name, desc, call.Pos(), "%s", why)
					} else {
						c.R.Bad(name, desc, call.Pos(), "the function value is called with evaluated arguments and nothing consulted its Lazy flag: a lazy function-valued field/variable called dynamically receives values where it expects thunks ((o.f)(true, 42) is a nil dereference in the VM and 42 in the closure back end)")
					}
				}
			}
		}
	}
}

// ---------- LAZY-1 / LAZY-5 ----------

func ruleLazy(c *Ctx) {
	c.R.Rule("LAZY", 4, "lazy functions receive thunks, strict ones values: in each back end's argument builder an argument is evaluated only in the not-Lazy branch and deferred (thunk literal / thunk body) in the Lazy branch; a thunk is a single return of the evaluation, with no state (no caching in one back end only)")
	// closure.makeCallClosure
	// Semantic form (no names of helpers, no if/else shape): in the argument builder F of a back end
	//   - every direct evaluation of an argument happens only where "<callee>.Lazy is false" is known (control dependence,
	//     through every enclosing function literal), exactly one such site;
	//   - every call of a thunk maker (another function of the package that evaluates an argument, directly or inside a
	//     val.Fun literal) and every val.Fun literal that evaluates an argument happens only where ".Lazy is true" is known;
	//   - both kinds of site lie in a loop over the arguments.
	check := func(sp, fn string, evalIs func(call *ast.CallExpr) bool) {
		fd := c.FuncDecl(sp, fn)
		name := sp + "." + fn
		if fd == nil {
			c.R.Anchor(name)
			return
		}
		pk := c.Mod[sp]
		containsEval := func(n ast.Node) bool {
			for _, call := range c.allCallsDeep(n) {
				if evalIs(call) {
					return true
				}
			}
			return false
		}
		makers := map[types.Object]bool{}
		strictHelpers := map[types.Object]bool{} // value: the helper evaluates inside a loop over its argument list
		c.eachFuncDecl(func(p2 *packages.Package, g *ast.FuncDecl) {
			if p2 != pk || g == fd || g.Body == nil {
				return
			}
			o := p2.TypesInfo.Defs[g.Name]
			// the evaluator itself (interp / compile) is not a maker
			isEval := false
			for _, call := range c.allCallsDeep(fd.Body) {
				if evalIs(call) && c.calleeObj(call) == o {
					isEval = true
				}
			}
			if !isEval && containsEval(g.Body) {
				// a helper that evaluates arguments directly (outside any function literal: `evalAll(cs, env)`) is strict
				// evaluation written once for several callers; one that evaluates only inside a literal defers it
				direct, directInLoop := false, false
				inspectNoLit(g.Body, func(x ast.Node) bool {
					if ce, ok := x.(*ast.CallExpr); ok && evalIs(ce) {
						direct = true
						for _, a := range ancestors(g, ce) {
							switch a.(type) {
							case *ast.RangeStmt, *ast.ForStmt:
								directInLoop = true
							}
						}
					}
					return true
				})
				// .. unless what it hands back is itself code to run later (vm.Compiler.Compile compiles the argument into a
				// closure of its own): that is deferral by construction
				returnsCode := false
				if sig, ok := o.Type().(*types.Signature); ok {
					for i := 0; i < sig.Results().Len(); i++ {
						if _, isFn := sig.Results().At(i).Type().Underlying().(*types.Signature); isFn {
							returnsCode = true
						}
					}
				}
				// functions that existed at the pinned commit keep the classification confirmed by reading (all of them defer)
				if direct && !returnsCode && !knownFuncs[fnName(short(p2.PkgPath), g)] {
					strictHelpers[o] = directInLoop
				} else {
					makers[o] = true
				}
			}
		})
		// facts known at a node, through all enclosing literals
		known := func(n ast.Node) (lazyTrue, lazyFalse bool) {
			tcx := c.fnTerms(fd)
			var chain []ast.Node // innermost first
			for _, a := range ancestors(fd, n) {
				switch a.(type) {
				case *ast.FuncDecl, *ast.FuncLit:
					chain = append([]ast.Node{a}, chain...)
				}
			}
			at := n
			for _, f := range chain {
				var body *ast.BlockStmt
				switch ff := f.(type) {
				case *ast.FuncDecl:
					body = ff.Body
				case *ast.FuncLit:
					body = ff.Body
				}
				g := c.buildCFG(body)
				for _, pc := range g.condsAt(at) {
					for _, ct := range conjuncts(tcx.condTerm(pc)) {
						if strings.HasSuffix(ct, ".Lazy") && !strings.HasPrefix(ct, "not(") {
							lazyTrue = true
						}
						if strings.HasPrefix(ct, "not(") && strings.HasSuffix(ct, ".Lazy)") {
							lazyFalse = true
						}
					}
				}
				at = f
			}
			return
		}
		thunkLits := map[*ast.FuncLit]bool{}
		for _, call := range c.allCallsDeepTo(fd.Body, "val.Fun") {
			if len(call.Args) == 2 {
				if lit, ok := call.Args[1].(*ast.FuncLit); ok {
					thunkLits[lit] = true
				}
			}
		}
		inLit := func(n ast.Node) *ast.FuncLit { // innermost val.Fun thunk literal around n, if any
			var found *ast.FuncLit
			for _, a := range ancestors(fd, n) {
				if lit, ok := a.(*ast.FuncLit); ok && thunkLits[lit] {
					found = lit
				}
			}
			return found
		}
		inLoop := func(n ast.Node) bool {
			for _, a := range ancestors(fd, n) {
				switch s := a.(type) {
				case *ast.RangeStmt:
					return true
				case *ast.ForStmt:
					if ls := c.absLoops(s, nil); len(ls) > 0 && ls[0].stmt == ast.Stmt(s) {
						return true
					}
				}
			}
			return false
		}
		isStrictHelper := func(call *ast.CallExpr) bool {
			o := c.calleeObj(call)
			if o == nil {
				return false
			}
			_, ok := strictHelpers[o]
			return ok
		}
		nStrict, nDeferred := 0, 0
		var bad []string
		var first ast.Node = fd
		for _, call := range c.allCallsDeep(fd.Body) {
			switch {
			case evalIs(call) && inLit(call) == nil:
				nStrict++
				first = call
				_, lf := known(call)
				if !lf {
					bad = append(bad, "argument evaluation "+src(call)+" is not confined to the not-Lazy case")
				}
				if !inLoop(call) {
					bad = append(bad, "argument evaluation "+src(call)+" is not in a loop over the arguments")
				}
			case evalIs(call):
				// inside a thunk literal: the literal must be created under Lazy
				nDeferred++
				lt, _ := known(inLit(call))
				if !lt {
					bad = append(bad, "thunk around "+src(call)+" is not created under the Lazy case only")
				}
			case isStrictHelper(call) && inLit(call) != nil:
				// evaluation inside a thunk literal: deferred; the literal must be created under Lazy
				nDeferred++
				lt, _ := known(inLit(call))
				if !lt {
					bad = append(bad, "thunk around "+src(call)+" is not created under the Lazy case only")
				}
			case isStrictHelper(call):
				nStrict++
				first = call
				_, lf := known(call)
				if !lf {
					bad = append(bad, "argument evaluation "+src(call)+" is not confined to the not-Lazy case")
				}
				if !inLoop(call) && !strictHelpers[c.calleeObj(call)] {
					bad = append(bad, "argument evaluation "+src(call)+" is not in a loop over the arguments")
				}
			case makers[c.calleeObj(call)]:
				nDeferred++
				lt, _ := known(call)
				if !lt {
					bad = append(bad, "deferred evaluation "+src(call)+" is not confined to the Lazy case")
				}
				if !inLoop(call) {
					bad = append(bad, "deferred evaluation "+src(call)+" is not in a loop over the arguments")
				}
			}
		}
		c.R.Check(len(bad) == 0 && nStrict == 1 && nDeferred >= 1, name, "LAZY-1 arguments evaluated only when not Lazy, deferred when Lazy", first.Pos(),
			"Lazy: one thunk per argument; strict: one evaluation per argument", "lazy/strict argument discipline broken: "+strings.Join(bad, "; ")+fmt.Sprintf(" (strict evaluation sites=%d, deferred sites=%d)", nStrict, nDeferred))
	}
	check("closure", "makeCallClosure", func(call *ast.CallExpr) bool {
		return c.calleeObj(call) == nil && typeStr(c.typeOf(call.Fun)) == "compiler.Closure"
	})
	check("interp", "interpArgs", func(call *ast.CallExpr) bool { return c.calleeName(call) == "interp.interp" })
	check("vm", "bytecode.compileInvokeStatic", func(call *ast.CallExpr) bool { return c.calleeName(call) == "vm.bytecode.compile" })

	// LAZY-5 thunk literals
	thunkLit := func(sp, fn, evalName string, dyn bool) {
		// every val.Fun(.., literal) in the package (or in the named function, for the VM) whose literal evaluates an argument
		isEval := func(ce *ast.CallExpr) bool {
			if dyn {
				return c.calleeObj(ce) == nil && typeStr(c.typeOf(ce.Fun)) == "compiler.Closure"
			}
			return c.calleeName(ce) == evalName
		}
		name := sp + "." + fn
		n := 0
		c.eachFuncDecl(func(pk *packages.Package, fd *ast.FuncDecl) {
			if short(pk.PkgPath) != sp || fd.Body == nil || (fn != "" && fd.Name.Name != fn) {
				return
			}
			for _, call := range c.allCallsDeepTo(fd.Body, "val.Fun") {
				lit, ok := call.Args[1].(*ast.FuncLit)
				if !ok {
					continue
				}
				has := false
				for _, ce := range c.allCallsDeep(lit.Body) {
					if isEval(ce) {
						has = true
					}
				}
				if !has {
					continue
				}
				n++
				paths, pok := c.retPaths(lit.Body.List)
				okT := pok && len(paths) == 1 && paths[0].end == "return" && len(paths[0].stmts) == 0 && len(paths[0].conds) == 0 && len(paths[0].ret.Results) == 1
				if okT {
					ce, isCall := unparen(paths[0].ret.Results[0]).(*ast.CallExpr)
					okT = isCall && isEval(ce)
				}
				c.R.Check(okT, fnName(sp, fd), "LAZY-5 thunk is a single return of the evaluation", lit.Pos(), "stateless: forcing twice evaluates twice, as in the other back ends", "the thunk keeps state or does more than evaluate (e.g. caches its first value): the number of host-function calls differs between back ends")
			}
		})
		if n == 0 {
			c.R.Bad(name, "LAZY-5 thunk literal", token.NoPos, "no val.Fun(.., func literal) that evaluates an argument found")
		}
	}
	thunkLit("closure", "", "", true)
	thunkLit("interp", "", "interp.interp", false)
	thunkLit("vm", "switchThreading", "vm.VM.call0", false)
}

// mapLiteralOrder (clause of POPORDER-1 for the two back ends without a stack): a map literal evaluates k1, v1, k2, v2, ..
// The VM gets that order from the compiler's emission order plus the reversed pops checked above; the closure compiler and
// the interpreter get it from their own loop. In the MapExpr arm — in the closure it returns, for the closure compiler — all
// run-time evaluations of sub-expressions happen in ONE sweep (a single loop over the pairs), and within one iteration the
// evaluation whose result becomes the key comes first. Two sweeps (all keys, then all values) build the same map but run
// host functions in a different order and let a failing value no longer stop later keys.
func (c *Ctx) mapLiteralOrder() {
	type be struct {
		sp, fn string
		evalIs func(*ast.CallExpr) bool
	}
	for _, b := range []be{
		{"closure", "compile0", func(call *ast.CallExpr) bool {
			return c.calleeObj(call) == nil && typeStr(c.typeOf(call.Fun)) == "compiler.Closure"
		}},
		{"interp", "interp", func(call *ast.CallExpr) bool { return c.calleeName(call) == "interp.interp" }},
	} {
		fd := c.FuncDecl(b.sp, b.fn)
		name := b.sp + "." + b.fn
		if fd == nil {
			c.R.Anchor(name)
			continue
		}
		var arm *ast.CaseClause
		for _, ts := range c.typeSwitches(fd.Body) {
			if cc := c.tsCases(ts)["parser/ast.MapExpr"]; cc != nil && arm == nil {
				arm = cc
			}
		}
		if arm == nil {
			c.R.Unk(name, "map literal evaluated pair by pair, key first", fd.Pos(), "no MapExpr arm found")
			continue
		}
		pk := c.Mod[b.sp]
		// helpers (new functions) that evaluate directly: each call is a sweep of its own
		sweepers := map[types.Object]bool{}
		c.eachFuncDecl(func(p2 *packages.Package, g *ast.FuncDecl) {
			if p2 != pk || g == fd || g.Body == nil || knownFuncs[fnName(short(p2.PkgPath), g)] {
				return
			}
			inspectNoLit(g.Body, func(x ast.Node) bool {
				if ce, ok := x.(*ast.CallExpr); ok && b.evalIs(ce) {
					sweepers[p2.TypesInfo.Defs[g.Name]] = true
				}
				return true
			})
		})
		var region ast.Node = &ast.BlockStmt{List: arm.Body}
		if b.sp == "closure" {
			// the run-time part: the last returned literal of the arm
			var lit *ast.FuncLit
			for _, r := range returnsOf(&ast.BlockStmt{List: arm.Body}) {
				if len(r.Results) == 1 {
					if l, ok := unparen(r.Results[0]).(*ast.FuncLit); ok {
						lit = l
					}
				}
			}
			if lit == nil {
				c.R.Unk(name, "map literal evaluated pair by pair, key first", arm.Pos(), "the arm does not return a closure literal")
				continue
			}
			region = lit.Body
		}
		loopOf := func(n ast.Node) ast.Node {
			var l ast.Node
			for _, a := range ancestors(region, n) {
				switch a.(type) {
				case *ast.RangeStmt, *ast.ForStmt:
					l = a
				}
			}
			return l
		}
		sweeps := map[ast.Node][]*ast.CallExpr{}
		nSweeps := 0
		var order []ast.Node
		for _, call := range c.calls(region) {
			switch {
			case b.evalIs(call):
				l := loopOf(call)
				if l == nil {
					l = call // a single evaluation outside any loop counts as a sweep of its own
				}
				if _, seen := sweeps[l]; !seen {
					nSweeps++
					order = append(order, l)
				}
				sweeps[l] = append(sweeps[l], call)
			case sweepers[c.calleeObj(call)]:
				nSweeps++
				order = append(order, call)
				sweeps[call] = nil
			}
		}
		ok, why := nSweeps == 1, fmt.Sprintf("%d evaluation sweeps over the pairs (expected one loop evaluating key and value of each pair in turn)", nSweeps)
		if ok {
			sites := sweeps[order[0]]
			if len(sites) < 2 {
				ok, why = false, "the loop evaluates only one sub-expression per pair"
			} else {
				// the evaluation that feeds Key() comes first
				feedsKey := func(call *ast.CallExpr) bool {
					for _, a := range ancestors(region, call) {
						if ce, isCall := a.(*ast.CallExpr); isCall && ce != call {
							if se, isSel := ce.Fun.(*ast.SelectorExpr); isSel && se.Sel.Name == "Key" && unparen(se.X) == ast.Expr(call) {
								return true
							}
						}
					}
					// k := eval; .. k.Key()
					var lhs types.Object
					for _, a := range ancestors(region, call) {
						if as, isAs := a.(*ast.AssignStmt); isAs && len(as.Lhs) == 1 && len(as.Rhs) == 1 && unparen(as.Rhs[0]) == ast.Expr(call) {
							lhs = c.objOf(as.Lhs[0])
						}
					}
					if lhs == nil {
						return false
					}
					found := false
					ast.Inspect(region, func(x ast.Node) bool {
						if se, isSel := x.(*ast.SelectorExpr); isSel && se.Sel.Name == "Key" && c.objOf(se.X) == lhs {
							found = true
						}
						return !found
					})
					return found
				}
				first := sites[0]
				for _, s := range sites {
					if s.Pos() < first.Pos() {
						first = s
					}
				}
				if !feedsKey(first) {
					ok, why = false, "the first evaluation in the loop body ("+src(first)+") is not the one whose result becomes the key"
				}
			}
		}
		c.R.Check(ok, name, "map literal evaluated pair by pair, key first", arm.Pos(), "one loop: key, value, store", "map literal "+why+": host functions in keys and values run in a different order than in the other back ends, and a failing value no longer stops the evaluation of later keys")
	}
}
