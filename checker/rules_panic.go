package main

import (
	"fmt"
	"go/ast"
	"go/token"
	"go/types"
	"golang.org/x/tools/go/packages"
	"sort"
	"strings"
)

// PANIC-1: every API entry converts internal panics into its error result.
// ENVCHK-1..4: the environment check precedes evaluation.

func init() {
	reg("PANIC-1", rulePanic1)
	reg("ENVCHK", ruleEnvChk)
}

type fnBody struct {
	name string // "yae.Eval", "yae.Expr.makeCallable$lit"
	typ  *ast.FuncType
	body *ast.BlockStmt
	pos  token.Pos
}

// std functions that cannot panic for any argument (frozen, one symbol each).
var panicSafeStd = map[string]string{
	"fmt.Errorf":       "formats; never panics (verbs on bad args render %!v)",
	"fmt.Sprintf":      "formats; never panics",
	"errors.New":       "allocates",
	"strings.Contains": "pure string search",
	"reflect.ValueOf":  "total for every interface value incl. nil",
	"reflect.TypeOf":   "total for every interface value incl. nil",
	"time.Since":       "pure",
}

var panicSafeBuiltin = map[string]bool{"len": true, "cap": true, "append": true, "make": true, "new": true, "copy": true, "delete": true, "recover": true, "min": true, "max": true}

// frozen exceptions: uncovered calls accepted with a reason (exactly one callee symbol in one caller).
var panicFrozen = map[string]string{
	"yae.Debug|debug.Record.Render": "renderer only slices lines it has itself padded to the column (placeString pads before replace); source is checked to be single-line on entry; values were produced by a successful evaluation",
}

type panicAnalysis struct {
	c         *Ctx
	decls     map[types.Object]*ast.FuncDecl
	memo      map[*ast.BlockStmt]int // 0 unknown, 1 in progress/ok, 2 ok, 3 not contained
	why       map[*ast.BlockStmt]string
	callables []*fnBody // literals returned as yae.Callable
}

func newPanicAnalysis(c *Ctx) *panicAnalysis {
	pa := &panicAnalysis{c: c, decls: map[types.Object]*ast.FuncDecl{}, memo: map[*ast.BlockStmt]int{}, why: map[*ast.BlockStmt]string{}}
	for _, pk := range c.sortedMod() {
		for _, f := range pk.Syntax {
			for _, d := range f.Decls {
				if fd, ok := d.(*ast.FuncDecl); ok && fd.Body != nil {
					pa.decls[pk.TypesInfo.Defs[fd.Name]] = fd
				}
			}
		}
	}
	return pa
}

// callsRecover: body calls builtin recover() directly (not in a nested literal).
func (pa *panicAnalysis) callsRecover(body *ast.BlockStmt) bool {
	return len(pa.c.callsTo(body, "builtin.recover")) > 0
}

// handlerDefers returns the defer statements of body that install a panic handler which stores into a named error result.
func (pa *panicAnalysis) handlerDefers(fb *fnBody) (ok []*ast.DeferStmt, weak []*ast.DeferStmt) {
	c := pa.c
	namedErr := map[types.Object]bool{}
	if fb.typ.Results != nil {
		for _, f := range fb.typ.Results.List {
			for _, n := range f.Names {
				if o := c.objOf(n); o != nil && typeStr(o.Type()) == "error" {
					namedErr[o] = true
				}
			}
		}
	}
	inspectNoLit(fb.body, func(x ast.Node) bool {
		d, isDefer := x.(*ast.DeferStmt)
		if !isDefer {
			return true
		}
		if lit, isLit := d.Call.Fun.(*ast.FuncLit); isLit {
			if !pa.callsRecover(lit.Body) {
				return true
			}
			assigns := false
			ast.Inspect(lit.Body, func(y ast.Node) bool {
				if as, ok := y.(*ast.AssignStmt); ok {
					for _, l := range as.Lhs {
						if id, ok := l.(*ast.Ident); ok && namedErr[c.objOf(id)] {
							assigns = true
						}
					}
				}
				return true
			})
			if assigns {
				ok = append(ok, d)
			} else {
				weak = append(weak, d)
			}
			return true
		}
		fd := pa.decls[c.calleeObj(d.Call)]
		if fd == nil || !pa.callsRecover(fd.Body) {
			return true
		}
		given := false
		for _, a := range d.Call.Args {
			if u, isU := a.(*ast.UnaryExpr); isU && u.Op == token.AND {
				if id, isID := u.X.(*ast.Ident); isID && namedErr[c.objOf(id)] {
					given = true
				}
			}
		}
		if given {
			ok = append(ok, d)
		} else {
			weak = append(weak, d)
		}
		return true
	})
	return
}

type panicSite struct {
	node ast.Node
	desc string
	why  string // "" = fine
	note string
}

// sites enumerates may-panic operations of a body and classifies each.
func (pa *panicAnalysis) sites(fb *fnBody) []panicSite {
	c := pa.c
	g := c.buildCFG(fb.body)
	handlers, _ := pa.handlerDefers(fb)
	covered := func(n ast.Node) bool {
		for _, h := range handlers {
			if g.dominates(h, n) {
				return true
			}
		}
		return false
	}
	okForm := map[ast.Node]bool{} // v, ok := x.(T)  /  v, ok := m[k]
	inspectNoLit(fb.body, func(x ast.Node) bool {
		switch s := x.(type) {
		case *ast.AssignStmt:
			if len(s.Lhs) == 2 && len(s.Rhs) == 1 {
				okForm[unparen(s.Rhs[0])] = true
			}
		case *ast.ValueSpec:
			if len(s.Names) == 2 && len(s.Values) == 1 {
				okForm[unparen(s.Values[0])] = true
			}
		case *ast.TypeSwitchStmt:
			if e := tsScrutinee(s); e != nil {
				switch a := s.Assign.(type) {
				case *ast.AssignStmt:
					okForm[unparen(a.Rhs[0])] = true
				case *ast.ExprStmt:
					okForm[unparen(a.X)] = true
				}
			}
		}
		return true
	})
	deferred := map[*ast.CallExpr]bool{}
	inspectNoLit(fb.body, func(x ast.Node) bool {
		if d, ok := x.(*ast.DeferStmt); ok {
			deferred[d.Call] = true
		}
		return true
	})
	var out []panicSite
	inspectNoLit(fb.body, func(x ast.Node) bool {
		switch n := x.(type) {
		case *ast.CallExpr:
			if deferred[n] {
				return true // runs at exit; handlers themselves are trusted to be total
			}
			name := c.calleeName(n)
			desc := "call " + name
			if name == "" {
				desc = "call " + src(n.Fun)
			}
			s := panicSite{node: n, desc: desc}
			switch {
			case covered(n):
				s.note = "dominated by a recover handler that stores into the error result"
			default:
				s.why, s.note = pa.uncoveredCall(fb, n, name)
			}
			out = append(out, s)
		case *ast.TypeAssertExpr:
			if n.Type == nil || okForm[n] {
				return true
			}
			s := panicSite{node: n, desc: "type assertion " + src(n)}
			if covered(n) {
				s.note = "covered"
			} else {
				s.why = "single-value type assertion outside any recover handler"
			}
			out = append(out, s)
		case *ast.IndexExpr:
			t := c.typeOf(n.X)
			if t == nil {
				return true
			}
			switch t.Underlying().(type) {
			case *types.Map, *types.Signature:
				return true
			}
			if _, isTypeArg := c.infoAt(n).Instances[identOf(n.X)]; isTypeArg {
				return true
			}
			s := panicSite{node: n, desc: "index " + src(n)}
			if covered(n) {
				s.note = "covered"
			} else {
				s.why = "index expression outside any recover handler"
			}
			out = append(out, s)
		case *ast.SliceExpr:
			s := panicSite{node: n, desc: "slice " + src(n)}
			if covered(n) {
				s.note = "covered"
			} else {
				s.why = "slice expression outside any recover handler"
			}
			out = append(out, s)
		case *ast.BinaryExpr:
			if n.Op == token.QUO || n.Op == token.REM {
				if bt, ok := c.typeOf(n).Underlying().(*types.Basic); ok && bt.Info()&types.IsInteger != 0 && c.constOf(n.Y) == nil {
					s := panicSite{node: n, desc: "integer division " + src(n)}
					if covered(n) {
						s.note = "covered"
					} else {
						s.why = "integer division outside any recover handler"
					}
					out = append(out, s)
				}
			}
		}
		return true
	})
	return out
}

func identOf(e ast.Expr) *ast.Ident {
	switch x := e.(type) {
	case *ast.Ident:
		return x
	case *ast.SelectorExpr:
		return x.Sel
	}
	return nil
}

// uncoveredCall decides whether a call outside every handler is still safe.
func (pa *panicAnalysis) uncoveredCall(fb *fnBody, n *ast.CallExpr, name string) (why, note string) {
	c := pa.c
	// conversion
	if tv, ok := c.infoAt(n).Types[n.Fun]; ok && tv.IsType() {
		return "", "conversion"
	}
	if strings.HasPrefix(name, "builtin.") {
		if panicSafeBuiltin[strings.TrimPrefix(name, "builtin.")] {
			return "", "total builtin"
		}
		return name + " outside any recover handler", ""
	}
	if r, ok := panicSafeStd[name]; ok {
		return "", "frozen std leaf: " + r
	}
	if r, ok := panicFrozen[fb.name+"|"+name]; ok {
		if bad := pa.frozenSideCondition(fb, n); bad != "" {
			return "frozen exception " + name + " no longer justified: " + bad, ""
		}
		return "", "frozen exception: " + r + " (side condition re-checked: every explicit failure site in the callee's package reachable from it asserts the negation of a guard that dominates this call)"
	}
	if obj := c.calleeObj(n); obj != nil {
		if fd := pa.decls[obj]; fd != nil {
			sub := &fnBody{name: qual(obj), typ: fd.Type, body: fd.Body, pos: fd.Pos()}
			if pa.contained(sub) {
				return "", "callee " + qual(obj) + " is itself panic-contained"
			}
			return fmt.Sprintf("callee %s may panic (%s) and the call is outside any recover handler", qual(obj), pa.why[fd.Body]), ""
		}
		return fmt.Sprintf("callee %s is outside the module and not in the frozen leaf table; call is outside any recover handler", name), ""
	}
	// dynamic call: value of type yae.Callable -> the Callable literals
	if t := c.typeOf(n.Fun); t != nil && typeStr(t) == "yae.Callable" {
		if len(pa.callables) == 0 {
			return "dynamic call of a Callable but no Callable literal was found", ""
		}
		for _, cl := range pa.callables {
			if !pa.contained(cl) {
				return fmt.Sprintf("dynamic call of a Callable; the literal %s may panic (%s)", cl.name, pa.why[cl.body]), ""
			}
		}
		return "", "Callable literals are panic-contained"
	}
	return "dynamic call " + src(n.Fun) + " outside any recover handler", ""
}

// contained: no may-panic operation of the body escapes a handler (coinductive over recursion).
func (pa *panicAnalysis) contained(fb *fnBody) bool {
	switch pa.memo[fb.body] {
	case 1, 2:
		return true
	case 3:
		return false
	}
	pa.memo[fb.body] = 1
	for _, s := range pa.sites(fb) {
		if s.why != "" {
			pa.memo[fb.body] = 3
			pa.why[fb.body] = s.desc + ": " + s.why
			return false
		}
	}
	pa.memo[fb.body] = 2
	return true
}

// apiEntries discovers the entry set: exported functions/methods with an error result in yae, conv, types, ext
// (Must* excluded by contract), plus function literals returned where the result type is a func type with an error result.
func (pa *panicAnalysis) apiEntries() []*fnBody {
	c := pa.c
	var out []*fnBody
	hasErr := func(ft *ast.FuncType) bool {
		if ft.Results == nil {
			return false
		}
		for _, f := range ft.Results.List {
			if t := c.typeOf(f.Type); t != nil && typeStr(t) == "error" {
				return true
			}
		}
		return false
	}
	for _, sp := range []string{"yae", "conv", "types", "ext"} {
		pk := c.Mod[sp]
		if pk == nil {
			c.R.Anchor("package " + sp)
			continue
		}
		for _, f := range pk.Syntax {
			for _, d := range f.Decls {
				fd, ok := d.(*ast.FuncDecl)
				if !ok || fd.Body == nil {
					continue
				}
				name := fnName(sp, fd)
				if fd.Name.IsExported() && !strings.HasPrefix(fd.Name.Name, "Must") && hasErr(fd.Type) {
					out = append(out, &fnBody{name: name, typ: fd.Type, body: fd.Body, pos: fd.Pos()})
				}
				// returned literals with an error result
				for _, r := range returnsOf(fd.Body) {
					for _, res := range r.Results {
						if lit, ok := unparen(res).(*ast.FuncLit); ok && hasErr(lit.Type) {
							fb := &fnBody{name: name + "$lit", typ: lit.Type, body: lit.Body, pos: lit.Pos()}
							out = append(out, fb)
							if fd.Type.Results != nil && len(fd.Type.Results.List) == 1 {
								if t := c.typeOf(fd.Type.Results.List[0].Type); t != nil && typeStr(t) == "yae.Callable" {
									pa.callables = append(pa.callables, fb)
								}
							}
						}
					}
				}
			}
		}
	}
	// the unexported environment check is an entry too (ENVCHK-4): its failure must come back as error
	if fd := c.FuncDecl("yae", "Expr.envCheck"); fd != nil {
		out = append(out, &fnBody{name: "yae.Expr.envCheck", typ: fd.Type, body: fd.Body, pos: fd.Pos()})
	} else {
		c.R.Anchor("yae.Expr.envCheck")
	}
	sort.SliceStable(out, func(i, j int) bool { return out[i].name < out[j].name })
	return out
}

func rulePanic1(c *Ctx) {
	c.R.Rule("PANIC-1", 45, "every API entry (exported func with an error result in yae/conv/types/ext, the Callable literal, the SQL closure, envCheck) converts internal panics to its error result: each may-panic call/operation is dominated by a defer whose function calls recover() and stores into the named error result, or targets a callee that is itself contained")
	pa := newPanicAnalysis(c)
	entries := pa.apiEntries()
	nEntries := 0
	for _, e := range entries {
		nEntries++
		_, weak := pa.handlerDefers(e)
		for _, w := range weak {
			c.R.Bad(e.name, "handler "+src(w.Call.Fun), w.Pos(), "deferred function recovers but is not given / does not assign the named error result: the panic would be swallowed and (nil, nil) returned")
		}
		sites := pa.sites(e)
		bad := 0
		for _, s := range sites {
			if s.why != "" {
				bad++
				c.R.Bad(e.name, s.desc, s.node.Pos(), "%s", s.why)
			} else {
				c.R.OK(e.name, s.desc, s.node.Pos(), "%s", s.note)
			}
		}
		c.R.Check(bad == 0, e.name, "entry contained", e.pos,
			fmt.Sprintf("all %d may-panic sites covered or safe", len(sites)),
			fmt.Sprintf("%d of %d may-panic sites escape the recover handler", bad, len(sites)))
	}
	if nEntries < 11 {
		c.R.Bad("yae", "entry set", token.NoPos, "only %d API entries discovered, 11 confirmed by hand (Eval, Debug, Compile, Callable literal, TypeOf, ValOf, TypeEnvOf, ValEnvOf, Infer, CompileToSql literal, envCheck)", nEntries)
	}
	if len(pa.callables) < 1 {
		c.R.Bad("yae", "Callable literal", token.NoPos, "no function literal returned as yae.Callable found")
	}
}

// ---------------- ENVCHK ----------------

func ruleEnvChk(c *Ctx) {
	c.R.Rule("ENVCHK", 4, "the compiled closure is called only after envCheck(compile-time env, run-time env) returned nil; envCheck iterates the compile-time env and asserts presence and types.Equals for every name")

	// ENVCHK-0: the closure that is bound to a compile-time environment was compiled against that very environment. envCheck
	// compares the run-time data with env0; that protects the compiled code only if the code's typing assumptions are env0's.
	// At every call makeCallable(X, E): X is the result of CompileExpr(_, E) in the same function, with the same variable E.
	n0 := 0
	c.eachFuncDecl(func(pk *packages.Package, fd *ast.FuncDecl) {
		if fd.Body == nil || short(pk.PkgPath) != "yae" {
			return
		}
		calls := c.callsTo(fd.Body, "yae.Expr.makeCallable")
		if len(calls) == 0 {
			return
		}
		owner := fnName("yae", fd)
		// every value a variable can hold (all assignments), not just a single definition
		vals := map[types.Object][]ast.Expr{}
		ast.Inspect(fd.Body, func(x ast.Node) bool {
			if as, ok := x.(*ast.AssignStmt); ok {
				for i, l := range as.Lhs {
					if o := c.objOf(l); o != nil {
						if len(as.Lhs) == len(as.Rhs) {
							vals[o] = append(vals[o], as.Rhs[i])
						} else {
							vals[o] = append(vals[o], as.Rhs[0])
						}
					}
				}
			}
			return true
		})
		for _, call := range calls {
			if len(call.Args) != 2 {
				continue
			}
			n0++
			envObj := c.objOf(call.Args[1])
			ok, why := envObj != nil, "the environment argument is not a variable"
			var srcs []ast.Expr
			if id, isID := unparen(call.Args[0]).(*ast.Ident); isID {
				srcs = vals[c.objOf(id)]
			} else {
				srcs = []ast.Expr{call.Args[0]}
			}
			if len(srcs) == 0 {
				ok, why = false, "the closure argument has no visible definition"
			}
			for _, e := range srcs {
				ce, isCall := unparen(e).(*ast.CallExpr)
				if !isCall || c.calleeName(ce) != "yae.Expr.CompileExpr" || len(ce.Args) != 2 || c.objOf(ce.Args[1]) != envObj {
					ok, why = false, "the closure can be "+src(e)+", which is not CompileExpr(.., "+src(call.Args[1])+")"
				}
			}
			c.R.Check(ok, owner, "closure bound to the environment it was compiled against", call.Pos(), "makeCallable(CompileExpr(_, env), env)", why+": code specialised to one type environment (resolved overloads, typed opcodes, unchecked casts) is guarded by an envCheck against another")
		}
	})
	c.R.Check(n0 >= 1, "yae", "makeCallable call sites found", token.NoPos, fmt.Sprintf("%d", n0), "no call of makeCallable found")

	// ENVCHK-1: Callable literal
	mk := c.FuncDecl("yae", "Expr.makeCallable")
	if mk == nil {
		c.R.Anchor("yae.Expr.makeCallable")
	} else {
		var lit *ast.FuncLit
		for _, r := range returnsOf(mk.Body) {
			for _, res := range r.Results {
				if l, ok := unparen(res).(*ast.FuncLit); ok {
					lit = l
				}
			}
		}
		if lit == nil {
			c.R.Anchor("Callable literal in makeCallable")
		} else {
			// compile-time env = the *types.Env parameter of makeCallable
			var ctEnv types.Object
			for _, f := range mk.Type.Params.List {
				if typeStr(c.typeOf(f.Type)) == "*types.Env" && len(f.Names) == 1 {
					ctEnv = c.objOf(f.Names[0])
				}
			}
			envChkOrder(c, "yae.Expr.makeCallable$lit", lit.Body, "compiler.Closure", ctEnv)
		}
	}
	// ENVCHK-2: Debug
	if dbg := c.FuncDecl("yae", "Debug"); dbg == nil {
		c.R.Anchor("yae.Debug")
	} else {
		envChkOrder(c, "yae.Debug", dbg.Body, "yae.Callable", nil)
	}
	// ENVCHK-3: shape of envCheck
	ec := c.FuncDecl("yae", "Expr.envCheck")
	if ec == nil {
		c.R.Anchor("yae.Expr.envCheck")
		return
	}
	var tyEnv, vlEnv types.Object
	for _, f := range ec.Type.Params.List {
		for _, n := range f.Names {
			switch typeStr(c.typeOf(f.Type)) {
			case "*types.Env":
				tyEnv = c.objOf(n)
			case "*val.Env":
				vlEnv = c.objOf(n)
			}
		}
	}
	fe := c.callsTo(ec.Body, "types.Env.ForEach")
	if len(fe) != 1 || tyEnv == nil || vlEnv == nil {
		c.R.Bad("yae.Expr.envCheck", "iterates compile-time env", ec.Pos(), "expected exactly one types.Env.ForEach call over the *types.Env parameter (found %d)", len(fe))
		return
	}
	call := fe[0]
	recvOK := false
	if se, ok := call.Fun.(*ast.SelectorExpr); ok {
		recvOK = c.objOf(se.X) == tyEnv
	}
	c.R.Check(recvOK, "yae.Expr.envCheck", "iterates compile-time env", call.Pos(),
		"ForEach receiver is the *types.Env parameter: every compile-time name is visited, extra run-time names are ignored",
		"ForEach receiver is not the compile-time environment parameter")
	cb, _ := call.Args[0].(*ast.FuncLit)
	if cb == nil || len(cb.Type.Params.List) < 1 {
		c.R.Unk("yae.Expr.envCheck", "callback", call.Pos(), "ForEach argument is not a function literal")
		return
	}
	var cbNames []types.Object
	for _, f := range cb.Type.Params.List {
		for _, n := range f.Names {
			cbNames = append(cbNames, c.objOf(n))
		}
	}
	if len(cbNames) != 2 {
		c.R.Unk("yae.Expr.envCheck", "callback", cb.Pos(), "callback does not have (name, type) parameters")
		return
	}
	nameP, typeP := cbNames[0], cbNames[1]
	// v, ok := env.Get(name)
	var vObj, okObj types.Object
	var getPos token.Pos
	ast.Inspect(cb.Body, func(x ast.Node) bool {
		as, ok := x.(*ast.AssignStmt)
		if !ok || len(as.Lhs) != 2 || len(as.Rhs) != 1 {
			return true
		}
		ce, ok := as.Rhs[0].(*ast.CallExpr)
		if !ok || c.calleeName(ce) != "val.Env.Get" || len(ce.Args) != 1 {
			return true
		}
		se := ce.Fun.(*ast.SelectorExpr)
		if c.objOf(se.X) == vlEnv && c.objOf(ce.Args[0]) == nameP {
			vObj, okObj = c.objOf(as.Lhs[0]), c.objOf(as.Lhs[1])
			getPos = ce.Pos()
		}
		return true
	})
	c.R.Check(vObj != nil, "yae.Expr.envCheck", "looks the name up in the run-time env", cb.Pos(),
		"v, ok := <run-time env>.Get(<callback name>)", "no lookup of the callback's name in the *val.Env parameter")
	presence, equal := false, false
	for _, a := range c.asserted(cb.Body) {
		if a.node.Pos() < getPos {
			continue
		}
		if okObj != nil && c.objOf(a.cond) == okObj {
			presence = true
		}
		if eq, ok := unparen(a.cond).(*ast.CallExpr); ok && c.calleeName(eq) == "types.Equals" && len(eq.Args) == 2 {
			isTyP := func(e ast.Expr) bool { return c.objOf(e) == typeP }
			isVT := func(e ast.Expr) bool {
				se, ok := unparen(e).(*ast.SelectorExpr)
				return ok && se.Sel.Name == "Type" && vObj != nil && c.objOf(se.X) == vObj
			}
			if (isTyP(eq.Args[0]) && isVT(eq.Args[1])) || (isTyP(eq.Args[1]) && isVT(eq.Args[0])) {
				equal = true
			}
		}
	}
	c.R.Check(presence, "yae.Expr.envCheck", "asserts presence", cb.Pos(), "util.Assert(ok, ..) on the lookup result", "missing names are not rejected: no util.Assert on the lookup's ok result")
	c.R.Check(equal, "yae.Expr.envCheck", "asserts type equality", cb.Pos(), "util.Assert(types.Equals(<compile-time type>, v.Type))", "no util.Assert(types.Equals(compile-time type, run-time value's Type))")
}

// envChkOrder: in body, the call of a value of type evalType is dominated by envCheck whose error is tested and returned.
func envChkOrder(c *Ctx, fn string, body *ast.BlockStmt, evalType string, ctEnv types.Object) {
	g := c.buildCFG(body)
	var evals []*ast.CallExpr
	for _, call := range c.calls(body) {
		if c.calleeObj(call) == nil {
			if t := c.typeOf(call.Fun); t != nil && typeStr(t) == evalType {
				evals = append(evals, call)
			}
		}
	}
	checks := c.callsTo(body, "yae.Expr.envCheck")
	if len(evals) == 0 {
		c.R.Bad(fn, "evaluation call", body.Pos(), "no call of a %s value found", evalType)
		return
	}
	for _, ev := range evals {
		desc := "call " + src(ev.Fun) + " after envCheck"
		var chk *ast.CallExpr
		for _, k := range checks {
			if g.dominates(k, ev) {
				chk = k
			}
		}
		if chk == nil {
			c.R.Bad(fn, desc, ev.Pos(), "evaluation is not dominated by a call to envCheck: a mismatching environment would be evaluated")
			continue
		}
		// err = envCheck(..) ; if err != nil { return .. }
		var errObj types.Object
		inspectNoLit(body, func(x ast.Node) bool {
			if as, ok := x.(*ast.AssignStmt); ok && len(as.Rhs) == 1 && unparen(as.Rhs[0]) == ast.Expr(chk) && len(as.Lhs) == 1 {
				errObj = c.objOf(as.Lhs[0])
			}
			return true
		})
		tested := false
		inspectNoLit(body, func(x ast.Node) bool {
			is, ok := x.(*ast.IfStmt)
			if !ok || errObj == nil {
				return true
			}
			be, ok := unparen(is.Cond).(*ast.BinaryExpr)
			if !ok || be.Op != token.NEQ || c.objOf(be.X) != errObj || src(be.Y) != "nil" {
				return true
			}
			if len(is.Body.List) == 0 {
				return true
			}
			if _, isRet := is.Body.List[len(is.Body.List)-1].(*ast.ReturnStmt); !isRet {
				return true
			}
			if g.dominates(chk, is.Cond) && g.dominates(is.Cond, ev) && !(is.Body.Pos() <= ev.Pos() && ev.End() <= is.Body.End()) {
				// no re-assignment of err between check and test
				clean := true
				inspectNoLit(body, func(y ast.Node) bool {
					if as, ok := y.(*ast.AssignStmt); ok {
						for _, l := range as.Lhs {
							if c.objOf(l) == errObj && as.Pos() > chk.End() && as.End() < is.Pos() {
								clean = false
							}
						}
					}
					return true
				})
				if clean {
					tested = true
				}
			}
			return true
		})
		if !tested {
			c.R.Bad(fn, desc, ev.Pos(), "envCheck is called but its error is not tested with `if err != nil { return }` before the evaluation")
			continue
		}
		// argument agreement: envCheck(<compile env>, X) and eval(X or X.Inherit(..))
		okArgs := len(chk.Args) == 2
		why := "envCheck result tested and returned before the evaluation"
		if okArgs && ctEnv != nil && c.objOf(chk.Args[0]) != ctEnv {
			okArgs = false
			why = "first argument of envCheck is not the compile-time environment captured by makeCallable"
		}
		if okArgs && len(ev.Args) == 1 {
			rtObj := c.objOf(chk.Args[1])
			root := rootLocal(c, body, ev.Args[0])
			if rtObj == nil || root != rtObj {
				okArgs = false
				why = fmt.Sprintf("the environment that is evaluated (%s) is not the one that was checked (%s)", src(ev.Args[0]), src(chk.Args[1]))
			}
		}
		c.R.Check(okArgs, fn, desc, ev.Pos(), why, why)
	}
}

// rootLocal follows `x := y.M(..)` / `x := y` single definitions back to the first identifier.
func rootLocal(c *Ctx, body *ast.BlockStmt, e ast.Expr) types.Object {
	for i := 0; i < 5; i++ {
		o := c.objOf(e)
		if o == nil {
			return nil
		}
		var def ast.Expr
		n := 0
		inspectNoLit(body, func(x ast.Node) bool {
			if as, ok := x.(*ast.AssignStmt); ok && len(as.Lhs) == len(as.Rhs) {
				for i, l := range as.Lhs {
					if c.objOf(l) == o {
						n++
						def = as.Rhs[i]
					}
				}
			}
			return true
		})
		if n != 1 {
			return o
		}
		switch d := unparen(def).(type) {
		case *ast.Ident:
			e = d
		case *ast.CallExpr:
			se, ok := d.Fun.(*ast.SelectorExpr)
			if !ok {
				return o
			}
			if nm := c.calleeName(d); nm != "val.Env.Inherit" && nm != "types.Env.Inherit" {
				return o
			}
			e = se.X
		default:
			return o
		}
	}
	return nil
}

// frozenSideCondition re-establishes, on every run, why an uncovered call to a frozen callee cannot fail through an
// explicit failure site: every util.Assert / panic / Unreachable / MustCompile(non-constant) in the module functions
// reachable from the callee must assert a condition that, written in terms of the caller's arguments, is the negation of
// the condition of an `if cond { return … }` guard that precedes the call at the top level of the caller.
// Returns "" when justified.
func (pa *panicAnalysis) frozenSideCondition(fb *fnBody, n *ast.CallExpr) string {
	c := pa.c
	// guards of the caller: top-level `if cond { …; return }` statements before the statement containing n
	var guards []string
	for _, st := range fb.body.List {
		if st.Pos() <= n.Pos() && n.End() <= st.End() {
			break
		}
		is, ok := st.(*ast.IfStmt)
		if !ok || is.Init != nil || is.Else != nil || len(is.Body.List) == 0 {
			continue
		}
		if _, isRet := is.Body.List[len(is.Body.List)-1].(*ast.ReturnStmt); isRet {
			guards = append(guards, sx(unparen(is.Cond)))
		}
	}
	subst := map[types.Object]ast.Expr{}
	seen := map[*ast.FuncDecl]bool{}
	var bad string
	var rootPkg *types.Package
	if o := c.calleeObj(n); o != nil {
		rootPkg = o.Pkg()
	}
	var visit func(fd *ast.FuncDecl, call *ast.CallExpr, depth int)
	visit = func(fd *ast.FuncDecl, call *ast.CallExpr, depth int) {
		if fd == nil || bad != "" {
			return
		}
		// bind parameters to the argument expressions of this call (first visit wins; a second call site with other
		// arguments makes the binding ambiguous and is reported)
		var params []types.Object
		if fd.Type.Params != nil {
			for _, f := range fd.Type.Params.List {
				for _, nm := range f.Names {
					params = append(params, c.objOf(nm))
				}
			}
		}
		if seen[fd] {
			for i, p := range params {
				if i < len(call.Args) && p != nil {
					if prev, ok := subst[p]; ok && c.sxInl(prev, subst) != c.sxInl(call.Args[i], subst) {
						delete(subst, p)
					}
				}
			}
			return
		}
		seen[fd] = true
		if depth > 12 {
			bad = "call chain too deep"
			return
		}
		if len(call.Args) == len(params) {
			for i, p := range params {
				if p != nil {
					subst[p] = call.Args[i]
				}
			}
		}
		inspectNoLit(fd.Body, func(x ast.Node) bool {
			ce, ok := x.(*ast.CallExpr)
			if !ok || bad != "" {
				return true
			}
			nm := c.calleeName(ce)
			switch {
			case nm == "util.Assert" && len(ce.Args) > 0:
				cond := unparen(ce.Args[0])
				justified := false
				if u, ok := cond.(*ast.UnaryExpr); ok && u.Op == token.NOT {
					got := c.sxInl(unparen(u.X), subst)
					for _, g := range guards {
						if g == got {
							justified = true
						}
					}
				}
				if !justified {
					bad = fmt.Sprintf("%s asserts %s at %s, which is not the negation of a guard that precedes the call (guards: %d); a failing assertion here escapes as a panic", fd.Name.Name, src(cond), c.pos(ce.Pos()), len(guards))
				}
			case nm == "builtin.panic" || nm == "util.Unreachable":
				bad = fmt.Sprintf("%s has an explicit failure site %s at %s outside any handler", fd.Name.Name, src(ce), c.pos(ce.Pos()))
			case nm == "regexp.MustCompile" && (len(ce.Args) != 1 || c.constOf(ce.Args[0]) == nil):
				bad = fmt.Sprintf("regexp.MustCompile of a non-constant pattern at %s outside any handler", c.pos(ce.Pos()))
			default:
				// stay inside the callee's own package: value rendering (val.String and below) has only the
				// exhaustive-switch defaults that KINDSW decides
				if obj := c.calleeObj(ce); obj != nil && obj.Pkg() == rootPkg {
					if sub := pa.decls[obj]; sub != nil {
						visit(sub, ce, depth+1)
					}
				}
			}
			return true
		})
	}
	root := pa.decls[c.calleeObj(n)]
	if root == nil {
		return "callee not found in the module"
	}
	visit(root, n, 0)
	return bad
}
