// yaecheck: repository-specific static checker for goghcrow/yae.
// Decides structural necessary conditions of the properties C01..C20 from /repo's current source; nothing is executed.
package main

import (
	"flag"
	"fmt"
	"go/ast"
	"os"
	"path/filepath"
	"runtime/debug"
	"sort"
	"strconv"
	"strings"
	"time"

	"golang.org/x/tools/go/packages"
)

var repoDir string

// Ctx is what a rule sees.
type Ctx struct {
	*Prog
	R        *Report
	Thorough bool
}

type ruleFn func(c *Ctx)

type propSpec struct {
	rules       []string
	explanation string
	notCovered  string
	assumptions []string
}

var ruleTable = map[string]ruleFn{}

func reg(id string, f ruleFn) { ruleTable[id] = f }

func main() {
	repo := flag.String("repo", "/repo", "repository root")
	prop := flag.String("property", "", "property id (C01..C20) or 'all'")
	tier := flag.String("tier", "quick", "quick|thorough")
	evidence := flag.String("evidence", "", "evidence file to write")
	knownPath := flag.String("known", "", "known_findings.json")
	only := flag.String("only", "", "report only this obligation key")
	ruleOnly := flag.String("rule", "", "run a single rule (debugging)")
	list := flag.Bool("list", false, "list all obligations")
	multi := flag.String("multi", "", "checker validation only: comma-separated properties (or 'all') run against ONE load of the repository; prints `RESULT <id> exit=<n>` per property; no evidence is written")
	flag.Parse()
	if os.Getenv("YAE_DUMPFUNCS") != "" {
		abs, _ := filepath.Abs(*repo)
		prog, err := loadProg(abs)
		if err != nil {
			fmt.Fprintln(os.Stderr, err)
			os.Exit(2)
		}
		var names []string
		prog.eachFuncDecl(func(pk *packages.Package, fd *ast.FuncDecl) { names = append(names, fnName(short(pk.PkgPath), fd)) })
		sort.Strings(names)
		for _, n := range names {
			fmt.Println(n)
		}
		os.Exit(0)
	}
	if *multi != "" {
		os.Exit(runMulti(*repo, *multi, *tier, *knownPath))
	}

	abs, _ := filepath.Abs(*repo)
	repoDir = abs
	if *tier != "quick" && *tier != "thorough" {
		fmt.Fprintln(os.Stderr, "bad tier")
		os.Exit(2)
	}
	spec, ok := props[*prop]
	if !ok && *ruleOnly == "" {
		fmt.Fprintln(os.Stderr, "unknown property", *prop)
		os.Exit(2)
	}
	if *ruleOnly != "" {
		spec = propSpec{rules: strings.Split(*ruleOnly, ",")}
		if *prop == "" {
			*prop = "RULE"
		}
	}
	seed, _ := strconv.Atoi(os.Getenv("VERIF_SEED"))

	start := time.Now()
	prog, err := loadProg(abs)
	if prog == nil {
		prog = &Prog{}
	}
	rep := newReport(prog)
	known, kerr := loadKnown(*knownPath)
	if kerr != nil && *knownPath != "" {
		fmt.Fprintln(os.Stderr, "known findings:", kerr)
		os.Exit(2)
	}
	cgNodes := 0
	if err != nil {
		rep.cur = "LOAD"
		rep.add("yae", "load", 0, Violated, false, err.Error())
	} else {
		ctx := &Ctx{Prog: prog, R: rep, Thorough: *tier == "thorough"}
		ruleList := append([]string{}, spec.rules...)
		if ctx.Thorough {
			have := map[string]bool{}
			for _, r := range ruleList {
				id, _ := splitRule(r)
				have[id] = true
			}
			for _, r := range thoroughExtra[*prop] {
				if !have[r] {
					ruleList = append(ruleList, r)
				}
			}
		}
		for _, tok := range ruleList {
			id, excl := splitRule(tok)
			f := ruleTable[id]
			if f == nil {
				rep.cur = "LOAD"
				rep.add("checker", "rule "+id, 0, Undecided, false, "rule not implemented")
				continue
			}
			from := len(rep.obs)
			runRule(ctx, id, f)
			dropClauses(rep, from, id, excl)
		}
		if prog.cg != nil {
			cgNodes = len(prog.cg.Nodes)
		}
	}
	if *list {
		obs := append([]*Obligation{}, rep.obs...)
		sort.SliceStable(obs, func(i, j int) bool { return obs[i].Key < obs[j].Key })
		for _, o := range obs {
			fmt.Printf("%-11s %s  [%s] %s\n", o.Verdict, o.Key, o.At, o.Why)
		}
	}
	code := rep.finish(runMeta{
		Property: *prop, Tier: *tier, Seed: seed,
		Explanation: spec.explanation, NotCovered: spec.notCovered, Assumptions: spec.assumptions,
		WallS: time.Since(start).Seconds(), EvidencePath: *evidence, CGNodes: cgNodes, Only: *only,
	}, known)
	os.Exit(code)
}

// runRule isolates a rule: a panic inside the checker is an undecided obligation, never a silent pass.
func runRule(c *Ctx, id string, f ruleFn) {
	defer func() {
		if r := recover(); r != nil {
			c.R.cur = id
			c.R.add("checker", "rule panicked", 0, Undecided, false, fmt.Sprintf("%v\n%s", r, debug.Stack()))
		}
	}()
	f(c)
}

// runMulti is used by selftest/ only: one load, many properties. Registered checks never use it.
func runMulti(repo, list, tier, knownPath string) int {
	abs, _ := filepath.Abs(repo)
	repoDir = abs
	var ids []string
	if list == "all" {
		for id := range props {
			ids = append(ids, id)
		}
	} else {
		ids = strings.Split(list, ",")
	}
	sort.Strings(ids)
	prog, err := loadProg(abs)
	if prog == nil {
		prog = &Prog{}
	}
	known, _ := loadKnown(knownPath)
	worst := 0
	for _, id := range ids {
		spec, ok := props[id]
		if !ok {
			fmt.Printf("RESULT %s exit=2\n", id)
			continue
		}
		rep := newReport(prog)
		if err != nil {
			rep.cur = "LOAD"
			rep.add("yae", "load", 0, Violated, false, err.Error())
		} else {
			ctx := &Ctx{Prog: prog, R: rep, Thorough: tier == "thorough"}
			ruleList := append([]string{}, spec.rules...)
			if ctx.Thorough {
				have := map[string]bool{}
				for _, r := range ruleList {
					rid, _ := splitRule(r)
					have[rid] = true
				}
				for _, r := range thoroughExtra[id] {
					if !have[r] {
						ruleList = append(ruleList, r)
					}
				}
			}
			for _, tok := range ruleList {
				rid, excl := splitRule(tok)
				if f := ruleTable[rid]; f != nil {
					from := len(rep.obs)
					runRule(ctx, rid, f)
					dropClauses(rep, from, rid, excl)
				} else {
					rep.cur = "LOAD"
					rep.add("checker", "rule "+rid, 0, Undecided, false, "rule not implemented")
				}
			}
		}
		code := rep.finish(runMeta{Property: id, Tier: tier, Explanation: spec.explanation, NotCovered: spec.notCovered, Assumptions: spec.assumptions, Quiet: true}, known)
		fmt.Printf("RESULT %s exit=%d\n", id, code)
		if code > worst {
			worst = code
		}
	}
	return worst
}

// splitRule parses a rule token of props.go: "DS" or "DS~DS-2,DS-6" (the rule without the clauses whose obligation
// descriptor starts with one of the listed prefixes: clauses that are not a necessary condition of this property).
func splitRule(tok string) (id string, excl []string) {
	if i := strings.Index(tok, "~"); i >= 0 {
		return tok[:i], strings.Split(tok[i+1:], ",")
	}
	return tok, nil
}

// dropClauses removes the obligations of rule id recorded since index from whose descriptor starts with an excluded prefix.
func dropClauses(rep *Report, from int, id string, excl []string) {
	if len(excl) == 0 {
		return
	}
	kept := rep.obs[:from]
	for _, o := range rep.obs[from:] {
		drop := false
		if o.Rule == id {
			parts := strings.SplitN(o.Key, "|", 3)
			if len(parts) == 3 {
				for _, e := range excl {
					if strings.HasPrefix(parts[2], e+" ") || parts[2] == e {
						drop = true
					}
				}
			}
		}
		if !drop {
			kept = append(kept, o)
		}
	}
	rep.obs = kept
}
