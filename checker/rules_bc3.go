package main

import (
	"fmt"
	"go/ast"
	"go/token"
	"go/types"
	"sort"
	"strings"
)

// BC-3 (stack effect by induction over the compiler's source) and BC-4 (jumps), OBJ-LEN lemma.

func init() {
	reg("BC-3", ruleBC3)
}

// lin is a linear form: constant + sum coef*symbol.
type lin struct {
	k int
	m map[string]int
}

func linConst(k int) lin { return lin{k: k, m: map[string]int{}} }
func (a lin) add(b lin) lin {
	r := lin{k: a.k + b.k, m: map[string]int{}}
	for s, v := range a.m {
		r.m[s] += v
	}
	for s, v := range b.m {
		r.m[s] += v
	}
	for s, v := range r.m {
		if v == 0 {
			delete(r.m, s)
		}
	}
	return r
}
func (a lin) scale(f int) lin {
	r := lin{k: a.k * f, m: map[string]int{}}
	for s, v := range a.m {
		if v*f != 0 {
			r.m[s] = v * f
		}
	}
	return r
}
func (a lin) mulSym(sym string) (lin, bool) {
	if len(a.m) != 0 {
		return a, false
	}
	r := linConst(0)
	if a.k != 0 {
		r.m[sym] = a.k
	}
	return r, true
}
func (a lin) sub(b lin) lin { return a.add(b.scale(-1)) }
func (a lin) eq(b lin) bool { return a.sub(b).String() == "0" }
func (a lin) nonneg() bool {
	if a.k < 0 {
		return false
	}
	for _, v := range a.m {
		if v < 0 {
			return false
		}
	}
	return true
}
func (a lin) String() string {
	var ks []string
	for s := range a.m {
		ks = append(ks, s)
	}
	sort.Strings(ks)
	var parts []string
	for _, s := range ks {
		parts = append(parts, fmt.Sprintf("%d*%s", a.m[s], s))
	}
	if a.k != 0 || len(parts) == 0 {
		parts = append(parts, fmt.Sprint(a.k))
	}
	return strings.Join(parts, "+")
}

// opEffect: pops/pushes of a handler; symbolic parts refer to operand positions.
type symTerm struct {
	coef int
	kind string // "opnd" | "nfields"
	idx  int
}
type opEffect struct {
	popsK, pushesK int
	popsSym        []symTerm
	ok             bool
	why            string
}

func (c *Ctx) handlerEffect(cc *ast.CaseClause) opEffect {
	eff := opEffect{ok: true}
	blk := &ast.BlockStmt{List: cc.Body}
	// reads in order -> operand index of the receiving variable
	opndOf := map[types.Object]int{}
	j := 0
	for _, call := range c.calls(blk) {
		switch c.calleeName(call) {
		case "vm.bytecode.readConst", "vm.bytecode.readMediumInt", "vm.bytecode.readUint16", "vm.bytecode.readUint8":
			inspectNoLit(blk, func(x ast.Node) bool {
				if as, ok := x.(*ast.AssignStmt); ok && len(as.Rhs) == 1 && unparen(as.Rhs[0]) == ast.Expr(call) {
					if o := c.objOf(as.Lhs[0]); o != nil {
						opndOf[o] = j
					}
				}
				return true
			})
			j++
		}
	}
	defs := c.localDefs(blk)
	var bound func(e ast.Expr) ([]symTerm, bool)
	bound = func(e ast.Expr) ([]symTerm, bool) {
		e = unparen(e)
		switch x := e.(type) {
		case *ast.Ident:
			o := c.objOf(x)
			if k, ok := opndOf[o]; ok {
				return []symTerm{{1, "opnd", k}}, true
			}
			if d, ok := defs[o]; ok {
				return bound(d)
			}
		case *ast.BinaryExpr:
			if x.Op == token.MUL {
				if v := c.constOf(x.Y); v != nil {
					if t, ok := bound(x.X); ok {
						n, _ := constantInt(v)
						for i := range t {
							t[i].coef *= n
						}
						return t, true
					}
				}
			}
		case *ast.CallExpr:
			// len(objK.Fields) with objK := ty.(*types.Type).Obj(), ty an operand
			if c.calleeName(x) == "builtin.len" && len(x.Args) == 1 {
				if se, ok := unparen(x.Args[0]).(*ast.SelectorExpr); ok && se.Sel.Name == "Fields" {
					s := c.sxInl(se.X, defs)
					for o, k := range opndOf {
						if strings.Contains(s, "(TypeAssertExpr "+o.Name()+" ") {
							return []symTerm{{1, "nfields", k}}, true
						}
					}
				}
			}
		}
		return nil, false
	}
	var walk func(n ast.Node, mult []symTerm, inLoop bool)
	walk = func(n ast.Node, mult []symTerm, inLoop bool) {
		ast.Inspect(n, func(x ast.Node) bool {
			switch s := x.(type) {
			case *ast.FuncLit:
				return false
			case *ast.ForStmt:
				if x == n {
					return true
				}
				be, ok := s.Cond.(*ast.BinaryExpr)
				if !ok || be.Op != token.LSS {
					eff.ok, eff.why = false, "loop bound not recognised"
					return false
				}
				t, ok := bound(be.Y)
				if !ok || inLoop {
					eff.ok, eff.why = false, "loop bound "+src(be.Y)+" is not a decoded operand"
					return false
				}
				walk(s.Body, t, true)
				return false
			case *ast.RangeStmt:
				eff.ok, eff.why = false, "range loop in a handler"
				return false
			case *ast.CallExpr:
				switch c.calleeName(s) {
				case "vm.stack.Pop":
					if inLoop {
						for _, t := range mult {
							eff.popsSym = append(eff.popsSym, t)
						}
					} else {
						eff.popsK++
					}
				case "vm.stack.Push":
					if inLoop {
						eff.ok, eff.why = false, "push inside a loop"
					} else {
						eff.pushesK++
					}
				}
			}
			return true
		})
	}
	walk(blk, nil, false)
	// conditional pops/pushes (inside if) would make the effect path-dependent
	inspectNoLit(blk, func(x ast.Node) bool {
		if is, ok := x.(*ast.IfStmt); ok {
			for _, call := range c.calls(is.Body) {
				if nm := c.calleeName(call); nm == "vm.stack.Pop" || nm == "vm.stack.Push" {
					eff.ok, eff.why = false, "conditional stack operation"
				}
			}
		}
		return true
	})
	return eff
}

func constantInt(v interface{ String() string }) (int, bool) {
	var n int
	_, err := fmt.Sscanf(v.String(), "%d", &n)
	return n, err == nil
}

type bcWalker struct {
	c       *Ctx
	effects map[string]opEffect
	fn      string
	body    *ast.BlockStmt
	defs    map[types.Object]ast.Expr
	// jumps
	phDepth  map[types.Object]lin // placeholder var -> depth right after the branch instruction's pops
	phOp     map[types.Object]string
	phPos    map[types.Object]token.Pos
	labDepth map[types.Object]*lin // label var -> depth at capture (nil = dead at capture)
	labPos   map[types.Object]token.Pos
	patched  map[types.Object]int
	patchOf  map[types.Object]types.Object // label -> placeholder (pre-scan)
	problems []string
	minOK    bool
}

type bcState struct {
	d    lin
	dead bool
}

func (w *bcWalker) sym(e ast.Expr) string {
	// canonical symbol for len(<node>.<Field>) after inlining locals; the variable that holds the node is replaced by its
	// type, so that renaming a parameter (call -> callExpr) does not make two names for one quantity
	c := w.c
	depth := 0
	var sub func(n ast.Node) (string, bool)
	sub = func(n ast.Node) (string, bool) {
		id, ok := n.(*ast.Ident)
		if !ok {
			return "", false
		}
		o := c.objOf(id)
		if d, ok := w.defs[o]; ok && depth < 20 {
			depth++
			s := sxWith(d, sub)
			depth--
			return s, true
		}
		if v, ok := o.(*types.Var); ok && !v.IsField() && v.Pkg() != nil && v.Parent() != v.Pkg().Scope() {
			return "<" + strings.TrimPrefix(typeStr(v.Type()), "*") + ">", true
		}
		return "", false
	}
	s := sxWith(e, sub)
	r := strings.NewReplacer("(CallExpr Fun:len Args:[", "len(", "(SelectorExpr ", "", " Sel:", ".", ")])", ")", ")", "")
	return r.Replace(s)
}

// argsSym is the symbol for "number of arguments of the call being compiled" in the function under analysis.
func (w *bcWalker) argsSym() string { return "len(<parser/ast.CallExpr>.Args)" }

func (w *bcWalker) fail(pos token.Pos, format string, a ...interface{}) {
	w.problems = append(w.problems, w.c.pos(pos)+": "+fmt.Sprintf(format, a...))
}

// applyOp applies the effect of opcode op with the given operand expressions.
func (w *bcWalker) applyOp(st *bcState, op string, operands []ast.Expr, pos token.Pos) {
	if st.dead {
		return
	}
	var pops, pushes lin
	if strings.HasPrefix(op, "$") {
		// by-value intrinsic opcode chosen from the table: pops = arity = len(call.Args) (SIG-3 + ARITY), pushes 1
		pops = linConst(0)
		pops.m[w.argsSym()] = 1
		pushes = linConst(1)
	} else {
		eff, ok := w.effects[op]
		if !ok || !eff.ok {
			w.fail(pos, "effect of %s unknown (%s)", op, eff.why)
			return
		}
		pops, pushes = linConst(eff.popsK), linConst(eff.pushesK)
		for _, t := range eff.popsSym {
			if t.idx >= len(operands) {
				w.fail(pos, "%s reads operand #%d which is not emitted", op, t.idx)
				return
			}
			var s string
			switch t.kind {
			case "opnd":
				s = w.sym(operands[t.idx])
			case "nfields":
				// OBJ-LEN lemma: the annotated object type has len(e.Fields) fields
				if se, ok := unparen(operands[t.idx]).(*ast.SelectorExpr); ok && se.Sel.Name == "Type" {
					s = "len(" + w.sym(se.X) + ".Fields)"
				} else {
					w.fail(pos, "%s pops one value per field of a type operand that is not the node's annotation", op)
					return
				}
			}
			add := linConst(0)
			add.m[s] = t.coef
			pops = pops.add(add)
		}
	}
	after := st.d.sub(pops)
	if !after.nonneg() {
		w.fail(pos, "%s pops %s but only %s values are on the stack", op, pops, st.d)
	}
	st.d = after.add(pushes)
}

func (w *bcWalker) stmts(list []ast.Stmt, st bcState) bcState {
	c := w.c
	for i := 0; i < len(list); i++ {
		s := list[i]
		switch x := s.(type) {
		case *ast.ExprStmt:
			call, ok := x.X.(*ast.CallExpr)
			if !ok {
				continue
			}
			nm := c.calleeName(call)
			switch nm {
			case "vm.bytecode.compile", "vm.bytecode.compileInvokeStatic", "vm.bytecode.compileInvokeDynamic", "vm.bytecode.emitCond":
				if !st.dead {
					st.d = st.d.add(linConst(1)) // induction hypothesis / lemma (each verified on its own)
				}
			case "vm.bytecode.emitOP":
				op := ""
				if o := c.objOf(call.Args[0]); o != nil {
					if _, isConst := o.(*types.Const); isConst {
						op = o.Name()
					} else {
						op = "$" + o.Name()
					}
				}
				// consume operand statements
				var operands []ast.Expr
				var phs []types.Object
				j := i + 1
				for ; j < len(list); j++ {
					var oc *ast.CallExpr
					var lhs ast.Expr
					switch y := list[j].(type) {
					case *ast.ExprStmt:
						oc, _ = y.X.(*ast.CallExpr)
					case *ast.AssignStmt:
						if len(y.Rhs) == 1 && len(y.Lhs) == 1 {
							oc, _ = y.Rhs[0].(*ast.CallExpr)
							lhs = y.Lhs[0]
						}
					}
					if oc == nil {
						break
					}
					switch c.calleeName(oc) {
					case "vm.bytecode.emitConst", "vm.bytecode.emitMediumInt", "vm.bytecode.emitUint8", "vm.bytecode.emitUint16":
						operands = append(operands, oc.Args[0])
					case "vm.bytecode.placeholderForMediumInt", "vm.bytecode.placeholderUint16":
						operands = append(operands, nil)
						if lhs != nil {
							phs = append(phs, c.objOf(lhs))
						}
					default:
						oc = nil
					}
					if oc == nil {
						break
					}
				}
				// if/else operand emission (OP_CONST true/false)
				if j < len(list) && len(operands) == 0 {
					if is, ok := list[j].(*ast.IfStmt); ok && is.Else != nil {
						if len(c.callsTo(is.Body, "vm.bytecode.emitConst")) == 1 {
							operands = append(operands, c.callsTo(is.Body, "vm.bytecode.emitConst")[0].Args[0])
							j++
						}
					}
				}
				i = j - 1
				w.applyOp(&st, op, operands, call.Pos())
				for _, ph := range phs {
					w.phDepth[ph] = st.d
					w.phOp[ph] = op
					w.phPos[ph] = call.Pos()
				}
				if op == "OP_JUMP" {
					st.dead = true
				}
				if op == "OP_RETURN" {
					st.dead = true
				}
			case "util.Unreachable":
				st.dead = true
			default:
				// dynamic call: by-need intrinsic emitter or a patch closure
				if c.calleeObj(call) == nil {
					fo := c.objOf(call.Fun)
					if _, isPh := w.phDepth[fo]; isPh && len(call.Args) == 1 {
						lo := c.objOf(call.Args[0])
						w.patched[fo]++
						ld, ok := w.labDepth[lo]
						switch {
						case !ok:
							w.fail(call.Pos(), "jump is patched with %s, which is not an offset captured from len(b.code)", src(call.Args[0]))
						case w.labPos[lo] < w.phPos[fo]:
							w.fail(call.Pos(), "jump target %s was captured before the jump instruction: backward jump", src(call.Args[0]))
						case ld != nil && !ld.eq(w.phDepth[fo]):
							w.fail(call.Pos(), "stack depth at jump target %s is %s but %s at the %s that jumps there", src(call.Args[0]), *ld, w.phDepth[fo], w.phOp[fo])
						}
					} else if typeStr(c.typeOf(call.Fun)) == "vm.intrinsicCallByNeed" {
						if !st.dead {
							st.d = st.d.add(linConst(1)) // each registered emitter is verified to net +1
						}
					}
				}
			}
		case *ast.AssignStmt:
			if len(x.Lhs) == 1 && len(x.Rhs) == 1 {
				if ce, ok := unparen(x.Rhs[0]).(*ast.CallExpr); ok && c.calleeName(ce) == "builtin.len" && strings.HasSuffix(src(ce.Args[0]), ".code") {
					lo := c.objOf(x.Lhs[0])
					w.labPos[lo] = x.Pos()
					if st.dead {
						// reached only through the jump that will be patched with this label
						if ph, ok := w.patchOf[lo]; ok {
							if d, ok := w.phDepth[ph]; ok {
								st = bcState{d: d}
								w.labDepth[lo] = nil
							} else {
								w.fail(x.Pos(), "label %s is patched into a placeholder defined later", lo.Name())
							}
						} else {
							w.fail(x.Pos(), "code after an unconditional jump is not the target of any patched jump: unreachable instructions")
						}
					} else {
						d := st.d
						w.labDepth[lo] = &d
					}
				}
			}
		case *ast.RangeStmt:
			inner := w.stmts(x.Body.List, bcState{d: linConst(0)})
			if inner.dead {
				w.fail(x.Pos(), "loop body ends dead")
				continue
			}
			scaled, ok := inner.d.mulSym(w.sym(&ast.CallExpr{Fun: ast.NewIdent("len"), Args: []ast.Expr{x.X}}))
			if !ok {
				w.fail(x.Pos(), "loop body has a non-constant stack effect %s", inner.d)
				continue
			}
			if !inner.d.nonneg() {
				w.fail(x.Pos(), "loop body consumes stack")
			}
			if !st.dead {
				st.d = st.d.add(scaled)
			}
		case *ast.IfStmt:
			// `if c { emitOP(A) } else { emitOP(B) }` followed by the common operands
			if eb, ok := x.Else.(*ast.BlockStmt); ok && len(x.Body.List) == 1 && len(eb.List) == 1 {
				opOf := func(s ast.Stmt) string {
					if es, ok := s.(*ast.ExprStmt); ok {
						if ce, ok := es.X.(*ast.CallExpr); ok && c.calleeName(ce) == "vm.bytecode.emitOP" {
							if o, ok := c.objOf(ce.Args[0]).(*types.Const); ok {
								return o.Name()
							}
						}
					}
					return ""
				}
				opA, opB := opOf(x.Body.List[0]), opOf(eb.List[0])
				if opA != "" && opB != "" {
					var operands []ast.Expr
					j := i + 1
					for ; j < len(list); j++ {
						es, ok := list[j].(*ast.ExprStmt)
						if !ok {
							break
						}
						oc, ok := es.X.(*ast.CallExpr)
						if !ok {
							break
						}
						nm := c.calleeName(oc)
						if nm != "vm.bytecode.emitConst" && nm != "vm.bytecode.emitMediumInt" && nm != "vm.bytecode.emitUint8" && nm != "vm.bytecode.emitUint16" {
							break
						}
						operands = append(operands, oc.Args[0])
					}
					i = j - 1
					sa, sb := st, st
					w.applyOp(&sa, opA, operands, x.Pos())
					w.applyOp(&sb, opB, operands, x.Pos())
					if !sa.dead && !sa.d.eq(sb.d) {
						w.fail(x.Pos(), "%s and %s have different stack effects", opA, opB)
					}
					st = sa
					continue
				}
			}
			a := w.stmts(x.Body.List, st)
			b := st
			if x.Else != nil {
				switch e := x.Else.(type) {
				case *ast.BlockStmt:
					b = w.stmts(e.List, st)
				case *ast.IfStmt:
					b = w.stmts([]ast.Stmt{e}, st)
				}
			}
			switch {
			case a.dead && b.dead:
				st.dead = true
			case a.dead:
				st = b
			case b.dead:
				st = a
			default:
				if !a.d.eq(b.d) {
					w.fail(x.Pos(), "the two arms of `if %s` leave different stack depths (%s vs %s)", src(x.Cond), a.d, b.d)
				}
				st = a
			}
		case *ast.SwitchStmt:
			var outs []bcState
			for _, cs := range x.Body.List {
				o := w.stmts(cs.(*ast.CaseClause).Body, st)
				if !o.dead {
					outs = append(outs, o)
				}
			}
			if len(outs) == 0 {
				st.dead = true
			} else {
				for _, o := range outs[1:] {
					if !o.d.eq(outs[0].d) {
						w.fail(x.Pos(), "switch arms leave different stack depths (%s vs %s)", outs[0].d, o.d)
					}
				}
				st = outs[0]
			}
		case *ast.ReturnStmt:
			if !st.dead {
				if !st.d.eq(linConst(1)) {
					w.fail(x.Pos(), "returns with net stack effect %s (must be +1)", st.d)
				}
			}
			st.dead = true
		}
	}
	return st
}

func (c *Ctx) bcWalk(fn string, body *ast.BlockStmt, effects map[string]opEffect) (string, []string) {
	w := &bcWalker{c: c, effects: effects, fn: fn, body: body, defs: c.localDefs(body),
		phDepth: map[types.Object]lin{}, phOp: map[types.Object]string{}, phPos: map[types.Object]token.Pos{},
		labDepth: map[types.Object]*lin{}, labPos: map[types.Object]token.Pos{}, patched: map[types.Object]int{}, patchOf: map[types.Object]types.Object{}}
	// pre-scan patch calls: ph(L)
	inspectNoLit(body, func(x ast.Node) bool {
		if ce, ok := x.(*ast.CallExpr); ok && c.calleeObj(ce) == nil && len(ce.Args) == 1 {
			if fo, lo := c.objOf(ce.Fun), c.objOf(ce.Args[0]); fo != nil && lo != nil && typeStr(c.typeOf(ce.Fun)) == "func(int)" {
				w.patchOf[lo] = fo
			}
		}
		return true
	})
	end := w.stmts(body.List, bcState{d: linConst(0)})
	if !end.dead && !end.d.eq(linConst(1)) {
		w.fail(body.End(), "falls off the end with net stack effect %s (must be +1)", end.d)
	}
	for ph, d := range w.phDepth {
		_ = d
		if w.patched[ph] != 1 {
			w.fail(w.phPos[ph], "the jump operand placeholder %s is patched %d times (must be exactly once on every path)", ph.Name(), w.patched[ph])
		}
	}
	sort.Strings(w.problems)
	return end.d.String(), w.problems
}

func ruleBC3(c *Ctx) {
	c.R.Rule("BC-3", 20, "stack effect by induction over the compiler's own source: handler effects (pops, pushes; symbolic in decoded operands) are extracted from the dispatch loop, then every case of compile, both invoke paths, emitCond and the by-need emitters are walked symbolically (recursive compile = +1 by hypothesis, range loops multiply, branch arms must agree) and must net +1 with no prefix below zero; BC-4: every jump placeholder is patched exactly once with an offset captured from len(b.code) after the jump (forward), at an instruction boundary, where the stack depth equals the depth at the jump; thunk bodies end in OP_RETURN")
	m := c.opcodes()
	if m == nil || m.sw == nil {
		c.R.Anchor("vm.switchThreading")
		return
	}
	effects := map[string]opEffect{}
	for _, op := range m.names {
		if cc := m.cases[op]; cc != nil {
			eff := c.handlerEffect(cc)
			effects[op] = eff
			if eff.ok {
				var syms []string
				for _, t := range eff.popsSym {
					syms = append(syms, fmt.Sprintf("%d*%s#%d", t.coef, t.kind, t.idx))
				}
				c.R.OK("vm.switchThreading", "effect of "+op, cc.Pos(), "pops %d%s, pushes %d", eff.popsK, map[bool]string{true: "+" + strings.Join(syms, "+"), false: ""}[len(syms) > 0], eff.pushesK)
			} else {
				c.R.Unk("vm.switchThreading", "effect of "+op, cc.Pos(), "cannot extract the stack effect: %s", eff.why)
			}
		}
	}
	// OP_RETURN pops the result
	if e := effects["OP_RETURN"]; !(e.ok && e.popsK == 1 && e.pushesK == 0) {
		c.R.Bad("vm.switchThreading", "OP_RETURN pops the result", token.NoPos, "OP_RETURN must pop exactly one value")
	}
	report := func(fn, desc string, body *ast.BlockStmt) {
		net, probs := c.bcWalk(fn, body, effects)
		if len(probs) == 0 {
			c.R.OK(fn, desc, body.Pos(), "net effect %s, never negative, jumps consistent", net)
		} else {
			c.R.Bad(fn, desc, body.Pos(), "%s", strings.Join(probs, "; "))
		}
	}
	// compile: one obligation per case
	if fd := c.FuncDecl("vm", "bytecode.compile"); fd != nil {
		var ts *ast.TypeSwitchStmt
		for _, s := range c.typeSwitches(fd.Body) {
			if ts == nil {
				ts = s
			}
		}
		if ts == nil {
			c.R.Anchor("vm.bytecode.compile type switch")
		} else {
			cases := c.tsCases(ts)
			var names []string
			for k := range cases {
				if k != "default" {
					names = append(names, k)
				}
			}
			sort.Strings(names)
			for _, k := range names {
				cc := cases[k]
				report("vm.bytecode.compile", "case "+k+" nets +1", &ast.BlockStmt{List: cc.Body, Lbrace: cc.Pos(), Rbrace: cc.End()})
			}
		}
	} else {
		c.R.Anchor("vm.bytecode.compile")
	}
	for _, fn := range []string{"bytecode.compileInvokeStatic", "bytecode.compileInvokeDynamic", "bytecode.emitCond"} {
		if fd := c.FuncDecl("vm", fn); fd != nil {
			report("vm."+fn, "nets +1", fd.Body)
		} else {
			c.R.Anchor("vm." + fn)
		}
	}
	// by-need emitters
	n := 0
	for _, te := range c.tableEntries("vm", "intrinsicsCallByNeed") {
		if _, _, body := c.funcOf(te.val); body != nil {
			n++
			report("vm.intrinsicsCallByNeed", "emitter for "+src(te.key)+" nets +1", body)
		}
	}
	if n < 4 {
		c.R.Bad("vm.intrinsicsCallByNeed", "emitters", token.NoPos, "expected 4 by-need emitters, found %d", n)
	}
	// LAZY-3 / BC-4 shape of emitCond: cond, IF_TRUE, then, JUMP, [false target], else, [join]
	if fd := c.FuncDecl("vm", "bytecode.emitCond"); fd != nil {
		var seq []string
		for _, s := range fd.Body.List {
			switch x := s.(type) {
			case *ast.ExprStmt:
				if ce, ok := x.X.(*ast.CallExpr); ok {
					switch c.calleeName(ce) {
					case "vm.bytecode.compile":
						seq = append(seq, "compile("+src(ce.Args[1])+")")
					case "vm.bytecode.emitOP":
						seq = append(seq, src(ce.Args[0]))
					default:
						if c.calleeObj(ce) == nil {
							seq = append(seq, "patch:"+src(ce.Fun)+"("+src(ce.Args[0])+")")
						}
					}
				}
			case *ast.AssignStmt:
				if ce, ok := x.Rhs[0].(*ast.CallExpr); ok {
					switch c.calleeName(ce) {
					case "builtin.len":
						seq = append(seq, "label:"+src(x.Lhs[0]))
					case "vm.bytecode.placeholderForMediumInt", "vm.bytecode.placeholderUint16":
						seq = append(seq, "ph:"+src(x.Lhs[0]))
					}
				}
			}
		}
		var params []string
		for _, f := range fd.Type.Params.List {
			for _, nm := range f.Names {
				if typeStr(c.typeOf(f.Type)) == "parser/ast.Expr" {
					params = append(params, nm.Name)
				}
			}
		}
		got := strings.Join(seq, " ")
		want := ""
		if len(params) == 3 && len(seq) >= 9 {
			// placeholders/labels by position
			want = fmt.Sprintf("compile(%s) OP_IF_TRUE %s compile(%s) OP_JUMP %s %s compile(%s) %s", params[0], seq[2], params[1], seq[5], seq[6], params[2], seq[8])
			phF, phN := strings.TrimPrefix(seq[2], "ph:"), strings.TrimPrefix(seq[5], "ph:")
			lF, lN := strings.TrimPrefix(seq[6], "label:"), strings.TrimPrefix(seq[8], "label:")
			want += fmt.Sprintf(" patch:%s(%s) patch:%s(%s)", phF, lF, phN, lN)
			if !(strings.HasPrefix(seq[2], "ph:") && strings.HasPrefix(seq[5], "ph:") && strings.HasPrefix(seq[6], "label:") && strings.HasPrefix(seq[8], "label:")) {
				want = "?"
			}
		}
		c.R.Check(got == want, "vm.bytecode.emitCond", "LAZY-3 cond; IF_TRUE->else; then; JUMP->join; else; join", fd.Pos(),
			"condition once, then-part and else-part mutually exclusive: the false branch enters right after the JUMP, the JUMP leaves to the end of the else-part", "emitCond is not the sequence cond, IF_TRUE(false->else start), then, JUMP(->join), else, join: got "+got)
	}
	// placeholder closure writes at the captured offset
	if ph := c.FuncDecl("vm", "bytecode.placeholderUint16"); ph != nil {
		// offset := len(b.code) captured BEFORE the two operand bytes are reserved; the returned closure writes its 16-bit value
		// into b.code starting at exactly that offset (copy / PutUint16 / a local 16-bit writer), nowhere else
		var offObj types.Object
		var offStmt, reserve ast.Node
		for _, st := range ph.Body.List {
			if as, ok := st.(*ast.AssignStmt); ok && len(as.Lhs) == 1 && len(as.Rhs) == 1 && offObj == nil {
				if ce, ok := unparen(as.Rhs[0]).(*ast.CallExpr); ok && c.calleeName(ce) == "builtin.len" && len(ce.Args) == 1 {
					if se, ok := unparen(ce.Args[0]).(*ast.SelectorExpr); ok && se.Sel.Name == "code" {
						offObj, offStmt = c.objOf(as.Lhs[0]), st
					}
				}
			}
			if es, ok := st.(*ast.ExprStmt); ok && reserve == nil {
				if ce, ok := es.X.(*ast.CallExpr); ok && c.calleeName(ce) == "vm.bytecode.emitUint16" {
					reserve = st
				}
			}
		}
		okOrder := offObj != nil && reserve != nil && offStmt.Pos() < reserve.Pos()
		writes, okWrite := 0, true
		for _, lit := range funcLits(ph.Body) {
			ast.Inspect(lit.Body, func(x ast.Node) bool {
				// every sub-slice of the code taken inside the closure (as a call argument, or bound to a local first)
				sl, ok := x.(*ast.SliceExpr)
				if !ok {
					return true
				}
				se, ok := unparen(sl.X).(*ast.SelectorExpr)
				if !ok || se.Sel.Name != "code" {
					return true
				}
				writes++
				lowOK := sl.Low != nil && c.objOf(sl.Low) == offObj
				highOK := sl.High == nil
				if be, ok := unparen(sl.High).(*ast.BinaryExpr); ok && sl.High != nil && be.Op == token.ADD && c.objOf(be.X) == offObj {
					if v := c.constOf(be.Y); v != nil && v.String() == "2" {
						highOK = true
					}
				}
				if !lowOK || !highOK {
					okWrite = false
				}
				return true
			})
			// direct element stores b.code[offset] = .., b.code[offset+1] = ..
			ast.Inspect(lit.Body, func(x ast.Node) bool {
				as, ok := x.(*ast.AssignStmt)
				if !ok {
					return true
				}
				for _, l := range as.Lhs {
					if ix, ok := unparen(l).(*ast.IndexExpr); ok {
						if se, ok := unparen(ix.X).(*ast.SelectorExpr); ok && se.Sel.Name == "code" {
							writes++
							base := unparen(ix.Index)
							if be, ok := base.(*ast.BinaryExpr); ok && be.Op == token.ADD {
								base = unparen(be.X)
							}
							if c.objOf(base) != offObj {
								okWrite = false
							}
						}
					}
				}
				return true
			})
		}
		c.R.Check(okOrder && writes >= 1 && okWrite, "vm.bytecode.placeholderUint16", "BC-4 patch writes the operand reserved at the captured offset", ph.Pos(), "offset := len(code) before the two bytes are reserved; the closure writes into code[offset:..] only", "placeholder does not reserve and later overwrite exactly its own 2 operand bytes")
	} else {
		c.R.Anchor("vm.bytecode.placeholderUint16")
	}
	// OBJ-LEN lemma in types.Check
	if fd := c.FuncDecl("types", "Check"); fd != nil {
		var ts *ast.TypeSwitchStmt
		for _, s := range c.typeSwitches(fd.Body) {
			if ts == nil {
				ts = s
			}
		}
		if ts != nil {
			if cc := c.tsCases(ts)["parser/ast.ObjExpr"]; cc != nil {
				blk := &ast.BlockStmt{List: cc.Body}
				d := c.localDefs(blk)
				okLen := false
				inspectNoLit(blk, func(x ast.Node) bool {
					if ce, ok := x.(*ast.CallExpr); ok && c.calleeName(ce) == "builtin.make" && len(ce.Args) == 2 && strings.Contains(sx(ce.Args[0]), "Field") {
						if c.sxInl(ce.Args[1], d) == "(CallExpr Fun:len Args:[(SelectorExpr e Sel:Fields)])" {
							okLen = true
						}
					}
					return true
				})
				c.R.Check(okLen, "types.Check", "lemma OBJ-LEN: annotated object type has len(e.Fields) fields", cc.Pos(), "fs := make([]Field, len(e.Fields)); e.Type = Obj(fs)", "the object type attached to an object literal need not have one field per literal field: OP_NEW_OBJ would pop a different number of values than were pushed")
			}
		}
	}
	c.objCtorLemma("lemma OBJ-LEN")
}

// objCtorLemma: types.Obj builds a fresh object type whose field list is exactly the list it was given (same fields, same
// order) and returns that very object. BC-3 consumes the length (OP_NEW_OBJ pops one value per type field, the compiler pushes
// one per literal field); LAYOUT consumes the order and the freshness (object values are filled by the literal's positions, so
// the type a literal is annotated with must have the literal's own field order, not that of an equal type built elsewhere).
func (c *Ctx) objCtorLemma(label string) {
	// OBJ-LEN lemma, second half: the constructor keeps the field list it is given (same length)
	if fd := c.FuncDecl("types", "Obj"); fd != nil && fd.Type.Params != nil && len(fd.Type.Params.List) == 1 && len(fd.Type.Params.List[0].Names) == 1 {
		param := c.objOf(fd.Type.Params.List[0].Names[0])
		d := c.localDefs(fd.Body)
		found, okKeep := false, false
		keeps := func(e ast.Expr) bool {
			e = ast.Unparen(e)
			if id, ok := e.(*ast.Ident); ok {
				if c.objOf(id) == param {
					return true
				}
				if def, ok := d[c.objOf(id)]; ok {
					e = ast.Unparen(def)
				}
			}
			if id, ok := e.(*ast.Ident); ok && c.objOf(id) == param {
				return true
			}
			// append(<empty>, fields...)
			if ce, ok := e.(*ast.CallExpr); ok && c.calleeName(ce) == "builtin.append" && len(ce.Args) == 2 && ce.Ellipsis.IsValid() {
				if id, ok := ast.Unparen(ce.Args[1]).(*ast.Ident); ok && c.objOf(id) == param {
					switch a0 := ast.Unparen(ce.Args[0]).(type) {
					case *ast.Ident:
						return a0.Name == "nil"
					case *ast.CallExpr:
						return len(a0.Args) == 1 && src(a0.Args[0]) == "nil"
					case *ast.CompositeLit:
						return len(a0.Elts) == 0
					}
				}
			}
			return false
		}
		ast.Inspect(fd.Body, func(x ast.Node) bool {
			cl, ok := x.(*ast.CompositeLit)
			if !ok || typeStr(c.typeOf(cl)) != "types.ObjTy" {
				return true
			}
			found = true
			st, _ := c.typeOf(cl).Underlying().(*types.Struct)
			for i, el := range cl.Elts {
				name := ""
				v := el
				if kv, ok := el.(*ast.KeyValueExpr); ok {
					name = src(kv.Key)
					v = kv.Value
				} else if st != nil && i < st.NumFields() {
					name = st.Field(i).Name()
				}
				if name == "Fields" {
					okKeep = keeps(v)
				}
			}
			return true
		})
		// later whole-field reassignments of .Fields inside the constructor
		ast.Inspect(fd.Body, func(x ast.Node) bool {
			if as, ok := x.(*ast.AssignStmt); ok {
				for i, l := range as.Lhs {
					if se, ok := l.(*ast.SelectorExpr); ok && se.Sel.Name == "Fields" && i < len(as.Rhs) && !keeps(as.Rhs[i]) {
						okKeep = false
					}
				}
			}
			return true
		})
		c.R.Check(found && okKeep, "types.Obj", label+": the object type keeps the field list it was given", fd.Pos(), "ObjTy.Fields is the parameter itself: as many fields as the literal has", "types.Obj may build an object type with a different number of fields than it was given (fields dropped, merged or added): the VM pushes one value per literal field and OP_NEW_OBJ pops one per type field")
	} else {
		c.R.Anchor("types.Obj")
	}

	if fd := c.FuncDecl("types", "Obj"); fd != nil {
		// every return hands out the locally built composite
		var local types.Object
		ast.Inspect(fd.Body, func(x ast.Node) bool {
			if as, ok := x.(*ast.AssignStmt); ok && len(as.Lhs) == 1 && len(as.Rhs) == 1 {
				if cl, ok := unparen(as.Rhs[0]).(*ast.CompositeLit); ok && typeStr(c.typeOf(cl)) == "types.ObjTy" {
					local = c.objOf(as.Lhs[0])
				}
				if u, ok := unparen(as.Rhs[0]).(*ast.UnaryExpr); ok && u.Op == token.AND {
					if cl, ok := unparen(u.X).(*ast.CompositeLit); ok && typeStr(c.typeOf(cl)) == "types.ObjTy" {
						local = c.objOf(as.Lhs[0])
					}
				}
			}
			return true
		})
		okRet := local != nil
		for _, r := range returnsOf(fd.Body) {
			if len(r.Results) != 1 {
				okRet = false
				continue
			}
			e := unparen(r.Results[0])
			if u, ok := e.(*ast.UnaryExpr); ok && u.Op == token.AND {
				e = unparen(u.X)
			}
			if se, ok := e.(*ast.SelectorExpr); ok {
				e = unparen(se.X)
			}
			if ce, ok := e.(*ast.CallExpr); ok && len(ce.Args) == 0 { // t.Ty()
				if se, ok := ce.Fun.(*ast.SelectorExpr); ok {
					e = unparen(se.X)
				}
			}
			if id, ok := e.(*ast.Ident); !ok || c.objOf(id) != local {
				okRet = false
			}
		}
		c.R.Check(okRet, "types.Obj", label+": the constructor returns the object type it has just built", fd.Pos(), "every return is the local composite: a literal's type has the literal's own field order", "types.Obj can return an object type other than the one it built from its argument (an interned / cached / canonicalised equal type): the field order of a literal's type then differs from the order in which the back ends fill the value, so fields are stored under wrong names")
	}
}
