package main

import (
	"fmt"
	"go/ast"
	"go/token"
	"go/types"
	"os"
	"sort"
	"strings"

	"golang.org/x/tools/go/callgraph"
	"golang.org/x/tools/go/callgraph/cha"
	"golang.org/x/tools/go/callgraph/vta"
	"golang.org/x/tools/go/packages"
	"golang.org/x/tools/go/ssa"
	"golang.org/x/tools/go/ssa/ssautil"
)

const modPath = "github.com/goghcrow/yae"

// Prog is the resolved program: typed syntax of every module package, and (lazily) SSA + call graph.
type Prog struct {
	Fset  *token.FileSet
	All   []*packages.Package          // every package incl. dependencies
	Mod   map[string]*packages.Package // module packages keyed by short path ("" = root, "types", "parser/lexer", ...)
	Files int

	ssaProg *ssa.Program
	ssaPkgs []*ssa.Package
	cg      *callgraph.Graph

	CanonA, CanonB int      // statements rewritten by canonicalise (if-panic -> Assert, else-after-terminator flattened)
	Inlined        int      // calls of helpers unknown at the pinned commit that were virtually inlined
	NewFuncs       []string // those helpers
	Dissolved      []string // helpers without a remaining reference after inlining, removed from the trees the rules see
	Renamed        []string // anchors resolved to a renamed successor
	renameMemo     map[string]*ast.FuncDecl
	inlRanges      []inlRange
	declIdx        map[types.Object]*ast.FuncDecl
}

func short(pkgPath string) string {
	if pkgPath == modPath {
		return "yae"
	}
	return strings.TrimPrefix(pkgPath, modPath+"/")
}

func isMod(pkgPath string) bool {
	return pkgPath == modPath || strings.HasPrefix(pkgPath, modPath+"/")
}

func loadProg(repo string) (*Prog, error) {
	env := append(os.Environ(),
		"GOFLAGS=-mod=mod", "GOPROXY=off", "GOSUMDB=off", "GOWORK=off", "CGO_ENABLED=1", "GOTOOLCHAIN=local")
	cfg := &packages.Config{
		Mode:  packages.LoadAllSyntax,
		Dir:   repo,
		Env:   env,
		Tests: false,
	}
	pkgs, err := packages.Load(cfg, "./...")
	if err != nil {
		return nil, err
	}
	p := &Prog{Mod: map[string]*packages.Package{}}
	var errs []string
	packages.Visit(pkgs, nil, func(pk *packages.Package) {
		p.All = append(p.All, pk)
		if isMod(pk.PkgPath) {
			for _, e := range pk.Errors {
				errs = append(errs, e.Error())
			}
			if pk.IllTyped {
				errs = append(errs, pk.PkgPath+": ill-typed")
			}
		}
	})
	for _, pk := range pkgs {
		if isMod(pk.PkgPath) {
			p.Mod[short(pk.PkgPath)] = pk
			p.Files += len(pk.Syntax)
			if p.Fset == nil {
				p.Fset = pk.Fset
			}
		}
	}
	if len(errs) > 0 {
		sort.Strings(errs)
		return p, fmt.Errorf("load/type errors: %s", strings.Join(errs, "; "))
	}
	if len(p.Mod) < 22 {
		return p, fmt.Errorf("only %d module packages loaded (expected >= 22)", len(p.Mod))
	}
	// the SSA form is built from the parsed trees as they are; only then are the trees canonicalised for the AST/CFG rules
	p.SSA()
	if os.Getenv("YAE_NO_CANON") == "" {
		p.resolveRenames() // before inlining: a renamed successor is an anchor, not a helper to dissolve
		p.inlineNewHelpers()
		p.canonicalise()
	}
	return p, nil
}

func (p *Prog) pos(n token.Pos) string {
	if !n.IsValid() {
		return "-"
	}
	ps := p.Fset.Position(n)
	f := ps.Filename
	if i := strings.Index(f, "/repo/"); i >= 0 && strings.HasPrefix(f, "/repo/") {
		f = f[len("/repo/"):]
	} else if repoDir != "" && strings.HasPrefix(f, repoDir+"/") {
		f = f[len(repoDir)+1:]
	}
	return fmt.Sprintf("%s:%d", f, ps.Line)
}

// ---- SSA / call graph (lazy) ----

func (p *Prog) SSA() *ssa.Program {
	if p.ssaProg == nil {
		var roots []*packages.Package
		for _, pk := range p.Mod {
			roots = append(roots, pk)
		}
		sort.Slice(roots, func(i, j int) bool { return roots[i].PkgPath < roots[j].PkgPath })
		prog, pkgs := ssautil.AllPackages(roots, ssa.InstantiateGenerics)
		prog.Build()
		p.ssaProg, p.ssaPkgs = prog, pkgs
	}
	return p.ssaProg
}

func (p *Prog) SSAPkg(shortPath string) *ssa.Package {
	prog := p.SSA()
	pk := p.Mod[shortPath]
	if pk == nil {
		return nil
	}
	return prog.Package(pk.Types)
}

func (p *Prog) CallGraph() *callgraph.Graph {
	if p.cg == nil {
		prog := p.SSA()
		all := ssautil.AllFunctions(prog)
		p.cg = vta.CallGraph(all, cha.CallGraph(prog))
	}
	return p.cg
}

// ---- anchors ----

type anchorErr struct{ what string }

func (p *Prog) pkg(sp string) *packages.Package { return p.Mod[sp] }

// FuncDecl resolves a package-level function or method ("Recv.Name") declaration.
func (p *Prog) FuncDecl(sp, name string) *ast.FuncDecl {
	pk := p.Mod[sp]
	if pk == nil {
		return nil
	}
	recv := ""
	if i := strings.Index(name, "."); i >= 0 {
		recv, name = name[:i], name[i+1:]
	}
	for _, f := range pk.Syntax {
		for _, d := range f.Decls {
			fd, ok := d.(*ast.FuncDecl)
			if !ok || fd.Name.Name != name {
				continue
			}
			if recv == "" && fd.Recv == nil {
				return fd
			}
			if recv != "" && fd.Recv != nil && len(fd.Recv.List) == 1 {
				t := fd.Recv.List[0].Type
				if s, ok := t.(*ast.StarExpr); ok {
					t = s.X
				}
				if id, ok := t.(*ast.Ident); ok && id.Name == recv {
					return fd
				}
			}
		}
	}
	full := sp + "." + name
	if recv != "" {
		full = sp + "." + recv + "." + name
	}
	return p.renamedFunc(sp, full)
}

// callersTable: unexported function -> sorted list of the functions of its own package whose body calls it.
func (p *Prog) callersTable() map[string][]string {
	out := map[string]map[string]bool{}
	p.eachFuncDecl(func(pk *packages.Package, fd *ast.FuncDecl) {
		if fd.Body == nil {
			return
		}
		caller := fnName(short(pk.PkgPath), fd)
		ast.Inspect(fd.Body, func(x ast.Node) bool {
			ce, ok := x.(*ast.CallExpr)
			if !ok {
				return true
			}
			f, ok := p.calleeObj(ce).(*types.Func)
			if !ok || f.Pkg() == nil || f.Pkg() != pk.Types || f.Exported() {
				return true
			}
			if cd := p.declOf(f); cd != nil {
				n := fnName(short(pk.PkgPath), cd)
				if out[n] == nil {
					out[n] = map[string]bool{}
				}
				out[n][caller] = true
			}
			return true
		})
	})
	res := map[string][]string{}
	for n, m := range out {
		for c := range m {
			res[n] = append(res[n], c)
		}
		sort.Strings(res[n])
	}
	return res
}

// renamedFunc: an anchored unexported function is missing. If exactly one function that did not exist at the pinned commit
// is called from exactly the places the missing one was called from (recursion aside), it is its renamed successor.
func (p *Prog) renamedFunc(sp, full string) *ast.FuncDecl {
	want := knownCallers[full]
	if len(want) == 0 {
		return nil
	}
	if p.renameMemo == nil {
		p.renameMemo = map[string]*ast.FuncDecl{}
	}
	if fd, ok := p.renameMemo[full]; ok {
		return fd
	}
	p.renameMemo[full] = nil
	now := p.callersTable()
	wantSet := map[string]bool{}
	for _, c := range want {
		if c != full {
			wantSet[c] = true
		}
	}
	if len(wantSet) == 0 {
		return nil
	}
	var cands []string
	for n, cs := range now {
		if knownFuncs[n] || !strings.HasPrefix(n, sp+".") {
			continue
		}
		got := map[string]bool{}
		for _, c := range cs {
			if c != n {
				got[c] = true
			}
		}
		same := len(got) == len(wantSet)
		for c := range wantSet {
			if !got[c] {
				same = false
			}
		}
		if same {
			cands = append(cands, n)
		}
	}
	if len(cands) != 1 {
		return nil
	}
	var res *ast.FuncDecl
	p.eachFuncDecl(func(pk *packages.Package, fd *ast.FuncDecl) {
		if fnName(short(pk.PkgPath), fd) == cands[0] {
			res = fd
		}
	})
	p.renameMemo[full] = res
	if res != nil {
		p.Renamed = append(p.Renamed, full+" -> "+cands[0])
	}
	return res
}

// Obj resolves a package-level object by name.
func (p *Prog) Obj(sp, name string) types.Object {
	pk := p.Mod[sp]
	if pk == nil {
		return nil
	}
	return pk.Types.Scope().Lookup(name)
}

// Method resolves a method object on a named type.
func (p *Prog) Method(sp, typ, name string) *types.Func {
	o := p.Obj(sp, typ)
	if o == nil {
		return nil
	}
	named, ok := o.Type().(*types.Named)
	if !ok {
		return nil
	}
	for i := 0; i < named.NumMethods(); i++ {
		if named.Method(i).Name() == name {
			return named.Method(i)
		}
	}
	return nil
}

// Field resolves a struct field object (also through embedded struct types declared in the same struct).
func (p *Prog) Field(sp, typ, name string) *types.Var {
	o := p.Obj(sp, typ)
	if o == nil {
		return nil
	}
	st, ok := o.Type().Underlying().(*types.Struct)
	if !ok {
		return nil
	}
	for i := 0; i < st.NumFields(); i++ {
		if st.Field(i).Name() == name {
			return st.Field(i)
		}
	}
	return nil
}

// VarInit returns the initialiser expression of a package-level var (ValueSpec value), or nil.
func (p *Prog) VarInit(sp, name string) ast.Expr {
	pk := p.Mod[sp]
	if pk == nil {
		return nil
	}
	for _, f := range pk.Syntax {
		for _, d := range f.Decls {
			gd, ok := d.(*ast.GenDecl)
			if !ok || gd.Tok != token.VAR {
				continue
			}
			for _, s := range gd.Specs {
				vs := s.(*ast.ValueSpec)
				for i, n := range vs.Names {
					if n.Name == name && i < len(vs.Values) {
						return vs.Values[i]
					}
				}
			}
		}
	}
	return nil
}

// info returns the types.Info of the module package that contains pos.
func (p *Prog) infoAt(n ast.Node) *types.Info {
	pk := p.pkgAt(n)
	if pk == nil {
		return nil
	}
	return pk.TypesInfo
}

func (p *Prog) pkgAt(n ast.Node) *packages.Package {
	pos := n.Pos()
	for _, pk := range p.Mod {
		for _, f := range pk.Syntax {
			if f.FileStart <= pos && pos <= f.FileEnd {
				return pk
			}
		}
	}
	return nil
}

// fileOf returns the *ast.File containing n.
func (p *Prog) fileOf(n ast.Node) *ast.File {
	pos := n.Pos()
	for _, pk := range p.Mod {
		for _, f := range pk.Syntax {
			if f.FileStart <= pos && pos <= f.FileEnd {
				return f
			}
		}
	}
	return nil
}

// sortedMod returns module packages in path order.
func (p *Prog) sortedMod() []*packages.Package {
	var out []*packages.Package
	for _, pk := range p.Mod {
		out = append(out, pk)
	}
	sort.Slice(out, func(i, j int) bool { return out[i].PkgPath < out[j].PkgPath })
	return out
}

// allFuncs calls f for every function declaration and function literal body owner in the module.
func (p *Prog) eachFuncDecl(f func(pk *packages.Package, fd *ast.FuncDecl)) {
	for _, pk := range p.sortedMod() {
		for _, file := range pk.Syntax {
			for _, d := range file.Decls {
				if fd, ok := d.(*ast.FuncDecl); ok {
					f(pk, fd)
				}
			}
		}
	}
}

func (p *Prog) countFuncs() int {
	n := 0
	for _, pk := range p.Mod {
		for _, file := range pk.Syntax {
			ast.Inspect(file, func(x ast.Node) bool {
				switch x.(type) {
				case *ast.FuncDecl, *ast.FuncLit:
					n++
				}
				return true
			})
		}
	}
	return n
}

// declOf returns the declaration of a module function or method (nil for functions without source).
func (p *Prog) declOf(f *types.Func) *ast.FuncDecl {
	if p.declIdx == nil {
		p.declIdx = map[types.Object]*ast.FuncDecl{}
		p.eachFuncDecl(func(pk *packages.Package, fd *ast.FuncDecl) {
			if o := pk.TypesInfo.Defs[fd.Name]; o != nil {
				p.declIdx[o] = fd
			}
		})
	}
	if f == nil {
		return nil
	}
	return p.declIdx[f.Origin()]
}

// resolveRenames looks up every unexported function that was called somewhere at the pinned commit and is missing now.
func (p *Prog) resolveRenames() {
	var names []string
	for n := range knownCallers {
		names = append(names, n)
	}
	sort.Strings(names)
	for _, full := range names {
		i := strings.LastIndex(full, "/")
		rest := full[i+1:]
		j := strings.Index(rest, ".")
		if j < 0 {
			continue
		}
		sp := full[:i+1] + rest[:j]
		p.FuncDecl(sp, rest[j+1:])
	}
}

func (p *Prog) isRenamedSuccessor(fd *ast.FuncDecl) bool {
	for _, r := range p.renameMemo {
		if r == fd {
			return true
		}
	}
	return false
}
