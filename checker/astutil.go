package main

import (
	"fmt"
	"go/ast"
	"go/constant"
	"go/token"
	"go/types"
	"reflect"
	"sort"
	"strings"

	"golang.org/x/tools/go/cfg"
	"golang.org/x/tools/go/types/typeutil"
)

// ---------- naming resolved objects ----------

// qual names a resolved object: "util.Assert", "val.NumVal.Int" (method), "fmt.Println", "builtin.panic",
// "types.Num" (var), "vm.OP_CONST" (const). Module packages use their short path.
func qual(o types.Object) string {
	if o == nil {
		return ""
	}
	if _, ok := o.(*types.Builtin); ok {
		return "builtin." + o.Name()
	}
	pk := ""
	if o.Pkg() != nil {
		pk = short(o.Pkg().Path())
	}
	if f, ok := o.(*types.Func); ok {
		if sig, ok := f.Type().(*types.Signature); ok && sig.Recv() != nil {
			t := sig.Recv().Type()
			if pt, ok := t.(*types.Pointer); ok {
				t = pt.Elem()
			}
			if n, ok := t.(*types.Named); ok {
				return pk + "." + n.Obj().Name() + "." + f.Name()
			}
			return pk + ".?." + f.Name()
		}
	}
	if v, ok := o.(*types.Var); ok && v.IsField() {
		return pk + ".field." + v.Name()
	}
	return pk + "." + o.Name()
}

// calleeName resolves the static callee of a call through type information ("" for dynamic calls).
func (p *Prog) calleeName(call *ast.CallExpr) string {
	info := p.infoAt(call)
	if info == nil {
		return ""
	}
	return qual(staticCallee(info, call))
}

// staticCallee is typeutil.Callee restricted to functions, methods and builtins (a func-typed variable is a dynamic call).
func staticCallee(info *types.Info, call *ast.CallExpr) types.Object {
	o := typeutil.Callee(info, call)
	switch o.(type) {
	case *types.Func, *types.Builtin:
		return o
	}
	return nil
}

func (p *Prog) calleeObj(call *ast.CallExpr) types.Object {
	info := p.infoAt(call)
	if info == nil {
		return nil
	}
	return staticCallee(info, call)
}

// objOf resolves an identifier or selector expression to its object.
func (p *Prog) objOf(e ast.Expr) types.Object {
	info := p.infoAt(e)
	if info == nil {
		return nil
	}
	switch x := e.(type) {
	case *ast.Ident:
		if o := info.Uses[x]; o != nil {
			return o
		}
		return info.Defs[x]
	case *ast.SelectorExpr:
		if s := info.Selections[x]; s != nil {
			return s.Obj()
		}
		return info.Uses[x.Sel]
	case *ast.ParenExpr:
		return p.objOf(x.X)
	}
	return nil
}

func (p *Prog) typeOf(e ast.Expr) types.Type {
	info := p.infoAt(e)
	if info == nil {
		return nil
	}
	return info.TypeOf(e)
}

// constOf evaluates a constant expression (nil if not constant).
func (p *Prog) constOf(e ast.Expr) constant.Value {
	info := p.infoAt(e)
	if info == nil {
		return nil
	}
	return info.Types[e].Value
}

func typeStr(t types.Type) string {
	if t == nil {
		return "?"
	}
	return types.TypeString(t, func(pk *types.Package) string { return short(pk.Path()) })
}

// ---------- traversal ----------

// inspectNoLit walks n without descending into function literals (their bodies run at another time).
func inspectNoLit(n ast.Node, f func(ast.Node) bool) {
	ast.Inspect(n, func(x ast.Node) bool {
		if x == nil {
			return false
		}
		if _, ok := x.(*ast.FuncLit); ok && x != n {
			return false
		}
		return f(x)
	})
}

func unparen(e ast.Expr) ast.Expr {
	for {
		p, ok := e.(*ast.ParenExpr)
		if !ok {
			return e
		}
		e = p.X
	}
}

// calls returns all call expressions in n (not inside nested function literals) in source order.
func (p *Prog) calls(n ast.Node) []*ast.CallExpr {
	var out []*ast.CallExpr
	inspectNoLit(n, func(x ast.Node) bool {
		if c, ok := x.(*ast.CallExpr); ok {
			out = append(out, c)
		}
		return true
	})
	sort.SliceStable(out, func(i, j int) bool { return out[i].Pos() < out[j].Pos() })
	return out
}

// callsTo returns the calls in n whose resolved callee name is one of names.
func (p *Prog) callsTo(n ast.Node, names ...string) []*ast.CallExpr {
	var out []*ast.CallExpr
	for _, c := range p.calls(n) {
		cn := p.calleeName(c)
		for _, nm := range names {
			if cn == nm {
				out = append(out, c)
			}
		}
	}
	return out
}

// allCallsDeep is like calls but also descends into function literals.
func (p *Prog) allCallsDeep(n ast.Node) []*ast.CallExpr {
	var out []*ast.CallExpr
	ast.Inspect(n, func(x ast.Node) bool {
		if c, ok := x.(*ast.CallExpr); ok {
			out = append(out, c)
		}
		return true
	})
	return out
}

// funcLits returns function literals directly inside n (not nested in other literals).
func funcLits(n ast.Node) []*ast.FuncLit {
	var out []*ast.FuncLit
	ast.Inspect(n, func(x ast.Node) bool {
		if l, ok := x.(*ast.FuncLit); ok && x != n {
			out = append(out, l)
			return false
		}
		return true
	})
	return out
}

// ---------- canonical printing (positions, parentheses and comments dropped) ----------

type sxOpts struct {
	subst func(n ast.Node) (string, bool) // replacement for a node, if any
}

func sx(n interface{}) string { return sxWith(n, nil) }

func sxWith(n interface{}, subst func(n ast.Node) (string, bool)) string {
	var b strings.Builder
	sxRec(&b, reflect.ValueOf(n), subst)
	return b.String()
}

var (
	posType   = reflect.TypeOf(token.NoPos)
	objType   = reflect.TypeOf((*ast.Object)(nil))
	scopeType = reflect.TypeOf((*ast.Scope)(nil))
	cgType    = reflect.TypeOf((*ast.CommentGroup)(nil))
)

func sxRec(b *strings.Builder, v reflect.Value, subst func(n ast.Node) (string, bool)) {
	if !v.IsValid() {
		b.WriteString("nil")
		return
	}
	switch v.Kind() {
	case reflect.Interface:
		if v.IsNil() {
			b.WriteString("nil")
			return
		}
		sxRec(b, v.Elem(), subst)
	case reflect.Ptr:
		if v.IsNil() {
			b.WriteString("nil")
			return
		}
		if n, ok := v.Interface().(ast.Node); ok {
			if pe, ok := n.(*ast.ParenExpr); ok {
				sxRec(b, reflect.ValueOf(pe.X), subst)
				return
			}
			if subst != nil {
				if s, ok := subst(n); ok {
					b.WriteString(s)
					return
				}
			}
			if id, ok := n.(*ast.Ident); ok {
				b.WriteString(id.Name)
				return
			}
			if bl, ok := n.(*ast.BasicLit); ok {
				b.WriteString(bl.Value)
				return
			}
		}
		sxRec(b, v.Elem(), subst)
	case reflect.Struct:
		t := v.Type()
		b.WriteString("(")
		b.WriteString(t.Name())
		for i := 0; i < t.NumField(); i++ {
			ft := t.Field(i)
			if ft.Type == posType || ft.Type == objType || ft.Type == scopeType || ft.Type == cgType {
				continue
			}
			if ft.Name == "Incomplete" {
				continue
			}
			f := v.Field(i)
			if (f.Kind() == reflect.Ptr || f.Kind() == reflect.Interface || f.Kind() == reflect.Slice) && f.IsNil() {
				continue
			}
			b.WriteString(" ")
			if ft.Name != "X" && ft.Name != "List" {
				b.WriteString(ft.Name + ":")
			}
			sxRec(b, f, subst)
		}
		b.WriteString(")")
	case reflect.Slice:
		b.WriteString("[")
		for i := 0; i < v.Len(); i++ {
			if i > 0 {
				b.WriteString(" ")
			}
			sxRec(b, v.Index(i), subst)
		}
		b.WriteString("]")
	case reflect.String:
		b.WriteString(v.String())
	case reflect.Bool:
		fmt.Fprintf(b, "%v", v.Bool())
	case reflect.Int, reflect.Int8, reflect.Int16, reflect.Int32, reflect.Int64:
		if v.Type() == reflect.TypeOf(token.ADD) {
			b.WriteString(token.Token(v.Int()).String())
		} else {
			fmt.Fprintf(b, "%d", v.Int())
		}
	default:
		fmt.Fprintf(b, "<%s>", v.Kind())
	}
}

// src renders a node compactly for human messages (uses types.ExprString for expressions).
func src(n ast.Node) string {
	if e, ok := n.(ast.Expr); ok {
		return types.ExprString(e)
	}
	return fmt.Sprintf("%T", n)
}

// ---------- control-flow graph with dominators ----------

type FnCFG struct {
	p       *Prog
	g       *cfg.CFG
	idom    []int          // unused
	domsets []map[int]bool // dominator sets per block
	nodes   []cfgNode
}

type cfgNode struct {
	n        ast.Node
	blk, idx int
}

// noReturn says whether a call never returns (panic, util.Unreachable, util.Assert(false, ...)).
func (p *Prog) noReturn(call *ast.CallExpr) bool {
	switch p.calleeName(call) {
	case "builtin.panic", "util.Unreachable", "os.Exit":
		return true
	case "util.Assert":
		if len(call.Args) > 0 {
			if c := p.constOf(call.Args[0]); c != nil && c.Kind() == constant.Bool && !constant.BoolVal(c) {
				return true
			}
		}
	case "parser.parser.syntaxAssert":
		if len(call.Args) > 1 {
			if c := p.constOf(call.Args[1]); c != nil && c.Kind() == constant.Bool && !constant.BoolVal(c) {
				return true
			}
		}
	}
	return false
}

func (p *Prog) buildCFG(body *ast.BlockStmt) *FnCFG {
	g := cfg.New(body, func(c *ast.CallExpr) bool { return !p.noReturn(c) })
	c := &FnCFG{p: p, g: g}
	for _, b := range g.Blocks {
		for i, n := range b.Nodes {
			c.nodes = append(c.nodes, cfgNode{n, int(b.Index), i})
		}
	}
	c.computeDom()
	return c
}

func (c *FnCFG) computeDom() {
	n := len(c.g.Blocks)
	preds := make([][]int, n)
	for _, b := range c.g.Blocks {
		for _, s := range b.Succs {
			preds[s.Index] = append(preds[s.Index], int(b.Index))
		}
	}
	// dominator sets by iteration (graphs are tiny)
	dom := make([]map[int]bool, n)
	all := map[int]bool{}
	for i := 0; i < n; i++ {
		all[i] = true
	}
	for i := 0; i < n; i++ {
		if i == 0 {
			dom[i] = map[int]bool{0: true}
		} else {
			m := map[int]bool{}
			for k := range all {
				m[k] = true
			}
			dom[i] = m
		}
	}
	changed := true
	for changed {
		changed = false
		for i := 1; i < n; i++ {
			var nd map[int]bool
			for _, pr := range preds[i] {
				if !c.g.Blocks[pr].Live {
					continue
				}
				if nd == nil {
					nd = map[int]bool{}
					for k := range dom[pr] {
						nd[k] = true
					}
				} else {
					for k := range nd {
						if !dom[pr][k] {
							delete(nd, k)
						}
					}
				}
			}
			if nd == nil {
				nd = map[int]bool{}
			}
			nd[i] = true
			if len(nd) != len(dom[i]) {
				dom[i] = nd
				changed = true
			}
		}
	}
	c.idom = make([]int, n)
	c.domsets = dom
}

// locate finds the CFG node (block, index) whose syntax contains n (innermost).
func (c *FnCFG) locate(n ast.Node) (int, int, bool) {
	best := -1
	var bestSize token.Pos
	for i, cn := range c.nodes {
		if cn.n.Pos() <= n.Pos() && n.End() <= cn.n.End() {
			sz := cn.n.End() - cn.n.Pos()
			if best < 0 || sz < bestSize {
				best, bestSize = i, sz
			}
		}
	}
	if best < 0 {
		// compound statement (loop, if, switch): use the first CFG node inside it
		var first token.Pos = -1
		for i, cn := range c.nodes {
			if n.Pos() <= cn.n.Pos() && cn.n.End() <= n.End() && (first < 0 || cn.n.Pos() < first) {
				best, first = i, cn.n.Pos()
			}
		}
	}
	if best < 0 {
		return 0, 0, false
	}
	return c.nodes[best].blk, c.nodes[best].idx, true
}

// dominates reports whether node a is executed before b on every path from entry to b.
// Within one CFG node (same statement) source order is used.
func (c *FnCFG) dominates(a, b ast.Node) bool {
	ab, ai, ok1 := c.locate(a)
	bb, bi, ok2 := c.locate(b)
	if !ok1 || !ok2 {
		return false
	}
	if !c.g.Blocks[bb].Live {
		return true // b is unreachable: vacuously dominated
	}
	if ab == bb {
		if ai != bi {
			return ai < bi
		}
		return a.End() <= b.Pos()
	}
	return c.domsets[bb][ab]
}

func (c *FnCFG) live(n ast.Node) bool {
	b, _, ok := c.locate(n)
	return ok && c.g.Blocks[b].Live
}

// reachableWithout reports whether `to` can be reached from `from` along CFG paths that avoid every node in `avoid`.
// (used for "no release between acquire and use", "exactly once" style checks)
func (c *FnCFG) blockOf(n ast.Node) int {
	b, _, ok := c.locate(n)
	if !ok {
		return -1
	}
	return b
}

// returns lists the return statements in body (not inside nested literals).
func returnsOf(body ast.Node) []*ast.ReturnStmt {
	var out []*ast.ReturnStmt
	inspectNoLit(body, func(x ast.Node) bool {
		if r, ok := x.(*ast.ReturnStmt); ok {
			out = append(out, r)
		}
		return true
	})
	return out
}

// ---------- switch helpers ----------

// typeSwitchOn returns the first type switch in body whose scrutinee has the named interface type (e.g. "ast.Expr").
func (p *Prog) typeSwitches(body ast.Node) []*ast.TypeSwitchStmt {
	var out []*ast.TypeSwitchStmt
	inspectNoLit(body, func(x ast.Node) bool {
		if ts, ok := x.(*ast.TypeSwitchStmt); ok {
			out = append(out, ts)
		}
		return true
	})
	return out
}

// tsScrutinee returns the expression being switched on.
func tsScrutinee(ts *ast.TypeSwitchStmt) ast.Expr {
	var ta *ast.TypeAssertExpr
	switch a := ts.Assign.(type) {
	case *ast.AssignStmt:
		ta, _ = a.Rhs[0].(*ast.TypeAssertExpr)
	case *ast.ExprStmt:
		ta, _ = a.X.(*ast.TypeAssertExpr)
	}
	if ta == nil {
		return nil
	}
	return ta.X
}

// tsCases maps the type name of each case ("ast.ListExpr", pointer stars dropped) to its clause; "default" for default.
func (p *Prog) tsCases(ts *ast.TypeSwitchStmt) map[string]*ast.CaseClause {
	out := map[string]*ast.CaseClause{}
	for _, s := range ts.Body.List {
		cc := s.(*ast.CaseClause)
		if cc.List == nil {
			out["default"] = cc
			continue
		}
		for _, e := range cc.List {
			t := p.typeOf(e)
			if pt, ok := t.(*types.Pointer); ok {
				t = pt.Elem()
			}
			out[typeStr(t)] = cc
		}
	}
	return out
}

// switchCasesByConst maps resolved constant names of `switch tag { case C1, C2: }` to clauses.
func (p *Prog) switchCasesByConst(sw *ast.SwitchStmt) map[string]*ast.CaseClause {
	out := map[string]*ast.CaseClause{}
	for _, s := range sw.Body.List {
		cc := s.(*ast.CaseClause)
		if cc.List == nil {
			out["default"] = cc
			continue
		}
		for _, e := range cc.List {
			if o := p.objOf(e); o != nil {
				out[qual(o)] = cc
			} else {
				out[src(e)] = cc
			}
		}
	}
	return out
}

func sortedStr(m map[string]bool) []string {
	var ks []string
	for k := range m {
		ks = append(ks, k)
	}
	sort.Strings(ks)
	return ks
}

func fnName(pk string, fd *ast.FuncDecl) string {
	if fd.Recv != nil && len(fd.Recv.List) == 1 {
		t := fd.Recv.List[0].Type
		if s, ok := t.(*ast.StarExpr); ok {
			t = s.X
		}
		if id, ok := t.(*ast.Ident); ok {
			return pk + "." + id.Name + "." + fd.Name.Name
		}
	}
	return pk + "." + fd.Name.Name
}
