package main

import (
	"fmt"
	"go/ast"
	"go/constant"
	"go/token"
	"go/types"
	"reflect"
	"sort"
	"strings"

	"golang.org/x/tools/go/cfg"
	"golang.org/x/tools/go/types/typeutil"
)

// ---------- naming resolved objects ----------

// qual names a resolved object: "util.Assert", "val.NumVal.Int" (method), "fmt.Println", "builtin.panic",
// "types.Num" (var), "vm.OP_CONST" (const). Module packages use their short path.
func qual(o types.Object) string {
	if o == nil {
		return ""
	}
	if _, ok := o.(*types.Builtin); ok {
		return "builtin." + o.Name()
	}
	pk := ""
	if o.Pkg() != nil {
		pk = short(o.Pkg().Path())
	}
	if f, ok := o.(*types.Func); ok {
		if sig, ok := f.Type().(*types.Signature); ok && sig.Recv() != nil {
			t := sig.Recv().Type()
			if pt, ok := t.(*types.Pointer); ok {
				t = pt.Elem()
			}
			if n, ok := t.(*types.Named); ok {
				return pk + "." + n.Obj().Name() + "." + f.Name()
			}
			return pk + ".?." + f.Name()
		}
	}
	if v, ok := o.(*types.Var); ok && v.IsField() {
		return pk + ".field." + v.Name()
	}
	return pk + "." + o.Name()
}

// calleeName resolves the static callee of a call through type information ("" for dynamic calls).
func (p *Prog) calleeName(call *ast.CallExpr) string {
	info := p.infoAt(call)
	if info == nil {
		return ""
	}
	return qual(staticCallee(info, call))
}

// staticCallee is typeutil.Callee restricted to functions, methods and builtins (a func-typed variable is a dynamic call).
func staticCallee(info *types.Info, call *ast.CallExpr) types.Object {
	o := typeutil.Callee(info, call)
	switch o.(type) {
	case *types.Func, *types.Builtin:
		return o
	}
	return nil
}

func (p *Prog) calleeObj(call *ast.CallExpr) types.Object {
	info := p.infoAt(call)
	if info == nil {
		return nil
	}
	return staticCallee(info, call)
}

// objOf resolves an identifier or selector expression to its object.
func (p *Prog) objOf(e ast.Expr) types.Object {
	info := p.infoAt(e)
	if info == nil {
		return nil
	}
	switch x := e.(type) {
	case *ast.Ident:
		if o := info.Uses[x]; o != nil {
			return o
		}
		return info.Defs[x]
	case *ast.SelectorExpr:
		if s := info.Selections[x]; s != nil {
			return s.Obj()
		}
		return info.Uses[x.Sel]
	case *ast.ParenExpr:
		return p.objOf(x.X)
	}
	return nil
}

func (p *Prog) typeOf(e ast.Expr) types.Type {
	info := p.infoAt(e)
	if info == nil {
		return nil
	}
	return info.TypeOf(e)
}

// constOf evaluates a constant expression (nil if not constant).
func (p *Prog) constOf(e ast.Expr) constant.Value {
	info := p.infoAt(e)
	if info == nil {
		return nil
	}
	return info.Types[e].Value
}

func typeStr(t types.Type) string {
	if t == nil {
		return "?"
	}
	return types.TypeString(t, func(pk *types.Package) string { return short(pk.Path()) })
}

// ---------- traversal ----------

// inspectNoLit walks n without descending into function literals (their bodies run at another time).
func inspectNoLit(n ast.Node, f func(ast.Node) bool) {
	ast.Inspect(n, func(x ast.Node) bool {
		if x == nil {
			return false
		}
		if _, ok := x.(*ast.FuncLit); ok && x != n {
			return false
		}
		return f(x)
	})
}

func unparen(e ast.Expr) ast.Expr {
	for {
		p, ok := e.(*ast.ParenExpr)
		if !ok {
			return e
		}
		e = p.X
	}
}

// calls returns all call expressions in n (not inside nested function literals) in source order.
func (p *Prog) calls(n ast.Node) []*ast.CallExpr {
	var out []*ast.CallExpr
	inspectNoLit(n, func(x ast.Node) bool {
		if c, ok := x.(*ast.CallExpr); ok {
			out = append(out, c)
		}
		return true
	})
	sort.SliceStable(out, func(i, j int) bool { return out[i].Pos() < out[j].Pos() })
	return out
}

// callsTo returns the calls in n whose resolved callee name is one of names.
func (p *Prog) callsTo(n ast.Node, names ...string) []*ast.CallExpr {
	var out []*ast.CallExpr
	for _, c := range p.calls(n) {
		cn := p.calleeName(c)
		for _, nm := range names {
			if cn == nm {
				out = append(out, c)
			}
		}
	}
	return out
}

// allCallsDeep is like calls but also descends into function literals.
func (p *Prog) allCallsDeep(n ast.Node) []*ast.CallExpr {
	var out []*ast.CallExpr
	ast.Inspect(n, func(x ast.Node) bool {
		if c, ok := x.(*ast.CallExpr); ok {
			out = append(out, c)
		}
		return true
	})
	return out
}

// funcLits returns function literals directly inside n (not nested in other literals).
func funcLits(n ast.Node) []*ast.FuncLit {
	var out []*ast.FuncLit
	ast.Inspect(n, func(x ast.Node) bool {
		if l, ok := x.(*ast.FuncLit); ok && x != n {
			out = append(out, l)
			return false
		}
		return true
	})
	return out
}

// ---------- canonical printing (positions, parentheses and comments dropped) ----------

type sxOpts struct {
	subst func(n ast.Node) (string, bool) // replacement for a node, if any
}

func sx(n interface{}) string { return sxWith(n, nil) }

func sxWith(n interface{}, subst func(n ast.Node) (string, bool)) string {
	var b strings.Builder
	sxRec(&b, reflect.ValueOf(n), subst)
	return b.String()
}

var (
	posType   = reflect.TypeOf(token.NoPos)
	objType   = reflect.TypeOf((*ast.Object)(nil))
	scopeType = reflect.TypeOf((*ast.Scope)(nil))
	cgType    = reflect.TypeOf((*ast.CommentGroup)(nil))
)

func sxRec(b *strings.Builder, v reflect.Value, subst func(n ast.Node) (string, bool)) {
	if !v.IsValid() {
		b.WriteString("nil")
		return
	}
	switch v.Kind() {
	case reflect.Interface:
		if v.IsNil() {
			b.WriteString("nil")
			return
		}
		sxRec(b, v.Elem(), subst)
	case reflect.Ptr:
		if v.IsNil() {
			b.WriteString("nil")
			return
		}
		if n, ok := v.Interface().(ast.Node); ok {
			if pe, ok := n.(*ast.ParenExpr); ok {
				sxRec(b, reflect.ValueOf(pe.X), subst)
				return
			}
			if subst != nil {
				if s, ok := subst(n); ok {
					b.WriteString(s)
					return
				}
			}
			if id, ok := n.(*ast.Ident); ok {
				b.WriteString(id.Name)
				return
			}
			if bl, ok := n.(*ast.BasicLit); ok {
				b.WriteString(bl.Value)
				return
			}
		}
		sxRec(b, v.Elem(), subst)
	case reflect.Struct:
		t := v.Type()
		b.WriteString("(")
		b.WriteString(t.Name())
		for i := 0; i < t.NumField(); i++ {
			ft := t.Field(i)
			if ft.Type == posType || ft.Type == objType || ft.Type == scopeType || ft.Type == cgType {
				continue
			}
			if ft.Name == "Incomplete" {
				continue
			}
			f := v.Field(i)
			if (f.Kind() == reflect.Ptr || f.Kind() == reflect.Interface || f.Kind() == reflect.Slice) && f.IsNil() {
				continue
			}
			b.WriteString(" ")
			if ft.Name != "X" && ft.Name != "List" {
				b.WriteString(ft.Name + ":")
			}
			sxRec(b, f, subst)
		}
		b.WriteString(")")
	case reflect.Slice:
		b.WriteString("[")
		for i := 0; i < v.Len(); i++ {
			if i > 0 {
				b.WriteString(" ")
			}
			sxRec(b, v.Index(i), subst)
		}
		b.WriteString("]")
	case reflect.String:
		b.WriteString(v.String())
	case reflect.Bool:
		fmt.Fprintf(b, "%v", v.Bool())
	case reflect.Int, reflect.Int8, reflect.Int16, reflect.Int32, reflect.Int64:
		if v.Type() == reflect.TypeOf(token.ADD) {
			b.WriteString(token.Token(v.Int()).String())
		} else {
			fmt.Fprintf(b, "%d", v.Int())
		}
	default:
		fmt.Fprintf(b, "<%s>", v.Kind())
	}
}

// src renders a node compactly for human messages (uses types.ExprString for expressions).
func src(n ast.Node) string {
	if e, ok := n.(ast.Expr); ok {
		return types.ExprString(e)
	}
	return fmt.Sprintf("%T", n)
}

// ---------- control-flow graph with dominators ----------

type FnCFG struct {
	p       *Prog
	g       *cfg.CFG
	idom    []int          // unused
	domsets []map[int]bool // dominator sets per block
	nodes   []cfgNode
	body    *ast.BlockStmt
	owner   map[ast.Node]int // syntax node -> index of the CFG node it belongs to (by identity)
}

type cfgNode struct {
	n        ast.Node
	blk, idx int
}

// noReturn says whether a call never returns (panic, util.Unreachable, util.Assert(false, ...)).
func (p *Prog) noReturn(call *ast.CallExpr) bool {
	switch p.calleeName(call) {
	case "builtin.panic", "util.Unreachable", "os.Exit":
		return true
	case "util.Assert":
		if len(call.Args) > 0 {
			if c := p.constOf(call.Args[0]); c != nil && c.Kind() == constant.Bool && !constant.BoolVal(c) {
				return true
			}
		}
	case "parser.parser.syntaxAssert":
		if len(call.Args) > 1 {
			if c := p.constOf(call.Args[1]); c != nil && c.Kind() == constant.Bool && !constant.BoolVal(c) {
				return true
			}
		}
	}
	return false
}

func (p *Prog) buildCFG(body *ast.BlockStmt) *FnCFG {
	g := cfg.New(body, func(c *ast.CallExpr) bool { return !p.noReturn(c) })
	c := &FnCFG{p: p, g: g, body: body}
	for _, b := range g.Blocks {
		for i, n := range b.Nodes {
			c.nodes = append(c.nodes, cfgNode{n, int(b.Index), i})
		}
	}
	c.computeDom()
	return c
}

func (c *FnCFG) computeDom() {
	n := len(c.g.Blocks)
	preds := make([][]int, n)
	for _, b := range c.g.Blocks {
		for _, s := range b.Succs {
			preds[s.Index] = append(preds[s.Index], int(b.Index))
		}
	}
	// dominator sets by iteration (graphs are tiny)
	dom := make([]map[int]bool, n)
	all := map[int]bool{}
	for i := 0; i < n; i++ {
		all[i] = true
	}
	for i := 0; i < n; i++ {
		if i == 0 {
			dom[i] = map[int]bool{0: true}
		} else {
			m := map[int]bool{}
			for k := range all {
				m[k] = true
			}
			dom[i] = m
		}
	}
	changed := true
	for changed {
		changed = false
		for i := 1; i < n; i++ {
			var nd map[int]bool
			for _, pr := range preds[i] {
				if !c.g.Blocks[pr].Live {
					continue
				}
				if nd == nil {
					nd = map[int]bool{}
					for k := range dom[pr] {
						nd[k] = true
					}
				} else {
					for k := range nd {
						if !dom[pr][k] {
							delete(nd, k)
						}
					}
				}
			}
			if nd == nil {
				nd = map[int]bool{}
			}
			nd[i] = true
			if len(nd) != len(dom[i]) {
				dom[i] = nd
				changed = true
			}
		}
	}
	c.idom = make([]int, n)
	c.domsets = dom
}

// locate finds the CFG node (block, index) whose syntax contains n (innermost).
func (c *FnCFG) locate(n ast.Node) (int, int, bool) {
	// by identity first: virtually inlined code keeps the callee's positions (and substituted arguments the call site's), so
	// position containment alone can land in another statement
	if c.owner == nil {
		c.owner = map[ast.Node]int{}
		for i, cn := range c.nodes {
			i := i
			ast.Inspect(cn.n, func(x ast.Node) bool {
				if x != nil {
					if _, dup := c.owner[x]; !dup {
						c.owner[x] = i
					}
				}
				return true
			})
		}
	}
	if i, ok := c.owner[n]; ok {
		return c.nodes[i].blk, c.nodes[i].idx, true
	}
	// a compound statement (loop, if, switch) is not a CFG node itself: the first CFG node among its descendants
	{
		first := -1
		ast.Inspect(n, func(x ast.Node) bool {
			if first >= 0 || x == nil {
				return false
			}
			if i, ok := c.owner[x]; ok && c.nodes[i].n == x {
				first = i
				return false
			}
			return true
		})
		if first >= 0 {
			return c.nodes[first].blk, c.nodes[first].idx, true
		}
	}
	best := -1
	var bestSize token.Pos
	for i, cn := range c.nodes {
		if cn.n.Pos() <= n.Pos() && n.End() <= cn.n.End() {
			sz := cn.n.End() - cn.n.Pos()
			if best < 0 || sz < bestSize {
				best, bestSize = i, sz
			}
		}
	}
	if best < 0 {
		// compound statement (loop, if, switch): use the first CFG node inside it
		var first token.Pos = -1
		for i, cn := range c.nodes {
			if n.Pos() <= cn.n.Pos() && cn.n.End() <= n.End() && (first < 0 || cn.n.Pos() < first) {
				best, first = i, cn.n.Pos()
			}
		}
	}
	if best < 0 {
		return 0, 0, false
	}
	return c.nodes[best].blk, c.nodes[best].idx, true
}

// dominates reports whether node a is executed before b on every path from entry to b.
// Within one CFG node (same statement) source order is used.
func (c *FnCFG) dominates(a, b ast.Node) bool {
	ab, ai, ok1 := c.locate(a)
	bb, bi, ok2 := c.locate(b)
	if !ok1 || !ok2 {
		return false
	}
	if !c.g.Blocks[bb].Live {
		return true // b is unreachable: vacuously dominated
	}
	if ab == bb {
		if ai != bi {
			return ai < bi
		}
		return a.End() <= b.Pos()
	}
	return c.domsets[bb][ab]
}

func (c *FnCFG) live(n ast.Node) bool {
	b, _, ok := c.locate(n)
	return ok && c.g.Blocks[b].Live
}

// reachableWithout reports whether `to` can be reached from `from` along CFG paths that avoid every node in `avoid`.
// (used for "no release between acquire and use", "exactly once" style checks)
func (c *FnCFG) blockOf(n ast.Node) int {
	b, _, ok := c.locate(n)
	if !ok {
		return -1
	}
	return b
}

// returns lists the return statements in body (not inside nested literals).
func returnsOf(body ast.Node) []*ast.ReturnStmt {
	var out []*ast.ReturnStmt
	inspectNoLit(body, func(x ast.Node) bool {
		if r, ok := x.(*ast.ReturnStmt); ok {
			out = append(out, r)
		}
		return true
	})
	return out
}

// ---------- switch helpers ----------

// typeSwitchOn returns the first type switch in body whose scrutinee has the named interface type (e.g. "ast.Expr").
func (p *Prog) typeSwitches(body ast.Node) []*ast.TypeSwitchStmt {
	var out []*ast.TypeSwitchStmt
	inspectNoLit(body, func(x ast.Node) bool {
		if ts, ok := x.(*ast.TypeSwitchStmt); ok {
			out = append(out, ts)
		}
		return true
	})
	return out
}

// tsScrutinee returns the expression being switched on.
func tsScrutinee(ts *ast.TypeSwitchStmt) ast.Expr {
	var ta *ast.TypeAssertExpr
	switch a := ts.Assign.(type) {
	case *ast.AssignStmt:
		ta, _ = a.Rhs[0].(*ast.TypeAssertExpr)
	case *ast.ExprStmt:
		ta, _ = a.X.(*ast.TypeAssertExpr)
	}
	if ta == nil {
		return nil
	}
	return ta.X
}

// tsCases maps the type name of each case ("ast.ListExpr", pointer stars dropped) to its clause; "default" for default.
func (p *Prog) tsCases(ts *ast.TypeSwitchStmt) map[string]*ast.CaseClause {
	out := map[string]*ast.CaseClause{}
	for _, s := range ts.Body.List {
		cc := s.(*ast.CaseClause)
		if cc.List == nil {
			out["default"] = cc
			continue
		}
		for _, e := range cc.List {
			t := p.typeOf(e)
			if pt, ok := t.(*types.Pointer); ok {
				t = pt.Elem()
			}
			out[typeStr(t)] = cc
		}
	}
	return out
}

// switchCasesByConst maps resolved constant names of `switch tag { case C1, C2: }` to clauses.
func (p *Prog) switchCasesByConst(sw *ast.SwitchStmt) map[string]*ast.CaseClause {
	out := map[string]*ast.CaseClause{}
	for _, s := range sw.Body.List {
		cc := s.(*ast.CaseClause)
		if cc.List == nil {
			out["default"] = cc
			continue
		}
		for _, e := range cc.List {
			if o := p.objOf(e); o != nil {
				out[qual(o)] = cc
			} else {
				out[src(e)] = cc
			}
		}
	}
	return out
}

func sortedStr(m map[string]bool) []string {
	var ks []string
	for k := range m {
		ks = append(ks, k)
	}
	sort.Strings(ks)
	return ks
}

func fnName(pk string, fd *ast.FuncDecl) string {
	if fd.Recv != nil && len(fd.Recv.List) == 1 {
		t := fd.Recv.List[0].Type
		if s, ok := t.(*ast.StarExpr); ok {
			t = s.X
		}
		if id, ok := t.(*ast.Ident); ok {
			return pk + "." + id.Name + "." + fd.Name.Name
		}
	}
	return pk + "." + fd.Name.Name
}

// ---------- alpha-normalised printing ----------

// localNames gives role names to the variables of a function so that patterns survive renaming:
// receiver "$r", parameters "$p0", "$p1", ... (signature position), named results "$res0", ...,
// and the variables declared inside `scope` (default: the whole function) "$0", "$1", ... in declaration order.
// fn is *ast.FuncDecl or *ast.FuncLit; scope may be nil.
func (p *Prog) localNames(fn ast.Node, scope ast.Node) map[types.Object]string {
	info := p.infoAt(fn)
	out := map[types.Object]string{}
	if info == nil {
		return out
	}
	var ft *ast.FuncType
	var body ast.Node
	switch f := fn.(type) {
	case *ast.FuncDecl:
		ft, body = f.Type, f.Body
		if f.Recv != nil {
			for _, fl := range f.Recv.List {
				for _, n := range fl.Names {
					out[info.Defs[n]] = "$r"
				}
			}
		}
	case *ast.FuncLit:
		ft, body = f.Type, f.Body
	default:
		body = fn
	}
	if ft != nil {
		k := 0
		for _, fl := range ft.Params.List {
			for _, n := range fl.Names {
				out[info.Defs[n]] = fmt.Sprintf("$p%d", k)
				k++
			}
			if len(fl.Names) == 0 {
				k++
			}
		}
		if ft.Results != nil {
			k = 0
			for _, fl := range ft.Results.List {
				for _, n := range fl.Names {
					out[info.Defs[n]] = fmt.Sprintf("$res%d", k)
					k++
				}
			}
		}
	}
	if scope == nil {
		scope = body
	}
	if scope == nil {
		return out
	}
	var objs []types.Object
	seen := map[types.Object]bool{}
	ast.Inspect(scope, func(x ast.Node) bool {
		switch n := x.(type) {
		case *ast.Ident:
			o := info.Defs[n]
			if v, ok := o.(*types.Var); ok && !v.IsField() && !seen[o] && n.Name != "_" {
				if _, named := out[o]; !named {
					seen[o] = true
					objs = append(objs, o)
				}
			}
		case *ast.CaseClause:
			if o := info.Implicits[n]; o != nil {
				out[o] = "$e" // the symbol of a type switch
			}
		}
		return true
	})
	sort.SliceStable(objs, func(i, j int) bool { return objs[i].Pos() < objs[j].Pos() })
	for k, o := range objs {
		out[o] = fmt.Sprintf("$%d", k)
	}
	return out
}

// sxN prints n canonically and name-independently: receiver "$r", parameters "$pN" (of fn, the innermost enclosing
// *ast.FuncDecl / *ast.FuncLit given by the caller), the symbol of a type switch "$e", every other variable declared
// inside fn "$0", "$1", ... in order of first appearance *within n*. Package-level names, fields, functions and
// constants keep their names. Renaming a local or a parameter does not change the output.
func (p *Prog) sxN(fn ast.Node, n interface{}) string { return p.sxNWith(fn, n, nil) }

// sxNWith is sxN with an extra substitution that is tried first.
func (p *Prog) sxNWith(fn ast.Node, n interface{}, extra func(ast.Node) (string, bool)) string {
	roles := p.localNames(fn, fn) // receiver/params/results; locals are renumbered below
	info := p.infoAt(fn)
	seen := map[types.Object]string{}
	inFn := func(o types.Object) bool {
		if o.Pos() >= fn.Pos() && o.Pos() <= fn.End() {
			return true
		}
		for _, r := range p.inlRanges { // a local of a helper whose body was virtually inlined into (the function around) fn
			if o.Pos() >= r.bodyPos && o.Pos() <= r.bodyEnd && r.hostPos <= fn.Pos() && fn.End() <= r.hostEnd {
				return true
			}
		}
		return false
	}
	return sxWith(n, func(x ast.Node) (string, bool) {
		if extra != nil {
			if s, ok := extra(x); ok {
				return s, true
			}
		}
		id, ok := x.(*ast.Ident)
		if !ok || info == nil || id.Name == "_" {
			return "", false
		}
		o := p.objOf(id)
		v, isVar := o.(*types.Var)
		if !isVar || v.IsField() {
			return "", false
		}
		if r, ok := roles[o]; ok && (strings.HasPrefix(r, "$p") || strings.HasPrefix(r, "$r") || r == "$e") {
			return r, true
		}
		if v.Pkg() != nil && v.Parent() == v.Pkg().Scope() {
			return "", false // package-level variable
		}
		if !inFn(o) {
			return "^" + id.Name, true // captured from an enclosing function: keep the name, marked
		}
		if s, ok := seen[o]; ok {
			return s, true
		}
		s := fmt.Sprintf("$%d", len(seen))
		seen[o] = s
		return s, true
	})
}

// hasNode reports whether some node (or statement list) inside root prints, name-independently, as pat
// (prefix match if prefix is set).
func (p *Prog) hasNode(fn ast.Node, root ast.Node, pat string, prefix bool) bool {
	found := false
	match := func(n interface{}) {
		s := p.sxN(fn, n)
		if s == pat || (prefix && strings.HasPrefix(s, pat)) {
			found = true
		}
	}
	ast.Inspect(root, func(x ast.Node) bool {
		if x == nil || found {
			return false
		}
		match(x)
		switch b := x.(type) {
		case *ast.BlockStmt:
			match(b.List)
		case *ast.CaseClause:
			match(b.Body)
		}
		return true
	})
	return found
}

// sxF prints n canonically with the variables of fn replaced by their role names (see localNames).
func (p *Prog) sxF(fn ast.Node, n interface{}) string { return p.sxS(fn, nil, n) }

// sxS is sxF with local numbering restricted to the declarations inside scope (a case clause, a block).
func (p *Prog) sxS(fn ast.Node, scope ast.Node, n interface{}) string {
	names := p.localNames(fn, scope)
	return sxWith(n, func(x ast.Node) (string, bool) {
		if id, ok := x.(*ast.Ident); ok {
			if s, ok := names[p.objOf(id)]; ok {
				return s, true
			}
		}
		return "", false
	})
}

// ---------- assertion idioms ----------

// assertion is a condition that holds for everything its node dominates.
type assertion struct {
	node ast.Node // the Assert call, or the condition of the guarding if
	cond ast.Expr // the condition in positive form
}

var flipOp = map[token.Token]token.Token{token.LSS: token.GEQ, token.GEQ: token.LSS, token.GTR: token.LEQ, token.LEQ: token.GTR, token.EQL: token.NEQ, token.NEQ: token.EQL}

// asserted enumerates the assertion idioms of this repository in body (not inside nested literals):
//
//	util.Assert(c, ..)                      asserts c
//	if !c { panic(..) / util.Unreachable }  asserts c
//	if a OP b { panic(..) }                 asserts a !OP b
func (p *Prog) asserted(body ast.Node) []assertion {
	var out []assertion
	inspectNoLit(body, func(x ast.Node) bool {
		switch s := x.(type) {
		case *ast.CallExpr:
			if p.calleeName(s) == "util.Assert" && len(s.Args) > 0 {
				out = append(out, assertion{s, s.Args[0]})
			}
		case *ast.IfStmt:
			if s.Else != nil || s.Init != nil || len(s.Body.List) == 0 {
				return true
			}
			last, ok := s.Body.List[len(s.Body.List)-1].(*ast.ExprStmt)
			if !ok {
				return true
			}
			ce, ok := last.X.(*ast.CallExpr)
			if !ok || !p.noReturn(ce) {
				return true
			}
			switch cnd := unparen(s.Cond).(type) {
			case *ast.UnaryExpr:
				if cnd.Op == token.NOT {
					out = append(out, assertion{s.Cond, cnd.X})
				}
			case *ast.BinaryExpr:
				if f, ok := flipOp[cnd.Op]; ok {
					out = append(out, assertion{s.Cond, &ast.BinaryExpr{X: cnd.X, OpPos: cnd.OpPos, Op: f, Y: cnd.Y}})
				}
			}
		}
		return true
	})
	sort.SliceStable(out, func(i, j int) bool { return out[i].node.Pos() < out[j].node.Pos() })
	return out
}

// ---------- path enumeration over structured, loop-free code ----------

// pathCond is a branch condition with the polarity it has on the path.
type pathCond struct {
	e          ast.Expr
	pos        bool
	fromAssert bool // comes from util.Assert(e) rather than from a branch
}

// retPath is one acyclic path through a statement list: the conditions assumed, the statements executed (straight-line
// ones, in order) and how the path ends.
type retPath struct {
	conds []pathCond
	stmts []ast.Stmt
	ret   *ast.ReturnStmt // nil when the path panics or falls off the end
	end   string          // "return" | "panic" | "fall"
}

// retPaths enumerates the paths of a loop-free statement list (if / else-if chains, early returns, util.Assert, constant
// conditions pruned, expression switches with constant cases). ok is false when the code contains a loop with a return
// inside, a goto, a select, or more than 64 paths: the caller must then report `undecided`, never guess.
func (p *Prog) retPaths(list []ast.Stmt) ([]retPath, bool) { return p.retPaths0(list, false) }

// retPathsLoose is retPaths that treats a loop with a return inside as one opaque statement (for summaries that print
// the loop in full); the enumeration is then not a complete case analysis of the results.
func (p *Prog) retPathsLoose(list []ast.Stmt) ([]retPath, bool) { return p.retPaths0(list, true) }

func (p *Prog) retPaths0(list []ast.Stmt, loose bool) ([]retPath, bool) {
	type st struct {
		conds []pathCond
		stmts []ast.Stmt
	}
	ok := true
	var done []retPath
	var run func(list []ast.Stmt, in []st) []st
	cp := func(s st) st {
		return st{append([]pathCond{}, s.conds...), append([]ast.Stmt{}, s.stmts...)}
	}
	run = func(list []ast.Stmt, open []st) []st {
		for _, s := range list {
			if len(open) == 0 {
				return nil
			}
			if len(open)+len(done) > 64 {
				ok = false
				return nil
			}
			switch x := s.(type) {
			case *ast.ReturnStmt:
				for _, o := range open {
					done = append(done, retPath{o.conds, o.stmts, x, "return"})
				}
				return nil
			case *ast.BlockStmt:
				open = run(x.List, open)
			case *ast.IfStmt:
				if x.Init != nil {
					for i := range open {
						open[i].stmts = append(open[i].stmts, x.Init)
					}
				}
				var thenIn, elseIn []st
				cv := p.constOf(x.Cond)
				for _, o := range open {
					if cv == nil || constant.BoolVal(cv) {
						t := cp(o)
						if cv == nil {
							t.conds = append(t.conds, pathCond{e: x.Cond, pos: true})
						}
						thenIn = append(thenIn, t)
					}
					if cv == nil || !constant.BoolVal(cv) {
						e := cp(o)
						if cv == nil {
							e.conds = append(e.conds, pathCond{e: x.Cond, pos: false})
						}
						elseIn = append(elseIn, e)
					}
				}
				out := run(x.Body.List, thenIn)
				switch e := x.Else.(type) {
				case nil:
					out = append(out, elseIn...)
				case *ast.BlockStmt:
					out = append(out, run(e.List, elseIn)...)
				case *ast.IfStmt:
					out = append(out, run([]ast.Stmt{e}, elseIn)...)
				}
				open = out
			case *ast.ExprStmt:
				if ce, isCall := x.X.(*ast.CallExpr); isCall {
					if p.noReturn(ce) {
						for _, o := range open {
							o.stmts = append(o.stmts, s)
							done = append(done, retPath{o.conds, o.stmts, nil, "panic"})
						}
						return nil
					}
					if p.calleeName(ce) == "util.Assert" && len(ce.Args) > 0 {
						for i := range open {
							open[i].conds = append(open[i].conds, pathCond{ce.Args[0], true, true})
						}
						continue
					}
				}
				for i := range open {
					open[i].stmts = append(open[i].stmts, s)
				}
			case *ast.ForStmt, *ast.RangeStmt:
				if len(returnsOf(s)) > 0 && !loose {
					ok = false
					return nil
				}
				for i := range open {
					open[i].stmts = append(open[i].stmts, s)
				}
			case *ast.SwitchStmt:
				if x.Init != nil || x.Body == nil {
					ok = false
					return nil
				}
				var out []st
				var negs []pathCond
				hasDefault := false
				var deflt *ast.CaseClause
				for _, cs := range x.Body.List {
					cc := cs.(*ast.CaseClause)
					if cc.List == nil {
						hasDefault, deflt = true, cc
						continue
					}
					if len(cc.List) != 1 {
						ok = false
						return nil
					}
					var cond ast.Expr = cc.List[0]
					if x.Tag != nil {
						cond = &ast.BinaryExpr{X: x.Tag, Op: token.EQL, Y: cc.List[0], OpPos: cc.Pos()}
					}
					var in []st
					for _, o := range open {
						t := cp(o)
						t.conds = append(append(t.conds, negs...), pathCond{e: cond, pos: true})
						in = append(in, t)
					}
					out = append(out, run(cc.Body, in)...)
					negs = append(negs, pathCond{e: cond, pos: false})
				}
				var in []st
				for _, o := range open {
					t := cp(o)
					t.conds = append(t.conds, negs...)
					in = append(in, t)
				}
				if hasDefault {
					out = append(out, run(deflt.Body, in)...)
				} else {
					out = append(out, in...)
				}
				open = out
			case *ast.BranchStmt, *ast.SelectStmt, *ast.LabeledStmt, *ast.GoStmt, *ast.TypeSwitchStmt:
				ok = false
				return nil
			default:
				for i := range open {
					open[i].stmts = append(open[i].stmts, s)
				}
			}
		}
		return open
	}
	rest := run(list, []st{{}})
	for _, o := range rest {
		done = append(done, retPath{o.conds, o.stmts, nil, "fall"})
	}
	return done, ok
}

// ---------- loop abstraction ----------

// absLoop is a loop over the elements of one sequence, whichever way it is written:
//
//	for i, e := range X            for _, e := range X          for i := range X
//	for i := k; i < len(X); i++    for i := k; i < n; i++  (n := len(X))
//
// seq is X with a single-assignment temporary resolved (`tmp := f(y); for .. range tmp` has seq f(y)).
type absLoop struct {
	stmt      ast.Stmt
	seq       ast.Expr
	seqRaw    ast.Expr
	body      *ast.BlockStmt
	idx, elem types.Object
	start     ast.Expr // nil: starts at element 0
	bound     ast.Expr // counted loops: the (resolved) upper bound; seq is nil when it is not len(X)
}

func (p *Prog) absLoops(body ast.Node, defs map[types.Object]ast.Expr) []absLoop {
	resolve := func(e ast.Expr) ast.Expr {
		for d := 0; d < 4; d++ {
			id, ok := unparen(e).(*ast.Ident)
			if !ok {
				break
			}
			def, ok := defs[p.objOf(id)]
			if !ok {
				break
			}
			e = def
		}
		return e
	}
	var out []absLoop
	inspectNoLit(body, func(x ast.Node) bool {
		switch s := x.(type) {
		case *ast.RangeStmt:
			l := absLoop{stmt: s, seqRaw: s.X, seq: resolve(s.X), body: s.Body}
			// `range X[k:]` starts at k
			if se, ok := unparen(l.seq).(*ast.SliceExpr); ok && se.High == nil && se.Max == nil && se.Low != nil {
				l.start, l.seq, l.seqRaw = se.Low, resolve(se.X), se.X
				// the index variable then counts from 0: not an index into X
			} else if s.Key != nil {
				if id, ok := s.Key.(*ast.Ident); ok && id.Name != "_" {
					l.idx = p.objOf(id)
				}
			}
			if s.Value != nil {
				if id, ok := s.Value.(*ast.Ident); ok && id.Name != "_" {
					l.elem = p.objOf(id)
				}
			}
			out = append(out, l)
		case *ast.ForStmt:
			init, ok1 := s.Init.(*ast.AssignStmt)
			cond, ok2 := s.Cond.(*ast.BinaryExpr)
			post, ok3 := s.Post.(*ast.IncDecStmt)
			if !ok1 || !ok2 || !ok3 || cond.Op != token.LSS || post.Tok != token.INC || len(init.Lhs) != 1 || len(init.Rhs) != 1 {
				return true
			}
			iv := p.objOf(init.Lhs[0])
			if iv == nil || p.objOf(cond.X) != iv || p.objOf(post.X) != iv {
				return true
			}
			bound := resolve(cond.Y)
			l := absLoop{stmt: s, body: s.Body, idx: iv, bound: bound}
			if ce, ok := unparen(bound).(*ast.CallExpr); ok && p.calleeName(ce) == "builtin.len" && len(ce.Args) == 1 {
				l.seqRaw, l.seq = ce.Args[0], resolve(ce.Args[0])
			}
			if v := p.constOf(init.Rhs[0]); v == nil || constant.Sign(v) != 0 {
				l.start = init.Rhs[0]
			}
			out = append(out, l)
		}
		return true
	})
	return out
}

// isElem: e denotes the current element of the loop (the element variable, or seq[idx]).
func (l absLoop) isElem(p *Prog, e ast.Expr) bool {
	e = unparen(e)
	if id, ok := e.(*ast.Ident); ok {
		return l.elem != nil && p.objOf(id) == l.elem
	}
	if ix, ok := e.(*ast.IndexExpr); ok && l.idx != nil && l.seq != nil {
		if id, ok := unparen(ix.Index).(*ast.Ident); ok && p.objOf(id) == l.idx {
			return sx(ix.X) == sx(l.seqRaw) || sx(ix.X) == sx(l.seq)
		}
	}
	return false
}

// startsAt reports the constant first index of the loop (0 when no start is given).
func (l absLoop) startsAt(p *Prog) (int64, bool) {
	if l.start == nil {
		return 0, true
	}
	if v := p.constOf(l.start); v != nil {
		k, ok := constant.Int64Val(v)
		return k, ok
	}
	return 0, false
}

// funcOf resolves an expression used as a function value to its syntax: a function literal, or the declaration of the
// named function / method it denotes (nil otherwise). Rules that analyse "the function stored in a table" accept both.
func (p *Prog) funcOf(e ast.Expr) (node ast.Node, ft *ast.FuncType, body *ast.BlockStmt) {
	e = unparen(e)
	if lit, ok := e.(*ast.FuncLit); ok {
		return lit, lit.Type, lit.Body
	}
	if f, ok := p.objOf(e).(*types.Func); ok {
		if fd := p.declOf(f); fd != nil && fd.Body != nil {
			return fd, fd.Type, fd.Body
		}
	}
	return nil, nil, nil
}

// condsAt returns the branch conditions that hold whenever control reaches n: for every two-way branch whose
// true (false) successor has that branch as its only live predecessor and dominates n's block, the condition holds
// positively (negatively); go/cfg keeps `a && b` as one condition, callers split it with conjuncts(condTerm(..)).
// Together with util.Assert calls that dominate n (after canonicalisation every `if c { panic }` is one) this is the
// "what is known here" used by rules that need control dependence rather than syntactic nesting.
func (c *FnCFG) condsAt(n ast.Node) []pathCond {
	nb, _, ok := c.locate(n)
	if !ok {
		return nil
	}
	livePreds := map[int][]int{}
	for _, b := range c.g.Blocks {
		if !b.Live {
			continue
		}
		for _, s := range b.Succs {
			livePreds[int(s.Index)] = append(livePreds[int(s.Index)], int(b.Index))
		}
	}
	var out []pathCond
	for _, b := range c.g.Blocks {
		if !b.Live || len(b.Succs) != 2 || len(b.Nodes) == 0 || b.Succs[0] == b.Succs[1] {
			continue
		}
		cond, isExpr := b.Nodes[len(b.Nodes)-1].(ast.Expr)
		if !isExpr {
			continue
		}
		for k, pol := range []bool{true, false} {
			s := int(b.Succs[k].Index)
			if len(livePreds[s]) == 1 && livePreds[s][0] == int(b.Index) && (s == nb || c.domsets[nb][s]) {
				out = append(out, pathCond{e: cond, pos: pol})
			}
		}
	}
	// dominating assertions
	for _, a := range c.p.asserted(c.body) {
		if a.node.Pos() <= n.Pos() && n.End() <= a.node.End() {
			continue
		}
		if c.dominates(a.node, n) {
			out = append(out, pathCond{e: a.cond, pos: true, fromAssert: true})
		}
	}
	return out
}

// reaches reports whether block `to` is reachable from block `from` along live CFG edges (from itself counts).
func (c *FnCFG) reaches(from, to int) bool {
	seen := map[int]bool{}
	var dfs func(b int) bool
	dfs = func(b int) bool {
		if b == to {
			return true
		}
		if seen[b] {
			return false
		}
		seen[b] = true
		for _, s := range c.g.Blocks[b].Succs {
			if dfs(int(s.Index)) {
				return true
			}
		}
		return false
	}
	return dfs(from)
}

// branchAtoms lists the two-way branches of the function (the whole condition; go/cfg does not split && / ||):
// the condition expression, and the blocks control goes to when it is true / false.
type branchAtom struct {
	cond            ast.Expr
	onTrue, onFalse int
}

func (c *FnCFG) branchAtoms() []branchAtom {
	var out []branchAtom
	for _, b := range c.g.Blocks {
		if !b.Live || len(b.Succs) != 2 || len(b.Nodes) == 0 {
			continue
		}
		if cond, ok := b.Nodes[len(b.Nodes)-1].(ast.Expr); ok {
			out = append(out, branchAtom{cond, int(b.Succs[0].Index), int(b.Succs[1].Index)})
		}
	}
	return out
}

// ancestors returns the chain of nodes from root down to (and excluding) target, by node identity. Virtually inlined
// code keeps the positions of the helper it came from, so containment must not be decided by positions.
func ancestors(root, target ast.Node) []ast.Node {
	var stack, found []ast.Node
	ast.Inspect(root, func(x ast.Node) bool {
		if found != nil {
			return false
		}
		if x == nil {
			stack = stack[:len(stack)-1]
			return false
		}
		if x == target {
			found = append([]ast.Node{}, stack...)
			return false
		}
		stack = append(stack, x)
		return true
	})
	return found
}

// tableEntry is one key -> value pair of a package-level map, however it is populated: an element of the variable's
// composite-literal initialiser, or an assignment `tbl[k] = v` anywhere in the package (typically in init()).
type tableEntry struct {
	key, val ast.Expr
	pos      token.Pos
}

func (p *Prog) tableEntries(sp, name string) []tableEntry {
	pk := p.Mod[sp]
	if pk == nil {
		return nil
	}
	want := sp + "." + name
	var out []tableEntry
	for _, f := range pk.Syntax {
		ast.Inspect(f, func(x ast.Node) bool {
			switch n := x.(type) {
			case *ast.ValueSpec:
				for i, id := range n.Names {
					if id.Name != name || i >= len(n.Values) {
						continue
					}
					if o := p.objOf(id); o == nil || qual(o) != want {
						continue
					}
					if cl, ok := unparen(n.Values[i]).(*ast.CompositeLit); ok {
						for _, e := range cl.Elts {
							if kv, ok := e.(*ast.KeyValueExpr); ok {
								out = append(out, tableEntry{kv.Key, kv.Value, kv.Pos()})
							}
						}
					}
				}
			case *ast.AssignStmt:
				if len(n.Lhs) != 1 || len(n.Rhs) != 1 {
					return true
				}
				ix, ok := n.Lhs[0].(*ast.IndexExpr)
				if !ok {
					return true
				}
				if o := p.objOf(ix.X); o == nil || qual(o) != want {
					return true
				}
				out = append(out, tableEntry{ix.Index, n.Rhs[0], n.Pos()})
			}
			return true
		})
	}
	sort.SliceStable(out, func(i, j int) bool { return out[i].pos < out[j].pos })
	return out
}

// condsThrough: the branch conditions known at n inside fd, accumulated through every enclosing function literal (a literal
// is created where its FuncLit node stands, so what holds there holds whenever the literal's body runs later).
func (c *Ctx) condsThrough(fd *ast.FuncDecl, n ast.Node) []pathCond {
	var chain []ast.Node // innermost first
	for _, a := range ancestors(fd, n) {
		switch a.(type) {
		case *ast.FuncDecl, *ast.FuncLit:
			chain = append([]ast.Node{a}, chain...)
		}
	}
	var out []pathCond
	at := n
	for _, f := range chain {
		var body *ast.BlockStmt
		switch ff := f.(type) {
		case *ast.FuncDecl:
			body = ff.Body
		case *ast.FuncLit:
			body = ff.Body
		}
		g := c.buildCFG(body)
		out = append(out, g.condsAt(at)...)
		at = f
	}
	return out
}

// everyExitAfter: every path from just after `from` to a normal exit of the function (a return statement, or falling off
// the end) passes a CFG node for which stop holds. Exits through a call that does not return (panic) are not counted.
func (c *FnCFG) everyExitAfter(from ast.Node, stop func(ast.Node) bool) bool {
	fb, fi, ok := c.locate(from)
	if !ok {
		return false
	}
	type pt struct{ b, i int }
	seen := map[int]bool{}
	okAll := true
	var walk func(b, start int)
	walk = func(b, start int) {
		blk := c.g.Blocks[b]
		for i := start; i < len(blk.Nodes); i++ {
			n := blk.Nodes[i]
			if stop(n) {
				return
			}
			if _, isRet := n.(*ast.ReturnStmt); isRet {
				okAll = false
				return
			}
		}
		if len(blk.Succs) == 0 {
			// end of function: a trailing no-return call is a panic exit, anything else falls off the end
			if len(blk.Nodes) > 0 {
				if es, ok := blk.Nodes[len(blk.Nodes)-1].(*ast.ExprStmt); ok {
					if ce, ok := es.X.(*ast.CallExpr); ok && c.p.noReturn(ce) {
						return
					}
				}
				if ce, ok := blk.Nodes[len(blk.Nodes)-1].(*ast.CallExpr); ok && c.p.noReturn(ce) {
					return
				}
			}
			okAll = false
			return
		}
		for _, s := range blk.Succs {
			if !seen[int(s.Index)] {
				seen[int(s.Index)] = true
				walk(int(s.Index), 0)
			}
		}
	}
	walk(fb, fi+1)
	return okAll
}
