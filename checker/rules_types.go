package main

import (
	"fmt"
	"go/ast"
	"go/constant"
	"go/token"
	"go/types"
	"sort"
	"strings"

	"golang.org/x/tools/go/packages"
)

// Rules about the type algebra and the checker: EQ-FIELDS (structural comparison is field-by-field and complete),
// UN-1..4 (unification), KINDSW (kind switches are exhaustive), TC-1..9 (checker obligations), KEY-1.

func init() {
	reg("EQ-FIELDS", ruleEqFields)
	reg("UN-1", ruleUn1)
	reg("KINDSW", ruleKindSwitch)
	reg("TC", ruleTC)
	reg("KEY-1", ruleKey1)
}

// ---------- access paths ----------

// accessPath resolves an expression to (root parameter object, path) following single-assignment locals,
// range variables, the cast accessors and GetField/Get lookups. ok=false if the shape is not understood.
type pathResolver struct {
	c      *Ctx
	fn     *ast.FuncDecl
	params map[types.Object]bool
	defs   map[types.Object]ast.Expr  // single-assignment locals (incl. v, ok := f())
	rng    map[types.Object]ast.Expr  // range value var -> ranged expression
	rngKey map[types.Object]ast.Expr  // range key var -> ranged expression
	bind   map[types.Object]boundPath // parameters of a helper that stand for components of the caller's operands
}

type boundPath struct {
	root types.Object
	path string
}

func newPathResolver(c *Ctx, fd *ast.FuncDecl) *pathResolver {
	r := &pathResolver{c: c, fn: fd, params: map[types.Object]bool{}, defs: map[types.Object]ast.Expr{}, rng: map[types.Object]ast.Expr{}, rngKey: map[types.Object]ast.Expr{}}
	for _, f := range fd.Type.Params.List {
		for _, n := range f.Names {
			r.params[c.objOf(n)] = true
		}
	}
	if fd.Recv != nil {
		for _, f := range fd.Recv.List {
			for _, n := range f.Names {
				r.params[c.objOf(n)] = true
			}
		}
	}
	count := map[types.Object]int{}
	ast.Inspect(fd.Body, func(x ast.Node) bool {
		switch s := x.(type) {
		case *ast.AssignStmt:
			if len(s.Lhs) == len(s.Rhs) {
				for i, l := range s.Lhs {
					if o := c.objOf(l); o != nil {
						count[o]++
						r.defs[o] = s.Rhs[i]
					}
				}
			} else if len(s.Rhs) == 1 && len(s.Lhs) == 2 {
				if o := c.objOf(s.Lhs[0]); o != nil {
					count[o]++
					r.defs[o] = s.Rhs[0]
				}
			}
		case *ast.RangeStmt:
			if s.Value != nil {
				if o := c.objOf(s.Value); o != nil {
					r.rng[o] = s.X
				}
			}
			if s.Key != nil {
				if o := c.objOf(s.Key); o != nil {
					r.rngKey[o] = s.X
				}
			}
		}
		return true
	})
	for o, n := range count {
		if n != 1 {
			delete(r.defs, o)
		}
	}
	return r
}

var castAccessors = map[string]bool{"Bool": true, "Num": true, "Str": true, "Time": true, "List": true, "Map": true, "Obj": true, "Fun": true, "Maybe": true, "Tuple": true, "TyVar": true, "Ty": true, "Vl": true}

func (r *pathResolver) path(e ast.Expr, depth int) (types.Object, string, bool) {
	c := r.c
	if depth > 12 {
		return nil, "", false
	}
	switch x := unparen(e).(type) {
	case *ast.Ident:
		o := c.objOf(x)
		if b, ok := r.bind[o]; ok {
			return b.root, b.path, true
		}
		if r.params[o] {
			return o, "", true
		}
		if rx, ok := r.rng[o]; ok {
			root, p, ok := r.path(rx, depth+1)
			return root, p + "[]", ok
		}
		if d, ok := r.defs[o]; ok {
			return r.path(d, depth+1)
		}
		return nil, "", false
	case *ast.SelectorExpr:
		root, p, ok := r.path(x.X, depth+1)
		if !ok {
			return nil, "", false
		}
		return root, p + "." + x.Sel.Name, true
	case *ast.IndexExpr:
		root, p, ok := r.path(x.X, depth+1)
		if !ok {
			return nil, "", false
		}
		return root, p + "[]", true
	case *ast.UnaryExpr:
		if x.Op == token.AND {
			return r.path(x.X, depth+1)
		}
	case *ast.StarExpr:
		return r.path(x.X, depth+1)
	case *ast.CallExpr:
		if c.calleeName(x) == "types.applySubst" && len(x.Args) == 2 {
			return r.path(x.Args[0], depth+1) // substitution does not change which component is meant
		}
		se, ok := x.Fun.(*ast.SelectorExpr)
		if !ok {
			return nil, "", false
		}
		root, p, ok := r.path(se.X, depth+1)
		if !ok {
			return nil, "", false
		}
		switch {
		case castAccessors[se.Sel.Name] && len(x.Args) == 0:
			return root, p, true // identity casts are transparent
		case se.Sel.Name == "GetField" || se.Sel.Name == "MustGetField":
			return root, p + ".Fields[]", true
		case se.Sel.Name == "Get" && strings.HasSuffix(c.calleeName(x), "ObjVal.Get"):
			return root, p + ".V[]", true
		}
	}
	return nil, "", false
}

// ---------- EQ-FIELDS ----------

type eqTarget struct {
	pkg, fn string   // function holding the comparison arms
	rec     string   // name of the recursive comparison function(s)
	want    []string // paths that must be compared (component coverage)
}

func ruleEqFields(c *Ctx) {
	c.R.Rule("EQ-FIELDS", 20, "structural equality / unification compare like with like and completely: every recursive call compares the same component path of the two operands, every component of every composite kind is compared, object fields are matched by name, lengths are compared with != before element-wise loops, and the kinds are compared before any arm")
	targets := []struct {
		pkg  string
		fns  []string
		rec  map[string]bool
		want []string
	}{
		{"types", []string{"equals", "equalsObj", "equalsTuple", "equalsFun"}, map[string]bool{"types.equals": true},
			[]string{".Key", ".Val", ".El", ".Elem", ".Fields[].Val", ".Val[]", ".Param[]", ".Return"}},
		{"types", []string{"unifyComposite"}, map[string]bool{"types.unify": true},
			[]string{".Key", ".Val", ".El", ".Elem", ".Fields[].Val", ".Val[]", ".Param[]", ".Return"}},
		{"val", []string{"Equals", "equalsList", "equalsMap", "equalsObj", "equalsMaybe"}, map[string]bool{"val.Equals": true},
			[]string{".V[]", ".V"}},
	}
	for _, t := range targets {
		seen := map[string]bool{}
		type job struct {
			fd   *ast.FuncDecl
			name string
			bind map[types.Object]boundPath
			d    int
		}
		var work []job
		listed := map[*ast.FuncDecl]bool{}
		for _, fn := range t.fns {
			fd := c.FuncDecl(t.pkg, fn)
			name := t.pkg + "." + fn
			if fd == nil {
				c.R.Anchor(name)
				continue
			}
			if i := strings.LastIndex(fn, "."); fd.Name.Name != fn[i+1:] || listed[fd] {
				// a renamed / merged successor (equalsTuple + equalsFun -> equalsSeq): its parameters are no longer the two
				// operands but components of them; it is reached, with its parameters bound, from the call sites below
				continue
			}
			listed[fd] = true
			work = append(work, job{fd, name, nil, 0})
		}
		done := map[string]bool{}
		for len(work) > 0 {
			j := work[0]
			work = work[1:]
			fd, name := j.fd, j.name
			pr := newPathResolver(c, fd)
			pr.bind = j.bind
			for _, call := range c.calls(fd.Body) {
				if !t.rec[c.calleeName(call)] || len(call.Args) < 2 {
					// a helper of the same package that is handed components of both operands is followed with its parameters
					// bound to those components (element-wise comparison loops factored out of the arms)
					if obj, ok := c.calleeObj(call).(*types.Func); ok && obj.Pkg() != nil && short(obj.Pkg().Path()) == t.pkg && j.d < 3 {
						hd := c.declOf(obj)
						if hd == nil || hd.Body == nil || listed[hd] || hd == fd || hd.Type.Params == nil {
							continue
						}
						var pobjs []types.Object
						for _, fl := range hd.Type.Params.List {
							for _, n := range fl.Names {
								pobjs = append(pobjs, c.objOf(n))
							}
							if len(fl.Names) == 0 {
								pobjs = append(pobjs, nil)
							}
						}
						bind := map[types.Object]boundPath{}
						roots := map[types.Object]bool{}
						byType := map[string][]types.Object{}
						key := name + ">" + hd.Name.Name
						for i, a := range call.Args {
							if i >= len(pobjs) || pobjs[i] == nil {
								continue
							}
							if ro, pth, ok := pr.path(a, 0); ok && ro != nil {
								bind[pobjs[i]] = boundPath{ro, pth}
								roots[ro] = true
								key += "|" + pth
								byType[typeStr(c.typeOf(a))] = append(byType[typeStr(c.typeOf(a))], ro)
							}
						}
						// the two operands' components: two arguments of one type that come from different operands
						pair := false
						for _, rs := range byType {
							for i := range rs {
								for k := range rs[:i] {
									if rs[i] != rs[k] {
										pair = true
									}
								}
							}
						}
						if pair && len(roots) >= 2 && !done[key] {
							done[key] = true
							work = append(work, job{hd, t.pkg + "." + hd.Name.Name, bind, j.d + 1})
						}
					}
					continue
				}
				ra, pa, oka := pr.path(call.Args[0], 0)
				rb, pb, okb := pr.path(call.Args[1], 0)
				desc := "compare " + src(call.Args[0]) + " ~ " + src(call.Args[1])
				// applySubst(x.f, m) wrappers in unifyComposite
				if !oka || !okb {
					ua, ub := stripCall(c, call.Args[0], "types.applySubst"), stripCall(c, call.Args[1], "types.applySubst")
					ra, pa, oka = pr.path(ua, 0)
					rb, pb, okb = pr.path(ub, 0)
				}
				switch {
				case !oka || !okb:
					c.R.Unk(name, desc, call.Pos(), "operands are not component paths of the two parameters")
				case ra == rb:
					c.R.Bad(name, desc, call.Pos(), "both operands come from the same value: a component of one side is never compared with the other")
				case pa != pb:
					c.R.Bad(name, desc, call.Pos(), "compares component %q of one operand with component %q of the other", pa, pb)
				default:
					seen[pa] = true
					c.R.OK(name, desc, call.Pos(), "same component %q of both operands", pa)
					if strings.Contains(pa, "[]") && j.bind == nil {
						c.eqPairing(name, fd, call, pr, call.Args[0], call.Args[1], pa)
					}
				}
			}
			// element-wise loops are guarded by a length inequality test returning failure
			c.lenGuards(name, fd)
		}
		for _, w := range t.want {
			c.R.Check(seen[w], t.pkg+"."+t.fns[0], "component "+w+" is compared", token.NoPos, "covered by a recursive comparison", "no recursive comparison reaches component "+w+": values differing only there are treated as equal")
		}
	}
	// the co-inductive assumption is made for the pair (x, y), never for one side alone
	for _, fn := range []string{"equals", "unify"} {
		if fd := c.FuncDecl("types", fn); fd != nil {
			var ps []string
			for _, f := range fd.Type.Params.List {
				for _, n := range f.Names {
					ps = append(ps, n.Name)
				}
			}
			okPair := false
			for _, call := range c.callsTo(fd.Body, "util.PtrPtrSet.Contains") {
				if len(call.Args) == 2 && len(ps) >= 2 && src(call.Args[0]) == ps[0] && src(call.Args[1]) == ps[1] {
					okPair = true
				}
			}
			single := len(c.callsTo(fd.Body, "util.PtrSet.Contains")) > 0
			c.R.Check(okPair && !single, "types."+fn, "in-process memo is keyed by the pair of operands", fd.Pos(), "inProcess.Contains(x, y)", "the cycle memo is keyed by one operand only: a shared sub-type met a second time is assumed equal to whatever it is compared with (the type checker accepts [{a: v, b: v}, {a: [1], b: [`s`]}])")
		} else {
			c.R.Anchor("types." + fn)
		}
	}
	// kinds compared before arms in types.equals; type equality first in val.Equals
	if fd := c.FuncDecl("types", "equals"); fd != nil {
		g := c.buildCFG(fd.Body)
		var kindTest *ast.IfStmt
		inspectNoLit(fd.Body, func(x ast.Node) bool {
			if is, ok := x.(*ast.IfStmt); ok && kindTest == nil {
				if be, ok := unparen(is.Cond).(*ast.BinaryExpr); ok && be.Op == token.NEQ && strings.HasSuffix(src(be.X), ".Kind") && strings.HasSuffix(src(be.Y), ".Kind") && returnsConst(c, is.Body, false) {
					kindTest = is
				}
			}
			return true
		})
		okDom := kindTest != nil
		if okDom {
			for _, call := range c.callsTo(fd.Body, "types.equals", "types.equalsObj", "types.equalsTuple", "types.equalsFun") {
				if !g.dominates(kindTest.Cond, call) {
					okDom = false
				}
			}
		}
		c.R.Check(okDom, "types.equals", "kinds compared before components", fd.Pos(), "`if x.Kind != y.Kind { return false }` dominates every recursive comparison", "components are compared without first requiring equal kinds (a maybe[T] could equal T)")
	}
	if fd := c.FuncDecl("val", "Equals"); fd != nil {
		okT := false
		inspectNoLit(fd.Body, func(x ast.Node) bool {
			if is, ok := x.(*ast.IfStmt); ok {
				if u, ok := unparen(is.Cond).(*ast.UnaryExpr); ok && u.Op == token.NOT {
					if ce, ok := unparen(u.X).(*ast.CallExpr); ok && c.calleeName(ce) == "types.Equals" && returnsConst(c, is.Body, false) {
						okT = true
					}
				}
			}
			return true
		})
		c.R.Check(okT, "val.Equals", "types compared before payloads", fd.Pos(), "`if !types.Equals(x.Type, y.Type) { return false }`", "payloads are reinterpreted without first requiring equal types")
	}
	c.idxOK()
	c.nameExact()
}

func stripCall(c *Ctx, e ast.Expr, name string) ast.Expr {
	if ce, ok := unparen(e).(*ast.CallExpr); ok && c.calleeName(ce) == name && len(ce.Args) > 0 {
		return ce.Args[0]
	}
	if id, ok := unparen(e).(*ast.Ident); ok {
		_ = id
	}
	return e
}

func returnsConst(c *Ctx, body *ast.BlockStmt, want bool) bool {
	if len(body.List) == 0 {
		return false
	}
	r, ok := body.List[len(body.List)-1].(*ast.ReturnStmt)
	if !ok || len(r.Results) != 1 {
		return false
	}
	if src(r.Results[0]) == "nil" {
		return !want
	}
	v := c.constOf(r.Results[0])
	return v != nil && v.Kind() == constant.Bool && constant.BoolVal(v) == want
}

// lenGuards: every loop that walks one operand's slice while indexing/looking up the other is preceded by
// `if len(a) != len(b) { return false|nil }`.
func (c *Ctx) lenGuards(name string, fd *ast.FuncDecl) {
	g := c.buildCFG(fd.Body)
	var guards []*ast.IfStmt
	inspectNoLit(fd.Body, func(x ast.Node) bool {
		if is, ok := x.(*ast.IfStmt); ok {
			if be, ok := unparen(is.Cond).(*ast.BinaryExpr); ok && be.Op == token.NEQ {
				l, lok := unparen(be.X).(*ast.CallExpr)
				r, rok := unparen(be.Y).(*ast.CallExpr)
				if lok && rok && c.calleeName(l) == "builtin.len" && c.calleeName(r) == "builtin.len" && returnsConst(c, is.Body, false) {
					guards = append(guards, is)
				}
			}
		}
		return true
	})
	inspectNoLit(fd.Body, func(x ast.Node) bool {
		var loop ast.Stmt
		var over ast.Expr
		switch s := x.(type) {
		case *ast.RangeStmt:
			loop, over = s, s.X
		case *ast.ForStmt:
			if be, ok := s.Cond.(*ast.BinaryExpr); ok {
				if ce, ok := unparen(be.Y).(*ast.CallExpr); ok && c.calleeName(ce) == "builtin.len" {
					loop, over = s, ce.Args[0]
				}
			}
		}
		if loop == nil {
			return true
		}
		t := c.typeOf(over)
		if t == nil {
			return true
		}
		switch t.Underlying().(type) {
		case *types.Slice, *types.Map:
		default:
			return true
		}
		guarded := false
		for _, gd := range guards {
			if g.dominates(gd.Cond, loop) && strings.Contains(sx(gd.Cond), sx(over)) {
				guarded = true
			}
		}
		c.R.Check(guarded, name, "loop over "+src(over)+" guarded by length test", loop.Pos(),
			"`if len(..) != len(..) { return false }` dominates the element-wise loop", "element-wise comparison without an exact length (!=) test: a value with extra components on the other side compares equal (width subtyping)")
		return true
	})
}

// ---------- UN-1/2: bindings ----------

func ruleUn1(c *Ctx) {
	c.R.Rule("UN-1", 4, "in unify every binding m[v] = T is made only under freeFrom(T, v) for the fully substituted T = applySubst(other, m) (occurs check on what is stored), and only after an existing binding of v was tested Equals to T with failure otherwise")
	fd := c.FuncDecl("types", "unify")
	if fd == nil {
		c.R.Anchor("types.unify")
		return
	}
	g := c.buildCFG(fd.Body)
	defs := c.localDefsIn(fd.Body)
	n := 0
	// parents
	var stack []ast.Node
	ast.Inspect(fd.Body, func(x ast.Node) bool {
		if x == nil {
			stack = stack[:len(stack)-1]
			return false
		}
		stack = append(stack, x)
		as, ok := x.(*ast.AssignStmt)
		if !ok || len(as.Lhs) != 1 || len(as.Rhs) != 1 {
			return true
		}
		ix, ok := as.Lhs[0].(*ast.IndexExpr)
		if !ok {
			return true
		}
		if _, isMap := c.typeOf(ix.X).Underlying().(*types.Map); !isMap {
			return true
		}
		n++
		desc := "store " + src(as.Lhs[0]) + " = " + src(as.Rhs[0])
		tObj := c.objOf(as.Rhs[0])
		// the variable being bound: the index is <V>.Name, where V denotes a type variable (x.TyVar(), or a local / parameter
		// bound to it); compared as terms with single-assignment locals resolved, so `tv := x.TyVar(); .. m[tv.Name]` and
		// `m[x.TyVar().Name]` are the same thing
		vRoot := "?"
		var keyX ast.Expr
		if se, ok := unparen(ix.Index).(*ast.SelectorExpr); ok && se.Sel.Name == "Name" {
			keyX = se.X
			vRoot = src(se.X)
		}
		// control dependence (not syntactic nesting): freeFrom(T, V) holds whenever the store is reached
		occurs := false
		tcx := c.fnTerms(fd)
		tcxV := c.fnTerms(fd) // with definitions resolved
		tcx.defs = map[types.Object]ast.Expr{}
		if keyX != nil {
			wantT, wantV := tcxV.tr(as.Rhs[0]), tcxV.tr(keyX)
			for _, pc := range g.condsAt(as) {
				for _, ct := range conjuncts(tcxV.condTerm(pc)) {
					op, args := splitTerm(ct)
					if op == "types.freeFrom" && len(args) == 2 && tObj != nil && args[0] == wantT && args[1] == wantV {
						occurs = true
					}
				}
			}
		}
		substituted := false
		if d, ok := defs[tObj]; ok {
			if ce, ok := unparen(d).(*ast.CallExpr); ok && c.calleeName(ce) == "types.applySubst" {
				substituted = true
			}
		}
		switch {
		case !occurs:
			c.R.Bad("types.unify", desc, as.Pos(), "binding is not control-dependent on freeFrom(<the stored type>, <the bound variable>): a variable can be bound to a type containing itself")
		case !substituted:
			c.R.Bad("types.unify", desc, as.Pos(), "the stored / occurs-checked type is not applySubst(.., m): occurrences reachable through already-bound variables are missed")
		default:
			c.R.OK("types.unify", desc, as.Pos(), "under freeFrom(%s, %s) with %s = applySubst(..)", src(as.Rhs[0]), vRoot, src(as.Rhs[0]))
		}
		// UN-2: when the store is reached, "the variable was unbound or its binding Equals T" is known:
		// not(and(ok, not(Equals(k, T)))) from an early return, or its De Morgan forms
		rebind := false
		sb := g.blockOf(as)
		for _, at := range g.branchAtoms() {
			// a branch whose condition involves Equals(<existing binding>, T)
			var eq *ast.CallExpr
			for _, ce := range c.callsTo(at.cond, "types.Equals") {
				if len(ce.Args) == 2 && tObj != nil && mentions(c, ce, tObj) {
					eq = ce
				}
			}
			if eq == nil || sb < 0 {
				continue
			}
			// the bad case: a binding exists (every other atom true) and it is NOT Equals to T
			atoms := map[string]bool{tcx.tr(eq): false}
			inspectNoLit(at.cond, func(y ast.Node) bool {
				if id, ok := y.(*ast.Ident); ok {
					if v, isVar := c.objOf(id).(*types.Var); isVar && typeStr(v.Type()) == "bool" {
						atoms[tcx.tr(id)] = true
					}
				}
				return true
			})
			bad := -1
			switch evalTerm(tcx.tr(at.cond), atoms) {
			case 1:
				bad = at.onTrue
			case 0:
				bad = at.onFalse
			}
			if bad >= 0 && !g.reaches(bad, sb) && g.dominates(at.cond, as) {
				rebind = true
			}
		}
		c.R.Check(rebind, "types.unify", "rebind test before "+desc, as.Pos(), "`if ok && !Equals(k, T) { return nil }` dominates the store", "an existing binding of the variable is overwritten without being compared: one variable can stand for two different types")
		return true
	})
	if n < 2 {
		c.R.Bad("types.unify", "binding stores", fd.Pos(), "expected the two symmetric binding stores, found %d", n)
	}
	// UN-4: unifyComposite is reached only for equal composite kinds
	var compCall *ast.CallExpr
	for _, call := range c.callsTo(fd.Body, "types.unifyComposite") {
		compCall = call
	}
	okKinds := false
	if compCall != nil {
		inspectNoLit(fd.Body, func(x ast.Node) bool {
			if cc, ok := x.(*ast.CaseClause); ok && cc.Pos() <= compCall.Pos() && compCall.End() <= cc.End() && len(cc.List) == 1 {
				s := sx(cc.List[0])
				if strings.Contains(s, "Sel:IsComposite") && strings.Contains(s, "Op:==") && strings.Count(s, "Sel:Kind") == 2 && !strings.Contains(s, "Op:||") {
					okKinds = true
				}
			}
			return true
		})
	}
	c.R.Check(okKinds, "types.unify", "composite arm requires x.Kind == y.Kind", fd.Pos(), "unifyComposite is only reached for two composites of the same kind: an optional never unifies with its payload", "composite types of different kinds can reach component-wise unification")
	rec := c.callsTo(fd.Body, "types.unify")
	c.R.Check(len(rec) == 0, "types.unify", "no cross-kind recursion", fd.Pos(), "unify recurses only through unifyComposite", "unify calls itself directly (e.g. unwrapping one side): kinds are no longer matched pairwise")
	c.un6(fd)
	c.un7()
}

// un6: unify refuses a pair of composite nodes it has already seen ("recursive type"). If the in-process set is never
// released (a visited set, not a path set) this is only right when no composite node can legitimately occur twice on the
// pattern side — which holds because patterns are instantiated by applySubst, and applySubst returns a freshly constructed
// node for every composite kind. Contradiction rule over the two cooperating sites: either unify releases its pairs on exit,
// or every composite arm of applySubst returns a constructor call.
func (c *Ctx) un6(unify *ast.FuncDecl) {
	released := false
	adds := 0
	var setObj types.Object
	for _, call := range c.calls(unify.Body) {
		se, ok := call.Fun.(*ast.SelectorExpr)
		if !ok || !strings.HasSuffix(typeStr(c.typeOf(se.X)), "util.PtrPtrSet") {
			continue
		}
		switch se.Sel.Name {
		case "Add":
			adds++
			setObj = c.objOf(se.X)
		case "Remove", "Delete", "Del":
			released = true
		}
	}
	ast.Inspect(unify.Body, func(x ast.Node) bool {
		if d, ok := x.(*ast.DeferStmt); ok {
			ast.Inspect(d.Call, func(y ast.Node) bool {
				if ce, ok := y.(*ast.CallExpr); ok {
					if se, ok := ce.Fun.(*ast.SelectorExpr); ok && setObj != nil && c.objOf(se.X) == setObj && se.Sel.Name != "Add" && se.Sel.Name != "Contains" {
						released = true
					}
				}
				return true
			})
		}
		return true
	})
	if adds == 0 {
		c.R.OK("types.unify", "UN-6 no in-process set", unify.Pos(), "nothing to contradict")
		return
	}
	if released {
		c.R.OK("types.unify", "UN-6 in-process pairs are released on exit", unify.Pos(), "path set: shared sub-terms are not mistaken for recursion")
		return
	}
	as := c.FuncDecl("types", "applySubst")
	if as == nil {
		c.R.Anchor("types.applySubst")
		return
	}
	var sw *ast.SwitchStmt
	inspectNoLit(as.Body, func(x ast.Node) bool {
		if s, ok := x.(*ast.SwitchStmt); ok && sw == nil && s.Tag != nil && strings.HasSuffix(src(s.Tag), "Kind") {
			sw = s
		}
		return true
	})
	if sw == nil {
		c.R.Unk("types.applySubst", "UN-6 composite arms rebuild the node", as.Pos(), "no switch over Kind found")
		return
	}
	param := c.objOf(as.Type.Params.List[0].Names[0])
	ctor := map[string]string{"types.KList": "types.List", "types.KMap": "types.Map", "types.kTuple": "types.Tuple", "types.KObj": "types.Obj", "types.KFun": "types.Fun", "types.KMaybe": "types.Maybe"}
	cases := c.switchCasesByConst(sw)
	for _, k := range []string{"types.KList", "types.KMap", "types.kTuple", "types.KObj", "types.KFun", "types.KMaybe"} {
		cc := cases[k]
		if cc == nil {
			c.R.Bad("types.applySubst", "UN-6 arm "+k+" rebuilds the node", sw.Pos(), "no arm for this composite kind")
			continue
		}
		ok := true
		nret := 0
		for _, r := range returnsOf(&ast.BlockStmt{List: cc.Body}) {
			nret++
			if len(r.Results) != 1 {
				ok = false
				continue
			}
			ce, isCall := unparen(r.Results[0]).(*ast.CallExpr)
			if !isCall || c.calleeName(ce) != ctor[k] {
				ok = false
			}
			if id, isID := unparen(r.Results[0]).(*ast.Ident); isID && c.objOf(id) == param {
				ok = false
			}
		}
		c.R.Check(ok && nret > 0, "types.applySubst", "UN-6 arm "+k+" rebuilds the node", cc.Pos(), "returns "+ctor[k]+"(..): instantiated patterns share no composite node, so unify's never-released in-process set only fires on genuinely recursive types", "applySubst can return an existing composite node (copy-on-write / sharing) while unify never releases its in-process pairs: a pattern that mentions one type twice (list[a] -> list[a] -> ..) then meets the same pair of nodes twice and well-typed calls such as union(xs, xs) or xs == xs are rejected as 'recursive type'")
	}
}

func (c *Ctx) localDefsIn(body ast.Node) map[types.Object]ast.Expr { return c.localDefs(body) }

// ---------- KINDSW ----------

func ruleKindSwitch(c *Ctx) {
	c.R.Rule("KINDSW", 9, "every switch over a type Kind in the type algebra, the renderers and value equality covers all kinds it can be given (or is in the frozen table with the reason) and fails loudly in default")
	pk := c.Mod["types"]
	kindT := c.Obj("types", "Kind")
	if pk == nil || kindT == nil {
		c.R.Anchor("types.Kind")
		return
	}
	var allKinds []string
	for _, n := range pk.Types.Scope().Names() {
		if cst, ok := pk.Types.Scope().Lookup(n).(*types.Const); ok && types.Identical(cst.Type(), kindT.Type()) {
			if n == "kPrimitiveBegin" || n == "kCompositeBegin" {
				continue
			}
			allKinds = append(allKinds, "types."+n)
		}
	}
	sort.Strings(allKinds)
	prim := []string{"types.KNum", "types.KStr", "types.KBool", "types.KTime"}
	comp := []string{"types.kTuple", "types.KList", "types.KMap", "types.KObj", "types.KFun", "types.KMaybe"}
	valKinds := append(append([]string{}, prim...), "types.KList", "types.KMap", "types.KObj", "types.KFun", "types.KMaybe")
	type target struct {
		pkg, fn string
		want    []string
		why     string
	}
	without := func(all []string, drop ...string) []string {
		var out []string
		for _, k := range all {
			keep := true
			for _, d := range drop {
				if k == d {
					keep = false
				}
			}
			if keep {
				out = append(out, k)
			}
		}
		return out
	}
	targets := []target{
		{"types", "slotFree", allKinds, ""},
		{"types", "applySubst", allKinds, ""},
		{"types", "freeFrom", without(allKinds, "types.kTuple"), "tuples occur only outermost (argument lists), where no variable is bound to them"},
		{"types", "stringify", allKinds, ""},
		{"types", "unifyComposite", comp, "only reached for composite kinds (UN-1)"},
		{"val", "Equals", valKinds, "run-time values have no variable/top/bottom/tuple kinds"},
		{"val", "stringify", valKinds, "run-time values"},
		{"fun", "stringify0", valKinds, "run-time values"},
		{"val", "Val.Key", prim, "map keys are primitives (types.Map asserts keyable)"},
	}
	for _, t := range targets {
		fd := c.FuncDecl(t.pkg, t.fn)
		name := t.pkg + "." + t.fn
		if fd == nil {
			c.R.Anchor(name)
			continue
		}
		sw, swOwner := c.kindSwitchOf(fd, 0)
		if sw == nil {
			c.R.Bad(name, "switch over Kind", fd.Pos(), "not found")
			continue
		}
		cases := c.switchCasesByConst(sw)
		// a function that answers some kinds early (`if k.IsPrimitive() { switch k { .. } }`) and the rest in a second switch
		// over the same tag covers the union of the two; every one of these switches must fail in default
		var more []*ast.SwitchStmt
		inspectNoLit(swOwner.Body, func(x ast.Node) bool {
			if s2, ok := x.(*ast.SwitchStmt); ok && s2 != sw && s2.Tag != nil && src(s2.Tag) == src(sw.Tag) {
				more = append(more, s2)
			}
			return true
		})
		extraDefaultsOK := true
		for _, s2 := range more {
			c2 := c.switchCasesByConst(s2)
			for k, cc := range c2 {
				if _, dup := cases[k]; !dup && k != "default" {
					cases[k] = cc
				}
			}
			if d := c2["default"]; d == nil || len(c.callsTo(&ast.BlockStmt{List: d.Body}, "util.Unreachable", "builtin.panic")) == 0 {
				extraDefaultsOK = false
			}
		}
		var missing []string
		for _, k := range t.want {
			if _, ok := cases[k]; !ok {
				missing = append(missing, k)
			}
		}
		why := "all " + fmt.Sprint(len(t.want)) + " kinds handled"
		if t.why != "" {
			why += " (" + t.why + ")"
		}
		c.R.Check(len(missing) == 0, name, "switch over Kind exhaustive", sw.Pos(), why, "kinds without an arm: "+strings.Join(missing, ", ")+" — values of these kinds hit the default branch")
		def := cases["default"]
		okDef := def != nil && len(c.callsTo(&ast.BlockStmt{List: def.Body}, "util.Unreachable", "builtin.panic")) > 0 && extraDefaultsOK
		c.R.Check(okDef, name, "default fails", sw.Pos(), "unexpected kinds stop loudly", "default branch missing or silent")
	}
	c.kindClasses(pk, prim, comp)
}

// kindClasses (part of KINDSW): unify, the checker's map-key rule and keyable() dispatch on the two kind classes. The
// atomic arm of unify (`x.IsPrimitive() && y.IsPrimitive() && x.Kind == y.Kind` -> equal) is sound only because a primitive
// kind has no components; the composite arm reaches unifyComposite, whose switch covers exactly the composite kinds. So
// (a) the two predicates, evaluated on every Kind constant, accept exactly {num,str,bool,time} and exactly the kinds with
// components, and (b) every call `.IsPrimitive()` / `.IsComposite()` in the module resolves to those predicates — a method
// of the same name declared on Type would silently take over every `ty.IsPrimitive()` (Kind is embedded in Type).
func (c *Ctx) kindClasses(pk *packages.Package, prim, comp []string) {
	want := map[string]map[string]bool{"IsPrimitive": {}, "IsComposite": {}}
	for _, k := range prim {
		want["IsPrimitive"][k] = true
	}
	for _, k := range comp {
		want["IsComposite"][k] = true
	}
	preds := map[string]types.Object{}
	for _, nm := range []string{"IsPrimitive", "IsComposite"} {
		fd := c.FuncDecl("types", "Kind."+nm)
		name := "types.Kind." + nm
		if fd == nil {
			c.R.Anchor(name)
			continue
		}
		preds[nm] = c.calleeObjOfDecl(fd)
		var param types.Object
		if fd.Recv != nil && len(fd.Recv.List) == 1 && len(fd.Recv.List[0].Names) == 1 {
			param = c.objOf(fd.Recv.List[0].Names[0])
		}
		rets := returnsIn(fd.Body)
		if param == nil || len(rets) != 1 || len(rets[0].Results) != 1 || len(fd.Body.List) != 1 {
			c.R.Unk(name, "accepts exactly its kind class", fd.Pos(), "the predicate is not a single boolean expression over its receiver")
			continue
		}
		var wrong []string
		decided := true
		for _, n := range pk.Types.Scope().Names() {
			cst, ok := pk.Types.Scope().Lookup(n).(*types.Const)
			if !ok || typeStr(cst.Type()) != "types.Kind" {
				continue
			}
			v, ok := c.evalBoolOver(rets[0].Results[0], param, cst.Val())
			if !ok {
				decided = false
				break
			}
			if n == "kPrimitiveBegin" || n == "kCompositeBegin" {
				if v {
					wrong = append(wrong, n+" (a marker, not a kind)")
				}
				continue
			}
			if v != want[nm]["types."+n] {
				wrong = append(wrong, fmt.Sprintf("%s -> %v", n, v))
			}
		}
		if !decided {
			c.R.Unk(name, "accepts exactly its kind class", fd.Pos(), "the predicate could not be evaluated on the Kind constants")
			continue
		}
		c.R.Check(len(wrong) == 0, name, "accepts exactly its kind class", fd.Pos(), "evaluated on every Kind constant", "evaluated on the Kind constants the predicate disagrees with the class the dispatch relies on: "+strings.Join(wrong, ", "))
	}
	n := 0
	for _, p := range c.sortedMod() {
		for _, f := range p.Syntax {
			for _, d := range f.Decls {
				fd, ok := d.(*ast.FuncDecl)
				if !ok || fd.Body == nil {
					continue
				}
				owner := fnName(short(p.PkgPath), fd)
				for _, call := range c.calls(fd.Body) {
					se, ok := call.Fun.(*ast.SelectorExpr)
					if !ok || (se.Sel.Name != "IsPrimitive" && se.Sel.Name != "IsComposite") || len(call.Args) != 0 {
						continue
					}
					if t := c.typeOf(se.X); t == nil || !strings.Contains(typeStr(t), "types.") {
						continue
					}
					callee := c.calleeObj(call)
					if preds[se.Sel.Name] == nil {
						continue
					}
					n++
					c.R.Check(callee == preds[se.Sel.Name], owner, "kind class of "+src(se.X)+" decided by types.Kind."+se.Sel.Name, call.Pos(), "the predicate on the kind alone",
						"`"+src(call)+"` resolves to "+qualOr(callee)+", not to types.Kind."+se.Sel.Name+": the dispatch on kind classes (unify's atomic arm, map keys) now asks a different question than the one its arms were written for")
				}
			}
		}
	}
	c.R.Check(n >= 4, "types.Kind", "kind-class call sites found", token.NoPos, fmt.Sprintf("%d call sites", n), "fewer kind-class tests than at the pinned commit: the rule would pass vacuously")
}

func qualOr(o types.Object) string {
	if o == nil {
		return "an unresolved callee"
	}
	return qual(o)
}

// evalBoolOver evaluates a boolean expression in which param stands for the constant v (comparisons with constants, && || !).
func (c *Ctx) evalBoolOver(e ast.Expr, param types.Object, v constant.Value) (bool, bool) {
	val := func(x ast.Expr) constant.Value {
		x = unparen(x)
		if id, ok := x.(*ast.Ident); ok && c.objOf(id) == param {
			return v
		}
		return c.constOf(x)
	}
	switch x := unparen(e).(type) {
	case *ast.UnaryExpr:
		if x.Op == token.NOT {
			b, ok := c.evalBoolOver(x.X, param, v)
			return !b, ok
		}
	case *ast.BinaryExpr:
		switch x.Op {
		case token.LAND, token.LOR:
			l, ok1 := c.evalBoolOver(x.X, param, v)
			r, ok2 := c.evalBoolOver(x.Y, param, v)
			if !ok1 || !ok2 {
				return false, false
			}
			if x.Op == token.LAND {
				return l && r, true
			}
			return l || r, true
		case token.EQL, token.NEQ, token.LSS, token.LEQ, token.GTR, token.GEQ:
			l, r := val(x.X), val(x.Y)
			if l == nil || r == nil {
				return false, false
			}
			return constant.Compare(l, x.Op, r), true
		}
	}
	if cv := c.constOf(e); cv != nil && cv.Kind() == constant.Bool {
		return constant.BoolVal(cv), true
	}
	return false, false
}

// ---------- TC ----------

func ruleTC(c *Ctx) {
	c.R.Rule("TC", 28, "checker obligations, one per syntactic form: no recursive Check result is dropped; list elements / map keys / map values after the first are each compared with the first by typeAssert; map keys primitive; arity asserted and every parameter/argument pair compared; subscript only on list (index num) or map (index key type); member only on objects that have the field; mono overload looked up before poly, first matching poly in registration order with its index recorded; instantiation returned only when the result is slot-free; reserved words rejected; every annotation the back ends read is written before the arm returns")
	fd := c.FuncDecl("types", "Check")
	if fd == nil {
		c.R.Anchor("types.Check")
		return
	}
	var ts *ast.TypeSwitchStmt
	for _, s := range c.typeSwitches(fd.Body) {
		if e := tsScrutinee(s); e != nil && typeStr(c.typeOf(e)) == "parser/ast.Expr" && ts == nil {
			ts = s
		}
	}
	if ts == nil {
		c.R.Anchor("types.Check type switch")
		return
	}
	cases := c.tsCases(ts)
	g := c.buildCFG(fd.Body)

	// TC-1
	for _, call := range c.callsTo(fd.Body, "types.Check") {
		used := true
		inspectNoLit(fd.Body, func(x ast.Node) bool {
			if es, ok := x.(*ast.ExprStmt); ok && unparen(es.X) == ast.Expr(call) {
				used = false
			}
			if as, ok := x.(*ast.AssignStmt); ok {
				for i, r := range as.Rhs {
					if unparen(r) == ast.Expr(call) && i < len(as.Lhs) && src(as.Lhs[i]) == "_" {
						used = false
					}
				}
			}
			return true
		})
		c.R.Check(used, "types.Check", "TC-1 result of "+src(call)+" used", call.Pos(), "the sub-expression's type flows on", "the type of a sub-expression is computed and dropped")
	}

	// helper: the case clause as a block
	blk := func(name string) *ast.BlockStmt {
		cc := cases[name]
		if cc == nil {
			return nil
		}
		return &ast.BlockStmt{List: cc.Body, Lbrace: cc.Pos(), Rbrace: cc.End()}
	}

	// TC-2 homogeneity
	homog := func(caseName, field, sub string) {
		b := blk(caseName)
		desc := "TC-2 " + caseName + " " + field + sub + " homogeneous"
		if b == nil {
			c.R.Anchor("types.Check case " + caseName)
			return
		}
		defs := c.localDefs(b)
		// first := Check(e.F[0]<sub>, env)
		var firstObj types.Object
		for o, d := range defs {
			if ce, ok := unparen(d).(*ast.CallExpr); ok && c.calleeName(ce) == "types.Check" && len(ce.Args) > 0 {
				s := src(ce.Args[0])
				if strings.HasSuffix(s, "."+field+"[0]"+sub) {
					firstObj = o
				}
			}
		}
		if firstObj == nil {
			c.R.Bad("types.Check", desc, b.Pos(), "no `first := Check(e.%s[0]%s)` found", field, sub)
			return
		}
		okLoop := false
		why := "no loop `for i := 1; i < len(e." + field + "); i++` asserting each element against the first"
		inspectNoLit(b, func(x ast.Node) bool {
			fs, ok := x.(*ast.ForStmt)
			if !ok || fs.Init == nil || fs.Cond == nil {
				return true
			}
			init, ok := fs.Init.(*ast.AssignStmt)
			if !ok || len(init.Rhs) != 1 {
				return true
			}
			iv := c.objOf(init.Lhs[0])
			start := c.constOf(init.Rhs[0])
			cond, ok := fs.Cond.(*ast.BinaryExpr)
			if !ok || cond.Op != token.LSS || c.objOf(cond.X) != iv {
				return true
			}
			bound := c.sxInl(cond.Y, defs)
			if !strings.Contains(bound, "Fun:len") || !strings.Contains(bound, "Sel:"+field) {
				return true
			}
			if inc, ok := fs.Post.(*ast.IncDecStmt); !ok || inc.Tok != token.INC {
				return true
			}
			// typeAssert(first, T) where T = Check(e.F[i]<sub>)
			for _, ta := range c.callsTo(fs.Body, "types.typeAssert") {
				if len(ta.Args) < 2 {
					continue
				}
				var other ast.Expr
				if c.objOf(ta.Args[0]) == firstObj {
					other = ta.Args[1]
				} else if c.objOf(ta.Args[1]) == firstObj {
					other = ta.Args[0]
				} else {
					continue
				}
				// find the definition of `other` reaching this assert: nearest preceding assignment in loop body
				var def ast.Expr
				oo := c.objOf(other)
				for _, st := range fs.Body.List {
					if st.Pos() >= ta.Pos() {
						break
					}
					if as, ok := st.(*ast.AssignStmt); ok && len(as.Lhs) == 1 && len(as.Rhs) == 1 && c.objOf(as.Lhs[0]) == oo {
						def = as.Rhs[0]
					}
				}
				if ce, ok := unparen(def).(*ast.CallExpr); ok && c.calleeName(ce) == "types.Check" {
					arg := src(ce.Args[0])
					if strings.HasSuffix(arg, "."+field+"["+iv.Name()+"]"+sub) {
						if start != nil && constant.Compare(start, token.EQL, constant.MakeInt64(1)) {
							okLoop = true
						} else {
							why = "the comparison loop does not start at element 1"
						}
					}
				}
			}
			return true
		})
		c.R.Check(okLoop, "types.Check", desc, b.Pos(), "every later element is typeAssert-ed against the first", why)
	}
	homog("parser/ast.ListExpr", "Elems", "")
	homog("parser/ast.MapExpr", "Pairs", ".Key")
	homog("parser/ast.MapExpr", "Pairs", ".Val")
	if b := blk("parser/ast.MapExpr"); b != nil {
		okPrim := false
		for _, a := range c.asserted(b) {
			if strings.Contains(sx(a.cond), "Sel:IsPrimitive") && !strings.Contains(sx(a.cond), "Op:!") {
				okPrim = true
			}
		}
		c.R.Check(okPrim, "types.Check", "TC-2 map key kind primitive", b.Pos(), "util.Assert(kTy.IsPrimitive())", "map literals accept non-primitive keys")
	}

	// TC-3 call
	if b := blk("parser/ast.CallExpr"); b != nil {
		defs := c.localDefs(b)
		ar := c.callsTo(b, "types.arityAssert")
		okAr := false
		if len(ar) == 1 && len(ar[0].Args) >= 2 {
			a0, a1 := c.sxInl(ar[0].Args[0], defs), c.sxInl(ar[0].Args[1], defs)
			okAr = (strings.Contains(a0, "Sel:Param") && strings.Contains(a1, "Sel:Args")) || (strings.Contains(a1, "Sel:Param") && strings.Contains(a0, "Sel:Args"))
			for _, r := range returnsOf(b) {
				if !g.dominates(ar[0], r) {
					okAr = false
				}
			}
		}
		c.R.Check(okAr, "types.Check", "TC-3 arity asserted", b.Pos(), "arityAssert(len(fun.Param), len(e.Args)) dominates the arm's return", "number of arguments is not compared with the number of parameters before the call is accepted")
		okPairs := false
		inspectNoLit(b, func(x ast.Node) bool {
			fs, ok := x.(*ast.ForStmt)
			if !ok || fs.Init == nil {
				return true
			}
			init, ok := fs.Init.(*ast.AssignStmt)
			if !ok {
				return true
			}
			if v := c.constOf(init.Rhs[0]); v == nil || !constant.Compare(v, token.EQL, constant.MakeInt64(0)) {
				return true
			}
			ld := c.localDefs(fs.Body)
			for k, v := range defs {
				if _, ok := ld[k]; !ok {
					ld[k] = v
				}
			}
			for _, ta := range c.callsTo(fs.Body, "types.typeAssert") {
				if len(ta.Args) < 2 {
					continue
				}
				a0, a1 := c.sxInl(ta.Args[0], ld), c.sxInl(ta.Args[1], ld)
				iv := init.Lhs[0].(*ast.Ident).Name
				if strings.Contains(a0, "Sel:Param) Index:"+iv) && strings.Contains(a1, "Index:"+iv) {
					okPairs = true
				}
			}
			return true
		})
		c.R.Check(okPairs, "types.Check", "TC-3 every parameter/argument pair compared", b.Pos(), "loop from 0 typeAssert(fun.Param[i], args[i])", "arguments are not compared pairwise with the parameters of the resolved function")
		okNonCallable := len(c.asserted(b)) >= 2
		c.R.Check(okNonCallable, "types.Check", "TC-3 dynamic callee must be a function", b.Pos(), "util.Assert(f.Kind == KFun) and util.Assert(fun != nil)", "a non-function callee or a failed instantiation is not rejected")
	}

	// TC-4 subscript / member
	if b := blk("parser/ast.SubscriptExpr"); b != nil {
		var sw *ast.SwitchStmt
		inspectNoLit(b, func(x ast.Node) bool {
			if s, ok := x.(*ast.SwitchStmt); ok && sw == nil {
				sw = s
			}
			return true
		})
		okSw := false
		if sw != nil {
			cs := c.switchCasesByConst(sw)
			_, l := cs["types.KList"]
			_, m := cs["types.KMap"]
			def := cs["default"]
			okSw = l && m && len(cs) == 3 && def != nil && hasAssertFalse(c, def.Body)
			c.R.Check(okSw, "types.Check", "TC-4 subscript only on list or map", b.Pos(), "switch over the container kind has exactly the list and map arms and a failing default", "subscript accepts other container kinds or the default does not fail")
			if okSw {
				ld := c.localDefs(b)
				chk := func(k, want string) bool {
					for _, ta := range c.callsTo(&ast.BlockStmt{List: cs[k].Body}, "types.typeAssert") {
						if len(ta.Args) >= 2 {
							a0, a1 := c.sxInl(ta.Args[0], ld), c.sxInl(ta.Args[1], ld)
							if (strings.Contains(a0, "Sel:Idx") && strings.Contains(a1, want)) || (strings.Contains(a1, "Sel:Idx") && strings.Contains(a0, want)) {
								return true
							}
						}
					}
					return false
				}
				c.R.Check(chk("types.KList", "Num"), "types.Check", "TC-4 list index is num", cs["types.KList"].Pos(), "typeAssert(Check(e.Idx), Num)", "list index type is not required to be num")
				c.R.Check(chk("types.KMap", "Sel:Key"), "types.Check", "TC-4 map index has the key type", cs["types.KMap"].Pos(), "typeAssert(Check(e.Idx), varTy.Map().Key)", "map index type is not compared with the map's key type")
			}
		} else {
			c.R.Bad("types.Check", "TC-4 subscript only on list or map", b.Pos(), "no switch over the container kind")
		}
	}
	if b := blk("parser/ast.MemberExpr"); b != nil {
		var kindAssert, okAssert ast.Node
		var getObj types.Object
		inspectNoLit(b, func(y ast.Node) bool {
			if as, ok := y.(*ast.AssignStmt); ok && len(as.Lhs) == 2 && len(as.Rhs) == 1 {
				if ce, ok := unparen(as.Rhs[0]).(*ast.CallExpr); ok && c.calleeName(ce) == "types.ObjTy.GetField" {
					getObj = c.objOf(as.Lhs[1])
				}
			}
			return true
		})
		for _, a := range c.asserted(b) {
			s := sx(a.cond)
			if strings.Contains(s, "Sel:Kind") && strings.Contains(s, "KObj") && strings.Contains(s, "Op:==") {
				kindAssert = a.node
			}
			if getObj != nil && c.objOf(a.cond) == getObj {
				okAssert = a.node
			}
		}
		gf := c.callsTo(b, "types.ObjTy.GetField")
		okM := kindAssert != nil && okAssert != nil && len(gf) == 1 && g.dominates(kindAssert, gf[0]) && g.dominates(gf[0], okAssert)
		c.R.Check(okM, "types.Check", "TC-4 member only on objects that have the field", b.Pos(), "Assert(objTy.Kind == KObj) dominates GetField, whose ok is asserted", "member access does not require an object type with that field")
	}

	// TC-7 annotations
	annot := map[string][]string{
		"parser/ast.ListExpr": {"Type"}, "parser/ast.MapExpr": {"Type"}, "parser/ast.ObjExpr": {"Type"},
		"parser/ast.CallExpr": {"CalleeType"}, "parser/ast.SubscriptExpr": {"VarType"}, "parser/ast.MemberExpr": {"ObjType", "Index"},
	}
	var anames []string
	for k := range annot {
		anames = append(anames, k)
	}
	sort.Strings(anames)
	for _, cn := range anames {
		b := blk(cn)
		if b == nil {
			continue
		}
		for _, field := range annot[cn] {
			var writes []*ast.AssignStmt
			inspectNoLit(b, func(x ast.Node) bool {
				if as, ok := x.(*ast.AssignStmt); ok {
					for _, l := range as.Lhs {
						if se, ok := l.(*ast.SelectorExpr); ok && se.Sel.Name == field && src(se.X) == "e" {
							writes = append(writes, as)
						}
					}
				}
				return true
			})
			okAll := len(writes) > 0
			for _, r := range returnsOf(b) {
				if len(r.Results) == 1 && src(r.Results[0]) == "nil" {
					continue
				}
				dom := false
				for _, w := range writes {
					if g.dominates(w, r) {
						dom = true
					}
				}
				if !dom {
					okAll = false
				}
			}
			c.R.Check(okAll, "types.Check", "TC-7 "+cn+"."+field+" written before return", b.Pos(), "every non-failing return of the arm is dominated by the annotation write", "the arm can return without writing the annotation the back ends read (stale or nil annotation)")
		}
	}

	// TC-8 reserved
	if b := blk("parser/ast.IdentExpr"); b != nil {
		var resv ast.Node
		for _, a := range c.asserted(b) {
			if strings.Contains(sx(a.cond), "Sel:Reserved") && strings.Contains(sx(a.cond), "Op:!") {
				resv = a.node
			}
		}
		get := c.callsTo(b, "types.Env.Get")
		c.R.Check(resv != nil && len(get) == 1 && g.dominates(resv, get[0]), "types.Check", "TC-8 reserved words rejected before lookup", b.Pos(), "Assert(!lexer.Reserved(id)) dominates env.Get", "reserved identifiers are looked up like ordinary names")
		okUndef := false
		var envOK types.Object
		inspectNoLit(b, func(y ast.Node) bool {
			if as, ok := y.(*ast.AssignStmt); ok && len(as.Lhs) == 2 && len(as.Rhs) == 1 {
				if ce, ok := unparen(as.Rhs[0]).(*ast.CallExpr); ok && c.calleeName(ce) == "types.Env.Get" {
					envOK = c.objOf(as.Lhs[1])
				}
			}
			return true
		})
		for _, a := range c.asserted(b) {
			if envOK != nil && c.objOf(a.cond) == envOK {
				okUndef = true
			}
		}
		c.R.Check(okUndef, "types.Check", "TC-8 undefined names rejected", b.Pos(), "Assert(ok) on env.Get", "an undefined name yields a nil type instead of an error")
	}

	// TC-9 typeAssert
	if ta := c.FuncDecl("types", "typeAssert"); ta != nil {
		eq := c.callsTo(ta.Body, "types.Equals")
		as := c.asserted(ta.Body)
		okTA := len(eq) == 1 && len(as) == 1 && len(eq[0].Args) == 2 && c.objOf(eq[0].Args[0]) != c.objOf(eq[0].Args[1])
		if okTA {
			d := c.localDefs(ta.Body)
			okTA = strings.Contains(c.sxInl(as[0].cond, d), "Fun:Equals") && !strings.Contains(c.sxInl(as[0].cond, d), "Op:||") && !strings.Contains(c.sxInl(as[0].cond, d), "Op:!")
		}
		c.R.Check(okTA, "types.typeAssert", "TC-9 asserts Equals(expect, actual)", ta.Pos(), "structural equality of the two parameters is asserted", "typeAssert does not assert structural equality of its two parameters")
	} else {
		c.R.Anchor("types.typeAssert")
	}
	if aa := c.FuncDecl("types", "arityAssert"); aa != nil {
		as := c.asserted(aa.Body)
		okAA := len(as) == 1
		if okAA {
			be, ok := unparen(as[0].cond).(*ast.BinaryExpr)
			okAA = ok && be.Op == token.EQL
		}
		c.R.Check(okAA, "types.arityAssert", "TC-3 asserts expect == actual", aa.Pos(), "exact arity", "arity is not compared with ==")
	}

	// TC-5 overload resolution order
	if ro := c.FuncDecl("types", "resolveOverloadedFun"); ro != nil {
		rg := c.buildCFG(ro.Body)
		mono := c.callsTo(ro.Body, "types.Env.GetMonoFun")
		poly := c.callsTo(ro.Body, "types.Env.GetPolyFuns")
		okOrder := len(mono) == 1 && len(poly) == 1 && rg.dominates(mono[0], poly[0])
		if okOrder {
			for _, r := range returnsOf(ro.Body) {
				if !rg.dominates(mono[0], r) {
					okOrder = false
				}
			}
			// nothing that can decide the result is consulted before the mono lookup
			for _, call := range c.calls(ro.Body) {
				if call.Pos() < mono[0].Pos() && !rg.dominates(call, mono[0]) {
					okOrder = false
				}
				nm := c.calleeName(call)
				if call.Pos() < mono[0].Pos() && (strings.HasPrefix(nm, "types.Env.") || nm == "types.inferFun") && call != mono[0] {
					okOrder = false
				}
			}
			// map/cache reads before the mono lookup
			inspectNoLit(ro.Body, func(x ast.Node) bool {
				if ix, ok := x.(*ast.IndexExpr); ok && ix.Pos() < mono[0].Pos() {
					if _, isMap := c.typeOf(ix.X).Underlying().(*types.Map); isMap {
						okOrder = false
					}
				}
				return true
			})
		}
		c.R.Check(okOrder, "types.resolveOverloadedFun", "TC-5 exact mono overload is looked up first", ro.Pos(), "GetMonoFun dominates the poly lookup and every return; nothing else is consulted before it", "a polymorphic overload / cache can be chosen although an exactly matching monomorphic overload is registered")
		// mono hit returns immediately
		okHit := false
		inspectNoLit(ro.Body, func(x ast.Node) bool {
			if is, ok := x.(*ast.IfStmt); ok && src(is.Cond) == "ok" && rg.dominates(mono[0], is.Cond) && len(poly) == 1 && rg.dominates(is.Cond, poly[0]) {
				if _, isRet := is.Body.List[len(is.Body.List)-1].(*ast.ReturnStmt); isRet {
					okHit = true
				}
			}
			return true
		})
		c.R.Check(okHit, "types.resolveOverloadedFun", "TC-5 mono hit returns", ro.Pos(), "`if ok { ...; return f }` between the two lookups", "a found monomorphic overload does not end the resolution")
		// poly loop: ascending range, first non-nil inferFun wins, index recorded
		okLoop := false
		inspectNoLit(ro.Body, func(x ast.Node) bool {
			rs, ok := x.(*ast.RangeStmt)
			if !ok || rs.Key == nil {
				return true
			}
			// ranged expression is the result of GetPolyFuns
			if len(poly) != 1 || !rootIsCallResult2(c, ro.Body, rs.X, poly[0]) {
				return true
			}
			inf := c.callsTo(rs.Body, "types.inferFun")
			if len(inf) != 1 {
				return true
			}
			idxRecorded := false
			inspectNoLit(rs.Body, func(y ast.Node) bool {
				if as, ok := y.(*ast.AssignStmt); ok && len(as.Lhs) == 1 && len(as.Rhs) == 1 {
					if se, ok := as.Lhs[0].(*ast.SelectorExpr); ok && se.Sel.Name == "Index" && c.objOf(as.Rhs[0]) == c.objOf(rs.Key) {
						idxRecorded = true
					}
				}
				return true
			})
			rets := returnsOf(rs.Body)
			okLoop = idxRecorded && len(rets) == 1 && len(inf[0].Args) == 2 && c.objOf(inf[0].Args[0]) == c.objOf(rs.Value)
			return true
		})
		c.R.Check(okLoop, "types.resolveOverloadedFun", "TC-5 first matching poly overload in registration order, index recorded", ro.Pos(), "ascending range over GetPolyFuns, inferFun on each, returns at the first success after call.Index = i", "poly overloads are not tried in registration order / the chosen index is not recorded")
		// Resolved written on both success paths
		nRes := 0
		inspectNoLit(ro.Body, func(x ast.Node) bool {
			if as, ok := x.(*ast.AssignStmt); ok && len(as.Lhs) == 1 {
				if se, ok := as.Lhs[0].(*ast.SelectorExpr); ok && se.Sel.Name == "Resolved" {
					nRes++
				}
			}
			return true
		})
		c.R.Check(nRes >= 2, "types.resolveOverloadedFun", "TC-7 CallExpr.Resolved written on both success paths", ro.Pos(), "mono and poly paths both record the table key", "a success path does not record the table key the back ends use")
	} else {
		c.R.Anchor("types.resolveOverloadedFun")
	}

	// TC-6 inferFun
	if inf := c.FuncDecl("types", "inferFun"); inf != nil {
		ig := c.buildCFG(inf.Body)
		var guard *ast.IfStmt
		inspectNoLit(inf.Body, func(x ast.Node) bool {
			if is, ok := x.(*ast.IfStmt); ok {
				if u, ok := unparen(is.Cond).(*ast.UnaryExpr); ok && u.Op == token.NOT {
					if ce, ok := unparen(u.X).(*ast.CallExpr); ok && c.calleeName(ce) == "types.slotFree" && returnsConst(c, is.Body, false) {
						guard = is
					}
				}
			}
			return true
		})
		okG := guard != nil
		var final *ast.ReturnStmt
		for _, r := range returnsOf(inf.Body) {
			if len(r.Results) == 1 && src(r.Results[0]) != "nil" {
				final = r
			}
		}
		if okG && final != nil {
			okG = ig.dominates(guard.Cond, final)
			// the guarded type is the one returned as result type
			ce := unparen(unparen(guard.Cond).(*ast.UnaryExpr).X).(*ast.CallExpr)
			if !mentions(c, final, c.objOf(ce.Args[0])) {
				okG = false
			}
		} else {
			okG = false
		}
		c.R.Check(okG, "types.inferFun", "TC-6 instantiation returned only when the result type is slot-free", inf.Pos(), "`if !slotFree(tresult) { return nil }` dominates the success return of that tresult", "a polymorphic signature can be instantiated to a result type that still contains variables")
		// argument tuple is unified too
		un := c.callsTo(inf.Body, "types.Unify")
		c.R.Check(len(un) >= 2, "types.inferFun", "TC-6 parameters unified with the argument tuple", inf.Pos(), "two Unify steps: signature shape, then parameters against arguments", "arguments are not unified against the parameter tuple")
	} else {
		c.R.Anchor("types.inferFun")
	}
}

func rootIsCallResult2(c *Ctx, body ast.Node, e ast.Expr, call *ast.CallExpr) bool {
	o := c.objOf(e)
	ok := false
	inspectNoLit(body, func(x ast.Node) bool {
		if as, isAs := x.(*ast.AssignStmt); isAs && len(as.Rhs) == 1 && unparen(as.Rhs[0]) == ast.Expr(call) && len(as.Lhs) >= 1 && c.objOf(as.Lhs[0]) == o {
			ok = true
		}
		return true
	})
	return ok
}

// ---------- KEY-1 ----------

func ruleKey1(c *Ctx) {
	c.R.Rule("KEY-1", 2, "the monomorphic overload key is the rendered parameter tuple, so rendering must be invariant under types.Equals: the key uses types.stringify (PAIR-1 applies) and object fields must be rendered in a canonical (sorted) order")
	ol := c.FuncDecl("types", "FunTy.OverLoaded")
	if ol == nil {
		c.R.Anchor("types.FunTy.OverLoaded")
		return
	}
	usesTuple := strings.Contains(sx(ol.Body), "Fun:Tuple")
	c.R.Check(usesTuple, "types.FunTy.OverLoaded", "mono key renders the parameter tuple", ol.Pos(), "key = Sprintf(name, Tuple(params)) via Type.String", "mono key is not derived from the rendered parameter tuple (rule needs review)")
	st := c.FuncDecl("types", "stringify")
	if st == nil {
		c.R.Anchor("types.stringify")
		return
	}
	var sw *ast.SwitchStmt
	inspectNoLit(st.Body, func(x ast.Node) bool {
		if s, ok := x.(*ast.SwitchStmt); ok && sw == nil {
			sw = s
		}
		return true
	})
	if sw == nil {
		c.R.Anchor("types.stringify switch")
		return
	}
	obj := c.switchCasesByConst(sw)["types.KObj"]
	if obj == nil {
		c.R.Anchor("types.stringify case KObj")
		return
	}
	// the key is a function of what equality compares: every field of a type node that the renderer reads is a field that
	// types.equals (and its helpers) reads too. Text that depends on anything else (a display name, a source position) makes
	// equal parameter types render differently, so the mono lookup misses for a well-typed call.
	fieldsRead := func(fds ...*ast.FuncDecl) map[types.Object]string {
		out := map[types.Object]string{}
		for _, fd := range fds {
			if fd == nil {
				continue
			}
			ast.Inspect(fd.Body, func(x ast.Node) bool {
				se, ok := x.(*ast.SelectorExpr)
				if !ok {
					return true
				}
				v, ok := c.objOf(se.Sel).(*types.Var)
				if !ok || !v.IsField() || v.Pkg() == nil || short(v.Pkg().Path()) != "types" {
					return true
				}
				if t := c.typeOf(se.X); t != nil && strings.Contains(typeStr(t), "types.") {
					out[v] = strings.TrimPrefix(typeStr(t), "*") + "." + v.Name()
				}
				return true
			})
		}
		return out
	}
	compared := fieldsRead(c.FuncDecl("types", "equals"), c.FuncDecl("types", "equalsObj"), c.FuncDecl("types", "equalsTuple"), c.FuncDecl("types", "equalsFun"))
	var extra []string
	for o, nm := range fieldsRead(st) {
		if _, ok := compared[o]; !ok && o.Name() != "Kind" {
			extra = append(extra, nm)
		}
	}
	sort.Strings(extra)
	c.R.Check(len(extra) == 0 && len(compared) >= 5, "types.stringify", "renders only what equality compares", st.Pos(), fmt.Sprintf("fields read by the renderer are among the %d fields read by types.equals", len(compared)), "the rendering used as overload key reads "+strings.Join(extra, ", ")+", which types.equals does not compare: types that are Equal render differently (or the rule's inventory of compared fields shrank)")
	sorted := len(c.callsTo(&ast.BlockStmt{List: obj.Body}, "sort.Slice", "sort.SliceStable", "sort.Strings", "sort.Sort")) > 0
	c.R.Check(sorted, "types.stringify", "object fields rendered in canonical order", obj.Pos(), "fields are sorted before rendering", "object fields are rendered in declaration order although types.Equals ignores field order: equal parameter types give different overload keys")
}

// idxOK (part of EQ-FIELDS): ObjTy.Index is the name -> position table of an object type. A single-value read m[k] of a
// map[string]int yields 0 for an absent name, i.e. "found at position 0"; every read must therefore be in comma-ok form,
// or be control-dependent on a successful lookup of the same name in the same object (GetField / comma-ok), or use a name
// taken from the same object's own field list.
func (c *Ctx) idxOK() {
	isIndexField := func(e ast.Expr) (base ast.Expr, ok bool) {
		se, isSel := unparen(e).(*ast.SelectorExpr)
		if !isSel || se.Sel.Name != "Index" {
			return nil, false
		}
		v, isVar := c.objOf(se.Sel).(*types.Var)
		if !isVar || !v.IsField() || typeStr(v.Type()) != "map[string]int" || v.Pkg() == nil || short(v.Pkg().Path()) != "types" {
			return nil, false
		}
		return se.X, true
	}
	n := 0
	c.eachFuncDecl(func(pk *packages.Package, fd *ast.FuncDecl) {
		if fd.Body == nil {
			return
		}
		name := fnName(short(pk.PkgPath), fd)
		// comma-ok reads and writes
		commaOK := map[*ast.IndexExpr]bool{}
		written := map[*ast.IndexExpr]bool{}
		type lookup struct {
			okObj     types.Object
			base, key string
		}
		var lookups []lookup
		ast.Inspect(fd.Body, func(x ast.Node) bool {
			as, ok := x.(*ast.AssignStmt)
			if !ok {
				return true
			}
			for _, l := range as.Lhs {
				if ie, ok := unparen(l).(*ast.IndexExpr); ok {
					written[ie] = true
				}
			}
			if len(as.Lhs) == 2 && len(as.Rhs) == 1 {
				okID, _ := as.Lhs[1].(*ast.Ident)
				switch r := unparen(as.Rhs[0]).(type) {
				case *ast.IndexExpr:
					if b, is := isIndexField(r.X); is {
						commaOK[r] = true
						if okID != nil && okID.Name != "_" {
							lookups = append(lookups, lookup{c.objOf(okID), sx(unparen(b)), sx(unparen(r.Index))})
						}
					}
				case *ast.CallExpr:
					if nm := c.calleeName(r); (nm == "types.ObjTy.GetField" || nm == "val.ObjVal.Get") && len(r.Args) == 1 && okID != nil && okID.Name != "_" {
						if se, ok := r.Fun.(*ast.SelectorExpr); ok {
							lookups = append(lookups, lookup{c.objOf(okID), sx(unparen(se.X)), sx(unparen(r.Args[0]))})
						}
					}
				}
			}
			return true
		})
		var g *FnCFG
		ast.Inspect(fd.Body, func(x ast.Node) bool {
			ie, ok := x.(*ast.IndexExpr)
			if !ok {
				return true
			}
			base, is := isIndexField(ie.X)
			if !is {
				return true
			}
			n++
			desc := "read " + src(ie)
			switch {
			case written[ie]:
				// who may write the table, and when: only the constructor, and only a name it has just found absent — the
				// table then holds exactly the (distinct) field names, which equality, unification, member access and
				// the back ends' by-name accessors all assume (an alias entry, or a second field of the same name, makes
				// GetField answer for a name the other operand does not have)
				if name != "types.Obj" {
					c.R.Bad(name, "write "+src(ie), ie.Pos(), "the name -> position table of an object type is written outside its constructor types.Obj: it no longer holds exactly the field names (a name that is not a field resolves; equality by GetField stops being symmetric)")
					return true
				}
				if g == nil {
					g = c.buildCFG(fd.Body)
				}
				bs, ks := sx(unparen(base)), sx(unparen(ie.Index))
				fresh := false
				for _, pc := range g.condsAt(ie) {
					e := unparen(pc.e)
					neg := !pc.pos
					if u, isU := e.(*ast.UnaryExpr); isU && u.Op == token.NOT {
						e, neg = unparen(u.X), !neg
					}
					id, isID := e.(*ast.Ident)
					if !isID || !neg {
						continue
					}
					for _, lk := range lookups {
						if lk.okObj == c.objOf(id) && lk.base == bs && lk.key == ks {
							fresh = true
						}
					}
				}
				c.R.Check(fresh, name, "write "+src(ie)+" of a name just found absent", ie.Pos(), "table construction: the store is reached only where the comma-ok lookup of the same name failed (duplicates are refused)", "the constructor enters a name into the table without first requiring it to be absent: an object type can carry two fields of one name (the later shadows the earlier in every by-name access, the literal `{a: 1, a: \"x\"}` type-checks)")
				return true
			case commaOK[ie]:
				c.R.OK(name, desc, ie.Pos(), "comma-ok form: absence is distinguished from position 0")
				return true
			}
			bs, ks := sx(unparen(base)), sx(unparen(ie.Index))
			// own field name: <base>.Fields[i].Name
			if se, ok := unparen(ie.Index).(*ast.SelectorExpr); ok && se.Sel.Name == "Name" {
				if ix, ok := unparen(se.X).(*ast.IndexExpr); ok {
					if fs, ok := unparen(ix.X).(*ast.SelectorExpr); ok && fs.Sel.Name == "Fields" && sx(unparen(fs.X)) == bs {
						c.R.OK(name, desc, ie.Pos(), "the name is taken from the same object's own field list, so it is present")
						return true
					}
				}
			}
			if g == nil {
				g = c.buildCFG(fd.Body)
			}
			okEst := false
			for _, pc := range g.condsAt(ie) {
				if !pc.pos {
					continue
				}
				for _, cj := range andParts(pc.e) {
					id, isID := unparen(cj).(*ast.Ident)
					if !isID {
						continue
					}
					for _, lk := range lookups {
						if lk.okObj == c.objOf(id) && lk.base == bs && lk.key == ks {
							okEst = true
						}
					}
				}
			}
			if okEst {
				c.R.OK(name, desc, ie.Pos(), "control-dependent on a successful lookup of the same name in the same object")
			} else {
				c.R.Bad(name, desc, ie.Pos(), "single-value read of the name->position table: for a name the object does not have it yields 0, i.e. 'found at position 0' — object types whose first fields differ in name are then treated as having the same layout / field (comma-ok form or a preceding successful GetField of the same name is required)")
			}
			return true
		})
	})
	c.R.Check(n >= 2, "types", "ObjTy.Index reads found", token.NoPos, "the name->position table is read in Obj, GetField, ObjVal.Get/Put and Check", "fewer than 2 reads of ObjTy.Index found: the scan is not seeing the table")
}

func andParts(e ast.Expr) []ast.Expr {
	e = unparen(e)
	if b, ok := e.(*ast.BinaryExpr); ok && b.Op == token.LAND {
		return append(andParts(b.X), andParts(b.Y)...)
	}
	return []ast.Expr{e}
}

// nameExact (part of EQ-FIELDS): "object fields are compared by name" rests on the three by-name accessors finding a field
// exactly when the object type's name -> position table has that very name: each reads ObjTy.Index in comma-ok form with its
// name parameter as the key, and reports success only under that `ok`.
func (c *Ctx) nameExact() {
	for _, a := range []struct{ sp, fn string }{{"types", "ObjTy.GetField"}, {"val", "ObjVal.Get"}, {"val", "ObjVal.Put"}} {
		fd := c.FuncDecl(a.sp, a.fn)
		name := a.sp + "." + a.fn
		if fd == nil {
			c.R.Anchor(name)
			continue
		}
		var param types.Object
		if fd.Type.Params != nil && len(fd.Type.Params.List) > 0 && len(fd.Type.Params.List[0].Names) > 0 {
			param = c.objOf(fd.Type.Params.List[0].Names[0])
		}
		var okObj types.Object
		reads := 0
		ast.Inspect(fd.Body, func(x ast.Node) bool {
			as, ok := x.(*ast.AssignStmt)
			if !ok || len(as.Lhs) != 2 || len(as.Rhs) != 1 {
				return true
			}
			ie, ok := unparen(as.Rhs[0]).(*ast.IndexExpr)
			if !ok {
				return true
			}
			se, ok := unparen(ie.X).(*ast.SelectorExpr)
			if !ok || se.Sel.Name != "Index" || typeStr(c.typeOf(ie.X)) != "map[string]int" {
				return true
			}
			if id, ok := unparen(ie.Index).(*ast.Ident); ok && c.objOf(id) == param && param != nil {
				reads++
				if okID, ok := as.Lhs[1].(*ast.Ident); ok {
					okObj = c.objOf(okID)
				}
			}
			return true
		})
		if reads != 1 || okObj == nil {
			c.R.Bad(name, "field found exactly when the name is in the type's table", fd.Pos(), "%s does not look its name parameter up in ObjTy.Index in comma-ok form (found %d such reads): a lookup that is fuzzier than the table (case folding, prefixes, fall-backs) makes object types with different field names equal and unifiable", name, reads)
			continue
		}
		g := c.buildCFG(fd.Body)
		bad := ""
		for _, r := range returnsOf(fd.Body) {
			if len(r.Results) == 0 {
				continue
			}
			last := unparen(r.Results[len(r.Results)-1])
			if typeStr(c.typeOf(last)) != "bool" {
				continue
			}
			if id, ok := last.(*ast.Ident); ok && c.objOf(id) == okObj {
				continue
			}
			if v := c.constOf(last); v != nil && v.Kind() == constant.Bool {
				if !constant.BoolVal(v) {
					continue
				}
				under := false
				for _, pc := range g.condsAt(r) {
					for _, cj := range andParts(pc.e) {
						if id, ok := unparen(cj).(*ast.Ident); ok && c.objOf(id) == okObj && pc.pos {
							under = true
						}
						if u, ok := unparen(cj).(*ast.UnaryExpr); ok && u.Op == token.NOT && !pc.pos && len(andParts(pc.e)) == 1 {
							if id, ok := unparen(u.X).(*ast.Ident); ok && c.objOf(id) == okObj {
								under = true
							}
						}
					}
				}
				if !under {
					bad = "a success return at " + c.pos(r.Pos()) + " is not under the table lookup's ok"
				}
				continue
			}
			bad = "found-flag " + src(last) + " at " + c.pos(r.Pos()) + " is not the table lookup's ok"
		}
		c.R.Check(bad == "", name, "field found exactly when the name is in the type's table", fd.Pos(), "i, ok := Index[name]; success only under ok", bad+": fields can be 'found' under names the object type does not have")
	}
}

// UN-7 (part of UN-1): the unary structural recursions over types — the occurs check freeFrom, the substitution applySubst and
// the groundness test slotFree — reach EVERY component of every composite kind: in each composite arm of their Kind switch the
// recursive calls, taken together, are applied to all components of that kind (list element; map key and value; object field
// types; function parameters and result; optional payload; tuple members). A component that is tested by something else than
// the recursion itself (or not at all) is a hole: `freeFrom` that looks at a map key with `keyable` lets `a := map[a, num]`
// through the occurs check.
func (c *Ctx) un7() {
	want := map[string][]string{
		"types.KList":  {".El"},
		"types.KMap":   {".Key", ".Val"},
		"types.KObj":   {".Fields[].Val"},
		"types.KFun":   {".Param[]", ".Return"},
		"types.KMaybe": {".Elem"},
		"types.kTuple": {".Val[]"},
	}
	for _, fn := range []string{"freeFrom", "applySubst", "slotFree"} {
		fd := c.FuncDecl("types", fn)
		if fd == nil {
			c.R.Anchor("types." + fn)
			continue
		}
		sw, owner := c.kindSwitchOf(fd, 0)
		if sw == nil {
			c.R.Unk("types."+fn, "UN-7 switch over Kind", fd.Pos(), "no switch over the kind found")
			continue
		}
		self := c.calleeObjOfDecl(owner)
		pr := newPathResolver(c, owner)
		cases := c.switchCasesByConst(sw)
		var kinds []string
		for k := range want {
			kinds = append(kinds, k)
		}
		sort.Strings(kinds)
		for _, k := range kinds {
			cc := cases[k]
			if cc == nil {
				continue // an absent arm is KINDSW's business (tuples only occur outermost for freeFrom)
			}
			seen := map[string]bool{}
			for _, call := range c.calls(&ast.BlockStmt{List: cc.Body}) {
				if c.calleeObj(call) != self || len(call.Args) == 0 {
					continue
				}
				if _, p, ok := pr.path(call.Args[0], 0); ok {
					seen[p] = true
				}
			}
			var missing []string
			for _, w := range want[k] {
				if !seen[w] {
					missing = append(missing, w)
				}
			}
			c.R.Check(len(missing) == 0, "types."+fn, "UN-7 arm "+k+" recurses into every component", cc.Pos(), "recursive calls cover "+strings.Join(want[k], ", "), "the arm does not apply "+fn+" to component(s) "+strings.Join(missing, ", ")+" of the type: a type variable occurring there escapes the occurs check / substitution / groundness test (a := map[a, num] becomes a legal binding)")
		}
		// Boolean walkers combine the components of a composite the way their leaves say: a walker whose primitive arm answers
		// true is universal ("free of": every component must be, so `&&`, `if !rec { return false }`, `return true` at the end),
		// one whose primitive arm answers false is existential ("occurs": some component, so `||`, `if rec { return true }`,
		// `return false`). A composite arm that mixes the two (occurs(Key) && occurs(Val)) forgets a component.
		if prim := cases["types.KNum"]; prim != nil && len(prim.Body) == 1 {
			r, isRet := prim.Body[0].(*ast.ReturnStmt)
			if !isRet || len(r.Results) != 1 {
				continue
			}
			cv := c.constOf(r.Results[0])
			if cv == nil || cv.Kind() != constant.Bool {
				continue
			}
			universal := constant.BoolVal(cv)
			isRec := func(e ast.Expr) bool {
				found := false
				ast.Inspect(e, func(x ast.Node) bool {
					if ce, ok := x.(*ast.CallExpr); ok && c.calleeObj(ce) == self {
						found = true
					}
					return !found
				})
				return found
			}
			for _, k := range kinds {
				cc := cases[k]
				if cc == nil {
					continue
				}
				ok, why := true, ""
				ast.Inspect(&ast.BlockStmt{List: cc.Body}, func(x ast.Node) bool {
					switch n := x.(type) {
					case *ast.BinaryExpr:
						if (n.Op == token.LAND || n.Op == token.LOR) && isRec(n.X) && isRec(n.Y) {
							if (n.Op == token.LAND) != universal {
								ok, why = false, "components combined with "+n.Op.String()
							}
						}
					case *ast.IfStmt:
						if !isRec(n.Cond) || len(n.Body.List) != 1 {
							return true
						}
						r, isRet := n.Body.List[0].(*ast.ReturnStmt)
						if !isRet || len(r.Results) != 1 {
							return true
						}
						rv := c.constOf(r.Results[0])
						if rv == nil || rv.Kind() != constant.Bool {
							return true
						}
						neg := false
						if u, isU := unparen(n.Cond).(*ast.UnaryExpr); isU && u.Op == token.NOT {
							neg = true
						}
						// universal: `if !rec { return false }`; existential: `if rec { return true }`
						if neg != universal || constant.BoolVal(rv) == universal {
							ok, why = false, "early exit `if "+src(n.Cond)+" { return "+src(r.Results[0])+" }`"
						}
					}
					return true
				})
				for _, st := range cc.Body {
					if r, isRet := st.(*ast.ReturnStmt); isRet && len(r.Results) == 1 {
						if rv := c.constOf(r.Results[0]); rv != nil && rv.Kind() == constant.Bool && constant.BoolVal(rv) != universal {
							ok, why = false, "the arm ends in `return "+src(r.Results[0])+"`"
						}
					}
				}
				pol := "existential (||)"
				if universal {
					pol = "universal (&&)"
				}
				c.R.Check(ok, "types."+fn, "UN-7 arm "+k+" combines its components as the leaves do", cc.Pos(), pol, why+" in a walker whose primitive arm makes it "+pol+": a type variable in one of the components is overlooked (map[str, a] counts as ground)")
			}
		}
	}
}

func (c *Ctx) calleeObjOfDecl(fd *ast.FuncDecl) types.Object {
	var res types.Object
	c.eachFuncDecl(func(pk *packages.Package, d *ast.FuncDecl) {
		if d == fd {
			res = pk.TypesInfo.Defs[d.Name]
		}
	})
	return res
}

// ---------- EQ-FIELDS: element pairing ----------

// eqPairing (part of EQ-FIELDS). "Same component path" says that x.Fields[..].Val is compared with y.Fields[..].Val; it does
// not say that the two selected *elements* correspond. Inside an element-wise loop the element of one operand is selected by
// position (the range variable, or seq[i] with the loop's index) and the element of the other by the same position, or — for
// objects, whose equality ignores field order — by the *name of that very element*, looked up in the *other operand's own*
// table (GetField / Get / R.Index[name] with R on the looked-up side). Pairing object fields by bare position is accepted only
// on a path that assumes the two names equal. The selection is resolved per path through the loop body, so a position that is
// `i` on one path and a table lookup on the other is judged on each.
type eqElem struct {
	kind     string       // "pos" | "name"
	root     types.Object // the operand whose element is selected
	nameRoot types.Object // kind name: the operand whose element (at the loop position) supplies the name
	bad      string
}

func (c *Ctx) eqPairing(name string, fd *ast.FuncDecl, call *ast.CallExpr, pr *pathResolver, a, b ast.Expr, compPath string) {
	var body *ast.BlockStmt
	var keyObj, valObj types.Object
	var rangeX ast.Expr
	ast.Inspect(fd.Body, func(n ast.Node) bool {
		if n == nil || n.Pos() > call.Pos() || n.End() < call.End() {
			return n != nil && n.Pos() <= call.Pos()
		}
		switch l := n.(type) {
		case *ast.RangeStmt:
			body, keyObj, valObj, rangeX = l.Body, nil, nil, l.X
			if l.Key != nil {
				keyObj = c.objOf(l.Key)
			}
			if l.Value != nil {
				valObj = c.objOf(l.Value)
			}
		case *ast.ForStmt:
			body, keyObj, valObj, rangeX = l.Body, nil, nil, nil
			if as, ok := l.Init.(*ast.AssignStmt); ok && len(as.Lhs) == 1 {
				keyObj = c.objOf(as.Lhs[0])
			}
		}
		return true
	})
	if body == nil || call.Pos() < body.Pos() || call.End() > body.End() {
		return
	}
	paths, ok := c.retPathsLoose(body.List)
	if !ok {
		return
	}
	within := func(n ast.Node) bool { return n.Pos() <= call.Pos() && call.End() <= n.End() }
	desc := "pairs " + src(a) + " ~ " + src(b)
	verdict, why := "", ""
	for _, p := range paths {
		reaches := false
		for _, pc := range p.conds {
			if within(pc.e) {
				reaches = true
			}
		}
		for _, s := range p.stmts {
			if within(s) {
				reaches = true
			}
		}
		if p.ret != nil && within(p.ret) {
			reaches = true
		}
		if !reaches {
			continue
		}
		env := map[types.Object]ast.Expr{}
		for _, s := range p.stmts {
			if s.Pos() >= call.Pos() {
				continue
			}
			switch x := s.(type) {
			case *ast.AssignStmt:
				if len(x.Lhs) == len(x.Rhs) {
					for i, l := range x.Lhs {
						if o := c.objOf(l); o != nil {
							env[o] = x.Rhs[i]
						}
					}
				} else if len(x.Rhs) == 1 && len(x.Lhs) == 2 {
					if o := c.objOf(x.Lhs[0]); o != nil {
						env[o] = x.Rhs[0]
					}
				}
			case *ast.DeclStmt:
				if gd, ok := x.Decl.(*ast.GenDecl); ok {
					for _, sp := range gd.Specs {
						if vs, ok := sp.(*ast.ValueSpec); ok && len(vs.Values) == len(vs.Names) {
							for i, n := range vs.Names {
								env[c.objOf(n)] = vs.Values[i]
							}
						}
					}
				}
			}
		}
		var elemOf func(e ast.Expr, d int) *eqElem
		rootOf := func(e ast.Expr) types.Object {
			r, _, ok := pr.path(e, 0)
			if !ok {
				return nil
			}
			return r
		}
		nameRootOf := func(n ast.Expr) types.Object {
			se, ok := unparen(n).(*ast.SelectorExpr)
			if !ok || se.Sel.Name != "Name" {
				return nil
			}
			if el := elemOf(se.X, 0); el != nil && el.kind == "pos" {
				return el.root
			}
			return nil
		}
		elemOf = func(e ast.Expr, d int) *eqElem {
			if d > 10 {
				return nil
			}
			switch x := unparen(e).(type) {
			case *ast.Ident:
				o := c.objOf(x)
				if def, ok := env[o]; ok {
					return elemOf(def, d+1)
				}
				if o != nil && o == valObj && rangeX != nil {
					if r := rootOf(rangeX); r != nil {
						return &eqElem{kind: "pos", root: r}
					}
					return nil
				}
				if def, ok := pr.defs[o]; ok {
					return elemOf(def, d+1)
				}
			case *ast.SelectorExpr:
				return elemOf(x.X, d+1)
			case *ast.StarExpr:
				return elemOf(x.X, d+1)
			case *ast.CallExpr:
				se, ok := x.Fun.(*ast.SelectorExpr)
				if !ok {
					return nil
				}
				if castAccessors[se.Sel.Name] && len(x.Args) == 0 {
					return elemOf(se.X, d+1)
				}
				if (se.Sel.Name == "GetField" || se.Sel.Name == "MustGetField" || se.Sel.Name == "Get") && len(x.Args) == 1 {
					r := rootOf(se.X)
					nr := nameRootOf(x.Args[0])
					if r == nil || nr == nil {
						return nil
					}
					return &eqElem{kind: "name", root: r, nameRoot: nr}
				}
			case *ast.IndexExpr:
				r := rootOf(x.X)
				if r == nil {
					return nil
				}
				idx := unparen(x.Index)
				for k := 0; k < 4; k++ {
					id, ok := idx.(*ast.Ident)
					if !ok {
						break
					}
					if def, ok := env[c.objOf(id)]; ok {
						idx = unparen(def)
						continue
					}
					break
				}
				if id, ok := idx.(*ast.Ident); ok && keyObj != nil && c.objOf(id) == keyObj {
					return &eqElem{kind: "pos", root: r}
				}
				if ie, ok := idx.(*ast.IndexExpr); ok {
					if se, ok := unparen(ie.X).(*ast.SelectorExpr); ok && se.Sel.Name == "Index" {
						tr := rootOf(se.X)
						nr := nameRootOf(ie.Index)
						if tr == nil || nr == nil {
							return nil
						}
						if tr != r {
							return &eqElem{bad: "the position into " + src(x.X) + " is looked up in " + src(ie.X) + ", the other operand's name table"}
						}
						return &eqElem{kind: "name", root: r, nameRoot: nr}
					}
				}
			}
			return nil
		}
		ea, eb := elemOf(a, 0), elemOf(b, 0)
		if ea != nil && ea.bad != "" {
			verdict, why = "bad", ea.bad
			break
		}
		if eb != nil && eb.bad != "" {
			verdict, why = "bad", eb.bad
			break
		}
		if ea == nil || eb == nil || ea.root == eb.root {
			continue
		}
		switch {
		case ea.kind == "pos" && eb.kind == "pos":
			objectish := strings.Contains(compPath, "Fields") || strings.Contains(fd.Name.Name, "Obj")
			if objectish {
				assumed := false
				for _, pc := range p.conds {
					be, ok := unparen(pc.e).(*ast.BinaryExpr)
					if !ok || !strings.HasSuffix(src(be.X), ".Name") || !strings.HasSuffix(src(be.Y), ".Name") {
						continue
					}
					if (be.Op == token.EQL && pc.pos) || (be.Op == token.NEQ && !pc.pos) {
						assumed = true
					}
				}
				if !assumed {
					verdict, why = "bad", "object fields are paired by position without the two names being known equal: equality of object types / values ignores field order"
				}
			}
			if verdict == "" {
				verdict = "ok"
			}
		case ea.kind == "pos" && eb.kind == "name":
			if eb.nameRoot != ea.root {
				verdict, why = "bad", "the name used for the lookup is not the name of the element it is compared with"
			} else if verdict == "" {
				verdict = "ok"
			}
		case ea.kind == "name" && eb.kind == "pos":
			if ea.nameRoot != eb.root {
				verdict, why = "bad", "the name used for the lookup is not the name of the element it is compared with"
			} else if verdict == "" {
				verdict = "ok"
			}
		}
		if verdict == "bad" {
			break
		}
	}
	switch verdict {
	case "ok":
		c.R.OK(name, desc, call.Pos(), "corresponding elements: same position, or looked up by the element's own name in the other operand's table")
	case "bad":
		c.R.Bad(name, desc, call.Pos(), "%s", why)
	}
}

// kindSwitchOf finds the switch over a type's Kind that fd consists of: in fd itself, or — when fd merely delegates
// (`return !occurs(ty, pred)`: two walkers merged into one traversal) — in the same-package function that is handed fd's
// own type parameter. Returns the switch and the function that holds it (the recursion target of its arms).
func (c *Ctx) kindSwitchOf(fd *ast.FuncDecl, depth int) (*ast.SwitchStmt, *ast.FuncDecl) {
	var sw *ast.SwitchStmt
	inspectNoLit(fd.Body, func(x ast.Node) bool {
		if s, ok := x.(*ast.SwitchStmt); ok && sw == nil && s.Tag != nil {
			if tt := c.typeOf(s.Tag); tt != nil && typeStr(tt) == "types.Kind" {
				sw = s
			}
		}
		return true
	})
	if sw != nil || depth >= 2 {
		return sw, fd
	}
	params := map[types.Object]bool{}
	if fd.Type.Params != nil {
		for _, fl := range fd.Type.Params.List {
			for _, n := range fl.Names {
				if o := c.objOf(n); o != nil && strings.HasSuffix(typeStr(o.Type()), "types.Type") {
					params[o] = true
				}
			}
		}
	}
	if fd.Recv != nil {
		for _, fl := range fd.Recv.List {
			for _, n := range fl.Names {
				if o := c.objOf(n); o != nil {
					params[o] = true
				}
			}
		}
	}
	self := c.calleeObjOfDecl(fd)
	for _, call := range c.calls(fd.Body) {
		fn, ok := c.calleeObj(call).(*types.Func)
		if !ok || fn == self || fn.Pkg() == nil || self == nil || fn.Pkg() != self.Pkg() {
			continue
		}
		passes := false
		for _, a := range call.Args {
			if id, ok := unparen(a).(*ast.Ident); ok && params[c.objOf(id)] {
				passes = true
			}
		}
		if !passes {
			continue
		}
		if hd := c.declOf(fn); hd != nil && hd.Body != nil {
			if s, owner := c.kindSwitchOf(hd, depth+1); s != nil {
				return s, owner
			}
		}
	}
	return nil, fd
}
