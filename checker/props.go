package main

var stdAssumptions = []string{
	"the Go type checker, go/cfg, go/ssa and the VTA call graph of golang.org/x/tools v0.29.0 are correct",
	"no reflection- or cgo-driven calls into the module (timelib's C side is outside the analysed program)",
	"frozen tables in the checker (one symbol and one reason per entry) were confirmed by reading the code",
	"nil dereferences, stack exhaustion and out-of-memory are outside every rule",
}

func ps(notCovered string, rules ...string) propSpec {
	return propSpec{rules: rules, notCovered: notCovered, assumptions: stdAssumptions}
}

// property -> rules. The explanation in the evidence is composed from the clause of every rule that ran.
var props = map[string]propSpec{
	"C07": ps("whether types.Equals is the right relation for host data of equal shape (C15/C17)", "ENVCHK", "PANIC-1"),
	"C09": ps("agreement with a reference maximal-munch lexer on all strings; the regular languages of the literal patterns", "SORTLESS-2"),
	"C12": ps("termination / polynomial time in general; unrecoverable Go failures (stack exhaustion, OOM, concurrent map write)", "PANIC-1"),
	"C13": ps("time literals relative to now; user-registered functions", "EFFECT-1", "EFFECT-4", "MAPORDER-1", "MAPORDER-2", "PAIR-1", "SORTLESS-1"),
	"C18": ps("the biconditional for arbitrary value pairs (values are not enumerated)", "SORTLESS-1", "INTGUARD-1", "INTGUARD-2", "PAIR-1", "MAPORDER-1", "MAPORDER-2"),
}
