package main

var stdAssumptions = []string{
	"the Go type checker, go/cfg, go/ssa and the VTA call graph of golang.org/x/tools v0.29.0 are correct",
	"no reflection- or cgo-driven calls into the module (timelib's C side is outside the analysed program)",
	"frozen tables in the checker (one symbol and one reason per entry) were confirmed by reading the code",
	"nil dereferences, stack exhaustion and out-of-memory are outside every rule",
	"rules about the shape of an anchored function compare it, after renaming / inlining / canonicalisation (DESIGN.md 9.4), with an expected normal form: a behaviour-preserving restructuring outside that layer's reach is reported as undecided or violated and has to be re-confirmed by reading (known instances: DESIGN.md 12.4)",
}

// thoroughExtra: rules added in the thorough tier — the rules that establish the lemmas a property's own rules consume
// (ARITY <- TC, STACK <- BC-3, ANNOT <- TC, twin loops <- SIBLING-1, ...), so that a thorough run re-derives its assumptions;
// in addition the SSA effect rules analyse every module function instead of only those reachable from the entries.
var thoroughExtra = map[string][]string{
	"C01": {"SIBLING-4", "SIBLING-9", "UN-1"},
	"C02": {"TC", "SIBLING-1", "SIBLING-2", "BC-1", "BC-7", "PANIC-1", "EFFECT-6"},
	"C03": {"BC-2", "BC-3", "BC-7", "TC", "DS~DS-2", "SIG-1", "EFFECT-6", "TRAVERSE-1"},
	"C04": {"SIBLING-1", "SIBLING-3", "TOTAL-1"},
	"C05": {"UN-1", "KINDSW", "LEX~LEX-7"},
	"C06": {"SIBLING-1", "SIBLING-2", "BC-1", "TC"},
	"C07": {"EFFECT-3", "EFFECT-7"},
	"C08": {"SORTLESS-2", "DS~DS-2"},
	"C09": {"PARSE"},
	"C10": {"TC", "LAZY", "TRAVERSE-1"},
	"C11": {"TC", "SIBLING-1", "SIBLING-3", "SIBLING-6", "POPORDER-1", "LAZY"},
	"C12": {"ENVCHK", "BC-3", "LEX~LEX-7", "PARSE", "TOTAL-1", "EFFECT-7"},
	"C13": {"INTGUARD-1", "SORTLESS-2", "IDENT-1", "LAYOUT", "ENVCHK"},
	"C14": {"EFFECT-1", "EFFECT-4", "SIBLING-6", "SIBLING-9", "PAIR-1"},
	"C15": {"LAYOUT", "SIBLING-9", "EFFECT-4", "EFFECT-6", "KINDSW"},
	"C16": {"KINDSW", "LAYOUT", "SIBLING-4"},
	"C17": {"TC", "PAIR-1"},
	"C18": {"SORTLESS-2", "EFFECT-6", "KINDSW", "SIG-1"},
	"C19": {"ENVCHK", "DS~DS-2", "PARSE", "SIBLING-3", "EFFECT-3", "TRAVERSE-1"},
	"C20": {"TC", "SIBLING-9", "PANIC-1", "INTGUARD-2", "EFFECT-3"},
}

func ps(notCovered string, rules ...string) propSpec {
	return propSpec{rules: rules, notCovered: notCovered, assumptions: stdAssumptions}
}

// property -> rules. The explanation in the evidence is composed from the clause of every rule that ran.
var props = map[string]propSpec{
	"C01": ps("the soundness theorem itself (that checker rules and the reduction rules of three evaluators fit together for every program); user-registered functions", "EQ-FIELDS", "TC", "KINDSW", "LAYOUT", "BC-6", "SIG-1", "EFFECT-6", "BC-1", "BC-7", "SIBLING-9", "EFFECT-2", "CONV", "UN-1"),
	"C02": ps("'stops exactly when the semantics says undefined' for % on fractional/huge operands and non-finite indices (float->int results are run-time values); nil dereference in general", "EFFECT-2", "TOTAL-1", "SIG-1", "SIBLING-4", "SIBLING-8", "BC-1", "BC-2", "BC-3", "BC-5", "BC-6", "KINDSW", "LAYOUT", "IDENT-2", "SIBLING-7", "CONV", "ENVCHK"),
	"C03": ps("equality of results for programs whose meaning depends on user functions; closure compiler and interpreter are compared by shape, not by normal form", "SIBLING-1", "SIBLING-2", "SIBLING-3", "SIBLING-4", "SIBLING-6", "SIBLING-7", "SIBLING-8", "SIBLING-9", "POPORDER-1", "LAZY", "BC-1", "BC-2", "BC-5", "BC-6", "BC-7", "EFFECT-5"),
	"C04": ps("IEEE arithmetic, the tolerance comparison, rune counting, set semantics, strtotime (a C library), literal decoding: values are not computed by static analysis; only that the VM twin of each built-in is the same expression, that integer rendering is guarded, and that every built-in is registered", "SIBLING-2", "INTGUARD-1", "INTGUARD-2", "SIG-1", "SIG-2", "SETORD-1", "SPEC-1", "SPEC-2", "BC-1", "BC-7", "IDENT-2", "IDENT-1"),
	"C05": ps("completeness/soundness of Unify as an algorithm (C17); the 'if and only if' as a whole", "TC", "EQ-FIELDS", "UN-1", "KEY-1", "KINDSW", "PAIR-1", "SIBLING-9", "DS~DS-2"),
	"C06": ps("user-registered lazy functions' own bodies; that a thunk forced twice evaluates twice is the same in all back ends by shape", "LAZY", "SIBLING-3", "SIBLING-8", "SIBLING-6", "SIBLING-7", "POPORDER-1", "BC-3", "DS~DS-2", "DS-9", "TRAVERSE-1", "EFFECT-5"),
	"C07": ps("whether types.Equals is the right relation for host data of equal shape (C15/C17)", "ENVCHK", "PANIC-1", "EQ-FIELDS", "LAYOUT", "CONV", "EFFECT-2", "SIBLING-9"),
	"C08": ps("equality with a reference precedence parser for all operator tables; syntax-error classification of arbitrary token sequences", "PARSE", "EFFECT-2", "LEX~LEX-7"),
	"C09": ps("agreement with a reference maximal-munch lexer on all strings; the regular languages of the literal patterns", "LEX", "LEX-8", "SORTLESS-2", "EFFECT-2", "EFFECT-7"),
	"C10": ps("the semantic half (same value or fail alike) beyond operand order and callee; it follows from C03/C05 for the explicit call", "DS", "DS-7", "DS-9", "SIBLING-4", "LEX-8", "LEX~LEX-7", "PARSE"),
	"C11": ps("nothing is executed: the stack-effect walk is an induction over the compiler source (trusted: the walker's model of the six emitter functions)", "BC-1", "BC-2", "BC-3", "BC-5", "BC-6", "BC-7", "SIBLING-2", "EFFECT-2"),
	"C12": ps("termination / polynomial time in general (only the backtracking structure is decided); unrecoverable Go failures (stack exhaustion, OOM, concurrent map write)", "PANIC-1", "PARSE-8", "CONV", "BC-2", "BC-3", "DS-7", "TRAVERSE-1", "PAIR-2"),
	"C13": ps("time literals relative to now; user-registered functions", "EFFECT-1", "EFFECT-2", "EFFECT-3", "EFFECT-4", "EFFECT-5", "EFFECT-6", "EFFECT-7", "ENGINE", "MAPORDER-1", "MAPORDER-2", "PAIR-1", "SORTLESS-1", "SIBLING-9", "ENVCHK", "IDENT-2", "DS~DS-2"),
	"C14": ps("schedules as such (nothing is executed); cgo state inside timelib beyond the mutex-guarded Go cache; callers sharing one *val.Env between goroutines while mutating it", "EFFECT-2", "EFFECT-5", "EFFECT-6", "EFFECT-7", "ENGINE", "EFFECT-3", "PAIR-2"),
	"C15": ps("equality of contents with the original Go value and numeric faithfulness (run-time values)", "CONV", "PANIC-1", "EQ-FIELDS", "IDENT-2"),
	"C16": ps("the universal 'every such program is rejected' as a statement over programs; only the structural reasons it holds are decided", "CONV", "EQ-FIELDS", "UN-1", "TC", "SIBLING-2", "ENVCHK", "TOTAL-1", "SIG-1", "EFFECT-2"),
	"C17": ps("the algebraic laws (most general unifier, agreement with a reference matcher) quantify over pairs of types and need enumeration or proof", "EQ-FIELDS", "UN-1", "KINDSW"),
	"C18": ps("the biconditional for arbitrary value pairs (values are not enumerated)", "SORTLESS-1", "INTGUARD-1", "INTGUARD-2", "PAIR-1", "MAPORDER-1", "MAPORDER-2", "EQ-FIELDS", "LAYOUT", "SETORD-1", "IDENT-1", "IDENT-2"),
	"C19": ps("equality with normal evaluation (that is C03: Debug uses the closure back end, Eval the VM); layout of the report for arbitrary columns beyond rune arithmetic", "DEBUG", "LAZY", "PANIC-1", "SIBLING-4", "EFFECT-6"),
	"C20": ps("re-parsing the output with an SQL reader (values); column-name quoting", "SQL", "INTGUARD-1", "SIG-2", "IDENT-2", "EFFECT-6"),
}
