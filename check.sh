#!/bin/bash
# usage: ./check.sh <property id> <quick|thorough> [--only <obligation key>] [--list]
# Static analysis of /repo's current working tree (override with YAE_REPO). Nothing in /repo is executed.
set -u
here="$(cd "$(dirname "$0")" && pwd)"
prop="${1:?property id}"; tier="${2:-${VERIF_TIER:-quick}}"; shift; shift || true
export GOFLAGS=-mod=mod GOPROXY=off GOSUMDB=off GOTOOLCHAIN=local CGO_ENABLED=1
unset GOWORK
repo="${YAE_REPO:-/repo}"
bin="$here/bin/yaecheck"
# rebuild the checker when its sources are newer than the binary
if [ ! -x "$bin" ] || [ -n "$(find "$here/checker" -newer "$bin" \( -name '*.go' -o -name 'go.mod' -o -name 'go.sum' \) -print -quit)" ]; then
  mkdir -p "$here/bin"
  (cd "$here/checker" && go build -o "$bin" .) || { echo "VIOLATION property=$prop replay=/dev/null"; echo "checker build failed" >&2; exit 1; }
fi
mkdir -p "$here/evidence"
extra=()
while [ $# -gt 0 ]; do
  case "$1" in
    --only) extra+=(-only "$2"); shift 2;;
    --list) extra+=(-list); shift;;
    --replay) shift; [ $# -gt 0 ] && shift;;   # replay = re-run the check (static: deterministic)
    *) shift;;
  esac
done
ev="$here/evidence/$prop.json"
[ -n "${YAE_EVIDENCE:-}" ] && ev="$YAE_EVIDENCE"
# a violations file left by an earlier run on a changed tree does not describe this run
rm -f "${ev%.json}.violations.json"
exec "$bin" -repo "$repo" -property "$prop" -tier "$tier" -evidence "$ev" -known "$here/known_findings.json" "${extra[@]}"
