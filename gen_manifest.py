#!/usr/bin/env python3
"""Regenerates MANIFEST.json from the table below (the claimed set must match checker/props.go)."""
import json, re, subprocess
claims = {
 "C14": ("SSA store census for process-global state (EFFECT-2), per-invocation VM and immutable program (EFFECT-5), value immutability (EFFECT-6), engine-state clause (ENGINE)", "4", "No location shared between goroutines is written during compile/invoke: every in-place write reachable from the entries whose target is (or can be, through fields and function results) a package-level variable or init-time captured variable is mutex-guarded, atomic or frozen with a constant-evaluated side condition; the VM is created inside the invocation closure; program bytes/constants are not written by anything reachable from Interp; engine fields are written only behind the init flag. Schedules are not explored; absence of shared writes is the argument."),

 "C02": ("TOTAL-1 guard facts + SIG-1 abstract typing of built-ins + SIBLING-4/8 + BC-2/3/5/6 + KINDSW", "4", "Every index/division/assertion in the 56 built-ins and the set helpers is discharged by arity, loop shape or dominating 0<=i<len guards, or is in the documented-partial table; accessors applied to arguments match the declared parameter types; no node kind, opcode or type kind falls into an unreachable branch; the stack-effect induction shows pops never exceed pushes for any compiled program; growth precedes every store; operand ranges are asserted not truncated; a function value is never called strictly without consulting its Lazy flag (today violated at OP_DYNAMIC_CALL: known finding). Exact partial-operation semantics of float->int conversions are run-time values and not decided."),
 "C04": ("SIBLING-2 normal-form equality of VM opcode twins + INTGUARD + SIG-1/2 + SETORD-1", "4", "Thin claim: static analysis does not compute values. Decided are necessary conditions: built-in bodies inhabit their declared signatures, the set helpers iterate the first operand in insertion order, the VM's inline re-implementation of each built-in is the same expression as the library's, integer rendering is guarded by IsInt with a 2^63 bound, every built-in is registered exactly once. IEEE arithmetic, tolerance, rune counting, set semantics, strtotime and literal decoding are not decided."),
 "C06": ("LAZY argument-builder discipline + SIBLING-3 ite-abstraction + BC-3 jump consistency", "4", "In each back end arguments are evaluated only in the not-Lazy branch and deferred otherwise, thunks are stateless single evaluations, the lazy built-ins force the condition once and then only the selected operand, the VM's conditional jumps make then/else exclusive, strict operands are popped back into source order."),
 "C11": ("BC-1..7 + SIG-3: induction over the bytecode compiler's source", "4", "Writer/reader operand agreement per opcode (and Go type of constants), width assertions, symbolic stack-effect walk of every emitter (net +1, never negative, both arms agree), jump placeholders patched once with forward boundary offsets at equal depth, opcode tables complete, one constant pool per compiler. This is the whole statement as an inductive fact about compiler source; the checker (not a proof assistant) is the trusted base."),
 "C15": ("CONV + SIBLING-10 kind-table agreement + PANIC-1", "4", "Type path and value path classify every reflect.Kind alike, depth limit on entry with lv+1 recursion, nil tested before use, unconditional homogeneity assertions, lock-step struct construction, conv entries return errors. Equality of contents with the Go value is not decided."),
 "C16": ("CONV-2 + EQ-FIELDS/UN-1 kind matching + TC-4 + SIBLING-2(get) + ENVCHK", "4", "Optional is its own kind that only equals/unifies with optional, member/subscript demand object/list/map kinds, nil host fields become Nothing of the static type, get(maybe) VM twin equals the library, the env check precedes evaluation. The universal statement over programs is not decided."),
 "C19": ("DEBUG shape rules + LAZY + PANIC-1", "4", "Exactly the four term kinds are recorded at their own columns by a recorder that evaluates once and returns the same value, columns flow from tokens through desugaring, the record is fresh and cleared per run, the renderer counts runes, lazy operands are not evaluated (hence not recorded) unless selected. Equality with normal evaluation is C03."),
 "C20": ("SQL precedence constants + flow of run-time values through fmtVal + formatter shapes", "4", "NOT > AND > OR by constant evaluation, parenthesise iff outer power exceeds own, every run-time value and literal passes fmtVal, strings only through strconv.Quote, exact bool/num/time forms, connectives in position, no lazy SQL function. Re-parsing the output is not done."),

 "C01": ("EQ-FIELDS + TC + KINDSW + LAYOUT + SIG-1 + EFFECT-6 + BC-6", "4", "Delta-rules preserve types (SIG-1: every built-in body inhabits its signature), values are never modified after construction, the VM stack never loses an operand. Checker obligations that preservation rests on (homogeneity, arity/argument comparison, annotations written, slot-free instantiation), structural type equality compares every component like with like, and every index into an object value comes from that value's own layout. Necessary conditions decided for all programs; the soundness theorem itself is not proved."),
 "C03": ("sibling cross-check of the two dispatch loops, node-kind coverage, opcode tables, thunk state, function tables", "4", "The two VM loops are compared handler by handler, every back end handles every core node kind, every opcode is handled/registered/named, thunk calls restore state, the two function tables are kept in lock-step. Agreement of sibling implementations is decided for all programs; value-level equality of results is not."),
 "C05": ("TC checker-obligation rules + EQ-FIELDS + KEY-1 + SIBLING-9", "4", "One obligation per typing rule of the statement, decided on the checker's source for all programs; the biconditional as a whole and unification's algebra are not decided."),
 "C07": ("ENVCHK dominance + PANIC-1 containment + EQ-FIELDS + LAYOUT", "4", "The compiled code is reached only after envCheck(compile env, same run-time env) returned nil, envCheck visits every compile-time name and asserts presence and types.Equals, failures come back as error, and field access does not depend on host field order."),
 "C08": ("PARSE shape/constant rules on the Pratt parser", "4", "Fixity wiring, right-operand powers (bp / next lower float32), strict loop comparison, per-node non-associativity check, span construction and registration order are decided on the parser source for every operator table; equality with a reference parser is not."),
 "C09": ("LEX registration/shape rules + constant evaluation of the repository's own patterns", "4", "Rule kinds, sort-before-register, primitive-operator look-ahead, rune-wise cursor, rune-count returns and registration order are decided for every operator set; the regular languages of the literal patterns are not analysed."),
 "C10": ("DS structural induction over Desugar's type switch", "4", "Core-forms-only, no sharing/mutation of annotated nodes, operand order, callee, pipeline order are decided for all trees; semantic equality of sugared and explicit forms follows from C03/C05 and is not decided here."),
 "C12": ("PANIC-1 recover-dominance + containment fixpoint; PARSE-8 backtracking structure", "4", "Every API entry converts internal panics to its error result (dominance of a recover handler that stores into the named error result, over resolved callees); the cursor is rewound only by tryParse and backtracking alternatives are counted. Termination and polynomial time in general are not decided."),
 "C13": ("whole-module effect scans + SSA store census (EFFECT-2/3/5/6, ENGINE) + map-order classification + pairing + comparator discipline", "4", "Caller-owned environments are never written (Inherit copies), values are immutable after construction (SSA provenance of every payload write), no process-global state is written, a fresh VM per invocation. No stdout writer but print, no reflection writes, every map iteration order-insensitive or sorted by an injective key, path-sets released, comparators index the sorted slice. Results of time literals relative to now are outside."),
 "C17": ("EQ-FIELDS + UN-1 + KINDSW", "4", "Equality/unification compare like components completely with exact length tests, bindings are made only under the occurs check on the substituted type and after the rebind test, kind switches are exhaustive. The algebraic laws (mgu, agreement with a reference matcher) are not decided."),
 "C18": ("SORTLESS + INTGUARD + PAIR + MAPORDER + EQ-FIELDS + LAYOUT + IDENT-1 + SETORD-1", "4", "Per-kind identity table (time: known finding), set membership keyed by the canonical rendering. Canonical rendering (sorted by injective keys, comparators index the sorted slice, no heap addresses for acyclic values), int64 rendering only under IsInt with a 2^63 bound, value equality matches object fields by name. The biconditional for arbitrary value pairs is not decided."),
}
na = {
}
under_construction = "rules for this property are not finished; nothing is claimed yet"
props = [json.loads(l) for l in open('/verif/properties.jsonl')]
checks, nas = [], []
for p in props:
    pid = p['id']
    if pid in claims:
        tech, sec, text = claims[pid]
        checks.append({
            "property_id": pid,
            "quick_cmd": f"./check.sh {pid} quick",
            "thorough_cmd": f"./check.sh {pid} thorough",
            "evidence_file": f"/verif/evidence/{pid}.json",
            "replay_cmd_template": f"./check.sh {pid} quick --replay {{path}}",
            "engine": "yaecheck",
            "level_claimed": {"category": "other", "text": "Static analysis: named structural clauses that are necessary conditions of the property, decided from /repo's source for all inputs (not the behaviour itself). " + text, "design_ref": f"DESIGN.md section {sec}, {pid}"},
            "level_note": "Trusted: go/types, go/cfg, go/ssa/VTA of x/tools v0.29.0, the checker's frozen tables (one symbol + reason each). Nothing in /repo is executed. Clauses about run-time values are listed as not covered in the evidence.",
            "technique": "static analysis: " + tech,
        })
    else:
        nas.append({"property_id": pid, "reason": na.get(pid, under_construction)})
m = {
 "version": 1,
 "setup_cmd": "cd /verif/checker && GOFLAGS=-mod=mod GOPROXY=off GOSUMDB=off GOTOOLCHAIN=local GOWORK=off go build -o /verif/bin/yaecheck .",
 "hooks": {"guard": "verif", "enable": "none: static analysis needs no hooks, nothing in /repo is built with a tag or executed", "baseline_off_cmd": "cd /repo && go test -mod=mod -vet=off -count=1 ./...", "source_commits": [], "add_only": True},
 "engines": [{"name": "yaecheck", "path": "/verif/checker", "serves_properties": sorted(claims), "kind_free_text": "repository-specific static checker (go/packages typed AST, go/cfg dominators, go/ssa + VTA call graph, go/constant); one obligation per rule instance; known findings matched by obligation key"}],
 "checks": checks,
 "not_applicable": nas,
 "notes": "check.sh rebuilds bin/yaecheck when checker sources are newer, loads /repo's working tree on every run, writes evidence/<id>.json. Known findings (genuine defects recorded, not repaired) are in known_findings.json; fix: commits in /repo are recorded there as fixed entries. selftest/ holds the checker's own validation (reverse-fix mutants, seeded changes under seeded/) and is not part of any verdict.",
}
json.dump(m, open('/verif/MANIFEST.json', 'w'), indent=1)
print(len(checks), "claimed;", len(nas), "not applicable")
